(* C05: property theorems (machine-level part).  Each name below is an alias of a theorem restated in full
   in Props/Idioms_props.v (proved in Sphinx/Idioms.v, TimeTravel.v, Guards.v for arbitrary surrounding code,
   every word size w >= 2, all operand values); Print Assumptions is re-run here for each.
   FULL statement (not proved): flag raised iff the fault condition occurs, first, before any effect, terminally, for whole programs.  C05_partial = exactness of every runtime-check idiom for all values: division guard, index guard, VLA length guard (all element types incl. bool after fix 661e8e7), VLA space guard arithmetic, return protection; error stubs are in C03.v/C17_stdlib.v.  Note vla_bool_near_max_spurious_overflow: bool arrays of length max_signed-6..max_signed always report stack_overflow (they would need W/16 bytes; at 16 bits that exceeds no admissible stack only above 2048 words) - recorded in DESIGN 10.1 as an observation. *)
From Coq Require Import ZArith List Bool.
From HidV Require Import Machine Halts VM Idioms_props.
Definition C05_guard_idiom := @P_guard_idiom.
Print Assumptions C05_guard_idiom.
Definition C05_guard_never_halts_on_failure := @P_guard_never_halts_on_failure.
Print Assumptions C05_guard_never_halts_on_failure.
Definition C05_div_guard_cond := @P_div_guard_cond.
Print Assumptions C05_div_guard_cond.
Definition C05_div_faults_iff := @P_div_faults_iff.
Print Assumptions C05_div_faults_iff.
Definition C05_div_guard_idiom := @P_div_guard_idiom.
Print Assumptions C05_div_guard_idiom.
Definition C05_index_guard_idiom := @P_index_guard_idiom.
Print Assumptions C05_index_guard_idiom.
Definition C05_vla_length_cond := @P_vla_length_cond.
Print Assumptions C05_vla_length_cond.
Definition C05_vla_length_guard_idiom := @P_vla_length_guard_idiom.
Print Assumptions C05_vla_length_guard_idiom.
Definition C05_vla_length_no_overflow := @P_vla_length_no_overflow.
Print Assumptions C05_vla_length_no_overflow.
Definition C05_vla_space_cond_exact := @P_vla_space_cond_exact.
Print Assumptions C05_vla_space_cond_exact.
Definition C05_vla_space_sound := @P_vla_space_sound.
Print Assumptions C05_vla_space_sound.
Definition C05_vla_byte_space_guard_sound := @P_vla_byte_space_guard_sound.
Print Assumptions C05_vla_byte_space_guard_sound.
Definition C05_vla_bool_length_guard_rejects_negative := @P_vla_bool_length_guard_rejects_negative.
Print Assumptions C05_vla_bool_length_guard_rejects_negative.
Definition C05_vla_bool_guards_sound := @P_vla_bool_guards_sound.
Print Assumptions C05_vla_bool_guards_sound.
Definition C05_vla_bool_near_max_rejected := @P_vla_bool_near_max_rejected.
Print Assumptions C05_vla_bool_near_max_rejected.
Definition C05_vla_guard_bool_without_length_guard_refuted := @P_vla_guard_bool_without_length_guard_refuted.
Print Assumptions C05_vla_guard_bool_without_length_guard_refuted.
Definition C05_return_protection_idiom := @P_return_protection_idiom.
Print Assumptions C05_return_protection_idiom.
