(* C07 -- the typechecker accepts exactly the well-typed programs.
   ONLY `Theorem name : statement. Proof. exact lemma. Qed.` + `Print Assumptions` (+ Examples
   showing the hypotheses of the implications are satisfiable). *)
From Coq Require Import ZArith String List Bool.
From HidV.Gen Require Import GenTypes.
From HidV.HiD Require Import Fold Types.
Local Open Scope string_scope.

(** the proved part: (1) coercion lattice, (2) overload rule, (3) soundness of the rejections on
    the checked tree, (4) arithmetic shrinkability *)
Theorem C07_partial : C07_partial_stmt.
Proof. exact Types.C07_partial. Qed.
Print Assumptions C07_partial.

Theorem C07_overload_spec : overload_spec_stmt.
Proof. exact Types.overload_spec. Qed.
Print Assumptions C07_overload_spec.
Example C07_overload_examples :
  resolve ex_decls (mkId "f" FL_NONE) (cons (rep_plain (TData BYTE)) nil)
    = OK (mkSig (mkId "f" FL_NONE) (cons (TData BYTE) nil) BYTE) /\
  resolve ex_decls (mkId "f" FL_NONE) (cons (TArrLit (cons (TByte 97%Z true true) nil) (TArr BYTE true) false) nil)
    = OK (mkSig (mkId "f" FL_NONE) (cons (TArr INT true) nil) BOOL) /\
  resolve ex_decls (mkId "f" FL_NONE) (cons (rep_plain (TData STRING)) nil)
    = Err (ENoMatchingFunction (mkId "f" FL_NONE) (cons (TData STRING) nil)).
Proof. exact Types.resolve_examples. Qed.

Theorem C07_resolve_exact_first : forall decls f args s,
  List.In s decls -> exact_sig f (List.map ty_of args) s = true ->
  exists s', resolve decls f args = OK s' /\ f_id s' = f /\ f_params s' = List.map ty_of args.
Proof. exact Types.resolve_exact_first. Qed.
Print Assumptions C07_resolve_exact_first.

Theorem C07_no_assign_to_const : forall u p tp,
  elab_program u p = OK tp -> funcs_all assign_ok tp = true.
Proof. exact Types.no_assign_to_const. Qed.
Print Assumptions C07_no_assign_to_const.
Example C07_accepts_something : exists tp, elab_program false ex_program = OK tp.
Proof. exact Types.elab_accepts_example. Qed.

Theorem C07_returns_match : forall u p tp,
  elab_program u p = OK tp -> funcs_all return_ok tp = true.
Proof. exact Types.returns_match. Qed.
Print Assumptions C07_returns_match.

Theorem C07_no_nested_arrays : forall u p tp,
  elab_program u p = OK tp ->
  funcs_all stmt_exprs_wf tp = true /\
  List.forallb (stmt_all (stmt_exprs_wf None)) (tp_vars tp) = true.
Proof. exact Types.no_nested_arrays. Qed.
Print Assumptions C07_no_nested_arrays.

Theorem C07_no_implicit_narrowing : forall e,
  ty_of e = TData INT -> coercible e (TData BYTE) = true -> shrinkable_node e = true.
Proof. exact Types.no_implicit_narrowing. Qed.
Print Assumptions C07_no_implicit_narrowing.
Example C07_narrowing_hyps :
  ty_of (TInt 5%Z true false) = TData INT /\ coercible (TInt 5%Z true false) (TData BYTE) = true /\
  ty_of (rep_plain (TData INT)) = TData INT /\ coercible (rep_plain (TData INT)) (TData BYTE) = false.
Proof. exact Types.narrowing_hyps_example. Qed.

Theorem C07_const_array_not_to_mutable : forall e el,
  denotes_const_array e = true -> coercible e (TArr el false) = false.
Proof. exact Types.const_array_not_to_mutable. Qed.
Print Assumptions C07_const_array_not_to_mutable.
Example C07_const_array_hyps :
  denotes_const_array (rep_plain (TArr INT true)) = true /\
  denotes_const_array (TVolatile (rep_plain (TArr INT false))) = false /\
  coercible (TVolatile (rep_plain (TArr INT false))) (TArr INT false) = true.
Proof. exact Types.const_array_hyps_example. Qed.

Theorem C07_coercible_cast_ok : forall e new,
  wf e = true -> coercible e new = true -> is_ok (cast e new) = true.
Proof. exact Types.coercible_cast_ok. Qed.
Print Assumptions C07_coercible_cast_ok.

Theorem C07_arith_shrinkable : forall en c l r te,
  op_family c = FamBinArith -> elab_expr en (EBin c l r) = OK te ->
  exists l' r', elab_expr en l = OK l' /\ elab_expr en r = OK r' /\
    coercible te (TData BYTE) = (coercible l' (TData BYTE) && coercible r' (TData BYTE))%bool.
Proof. exact Types.arith_shrinkable. Qed.
Print Assumptions C07_arith_shrinkable.

(** the former defects F7 and F6 are fixed in the repository: the positive statements hold *)
Theorem C07_no_assign_to_string_element : forall u p tp,
  elab_program u p = OK tp -> funcs_all not_string_target tp = true.
Proof. exact Types.no_assign_to_string_element. Qed.
Print Assumptions C07_no_assign_to_string_element.

Theorem C07_no_empty_typed_arrays : forall u p tp,
  elab_program u p = OK tp ->
  funcs_all stmt_exprs_no_empty tp = true /\
  List.forallb (stmt_all (stmt_exprs_no_empty None)) (tp_vars tp) = true.
Proof. exact Types.no_empty_typed_arrays. Qed.
Print Assumptions C07_no_empty_typed_arrays.
Example C07_former_defect_witnesses_rejected :
  elab_program false f7_witness = Err EAssignConst /\
  elab_program false f6_witness = Err EArrayEmptyElement.
Proof. exact Types.former_defect_witnesses_rejected. Qed.

(** refutation: the faithful model of the code still violates the full statement; the witness
    is `byte x = true is int;` (an explicit-cast result implicitly narrowed) *)
Example C07_narrowing_witness_facts :
  (exists tp, elab_program false narrowing_witness = OK tp) /\ wt_program narrowing_witness = false.
Proof. exact Types.narrowing_witness_facts. Qed.

Theorem C07_full_statement_refuted : ~ C07_full_statement.
Proof. exact Types.C07_full_statement_refuted. Qed.
Print Assumptions C07_full_statement_refuted.

Theorem C07_literal_rules : forall en n,
  (exists te, elab_expr en (EInt n) = OK te /\ ty_of te = TData INT /\ coercible te (TData BYTE) = true) /\
  (exists te, elab_expr en (EChar n) = OK te /\ ty_of te = TData BYTE /\ coercible te (TData INT) = true) /\
  (forall d s c, coercible (at_subst (TInt d s c)) (TData BYTE) = false).
Proof. exact Types.literal_rules. Qed.
Print Assumptions C07_literal_rules.
