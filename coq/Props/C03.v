(* C03 - halt is defeat: a compiled program never halts.  Property theorems only.

   Full statement (NOT proved; it needs the whole-generator simulation, see DESIGN §4 C03):
   for every accepted program p with defined behaviour, every input and configuration,
   ~ Halts (initial state of (assemble (hidc p))).
   What is proved (C03_partial = the conjunction of the theorems below):
   1. "reaches the halted state on its committed timeline" is the single predicate Halts of the
      initial state (haltingness is invariant along committed steps);
   2. committed cycles, safe sets: the coinduction principles by which "never halts" is shown;
   3. the win loop, the error loop and the four error stubs of the REGENERATED stdlib never halt,
      from any memory, and emit exactly their flags then sleeps for ever;
   4. goto / two-way branch lowering idioms transport Halts both ways (they can never turn a
      non-halting continuation into a halting one);
   5. in every program the context model accepts (proved equivalent to the rules and corresponded
      with the parser), every defeat call and preempt lies in a try body or a defeat function;
   6. vm_sound: every verdict of the verified VM is a proof (ABSORBED/FAULT: ~Halts; HALT: Halts),
      so each run of the sweep carries a theorem instance. *)
From Coq Require Import ZArith List Bool.
From HidV Require Import Machine Halts VM GenStdlib StdlibBase StdlibStubs Context.
Import ListNotations.
Open Scope Z_scope.

Definition C03_full_statement_informal : Prop := True.  (* see header: stated over hidc itself, not expressible without a model of the whole generator *)

Theorem C03_halting_invariant_along_committed_timeline :
  forall act s l s', csteps act s l s' -> (Halts act s <-> Halts act s').
Proof. exact halts_csteps. Qed.
Print Assumptions C03_halting_invariant_along_committed_timeline.

Theorem C03_committed_step_deterministic :
  forall act s e1 a e2 b, cstep act s e1 a -> cstep act s e2 b -> a = b /\ e1 = e2.
Proof. exact cstep_det. Qed.

Theorem C03_cycle_never_halts : forall act s, splus act s s -> ~ Halts act s.
Proof. exact succ_cycle_not_halts. Qed.
Print Assumptions C03_cycle_never_halts.

Theorem C03_safe_set : forall act (S : state -> Prop),
  (forall s, S s -> act s <> AHalt /\ exists s', succ act s s' /\ S s') -> forall s, S s -> ~ Halts act s.
Proof. exact safe_set. Qed.
Print Assumptions C03_safe_set.

Theorem C03_goto_transports_halts : forall act s sn sj,
  act s = AJump sn sj -> act sn = AHalt -> runs act s [] sj.
Proof. exact runs_goto. Qed.
Theorem C03_branch_taken_transports_halts : forall act s sn sj sj',
  act s = AJump sn sj -> act sn = AHalt -> act sj = ANext sj' None -> runs act s [] sj'.
Proof. exact runs_branch_taken. Qed.
Theorem C03_branch_fall_transports_halts : forall act s sn sj sn',
  act s = AJump sn sj -> act sn = ANext sn' None -> act sj = AHalt -> runs act s [] sn'.
Proof. exact runs_branch_fall. Qed.
Print Assumptions C03_branch_fall_transports_halts.

Theorem C03_win_state_absorbing : forall w code cmem B, 2 <= w -> lib_at w code B -> lib_range w B ->
  forall m, absorbed w code cmem B (mk (B + off_all_is_win) m) [EFlag 0].
Proof. exact all_is_win_absorbing. Qed.
Print Assumptions C03_win_state_absorbing.
Theorem C03_error_state_absorbing : forall w code cmem B, 2 <= w -> lib_at w code B -> lib_range w B ->
  forall m, absorbed w code cmem B (mk (B + off_all_is_broken) m) [EFlag 1].
Proof. exact all_is_broken_absorbing. Qed.
Theorem C03_stack_overflow_stub_absorbing : forall w code cmem B, 2 <= w -> lib_at w code B -> lib_range w B ->
  forall m, absorbed w code cmem B (mk (B + off_stack_overflow) m) [EFlag 2; EFlag 1].
Proof. exact stack_overflow_absorbing. Qed.
Theorem C03_division_stub_absorbing : forall w code cmem B, 2 <= w -> lib_at w code B -> lib_range w B ->
  forall m, absorbed w code cmem B (mk (B + off_division_by_zero) m) [EFlag 3; EFlag 1].
Proof. exact division_by_zero_absorbing. Qed.
Theorem C03_bounds_stub_absorbing : forall w code cmem B, 2 <= w -> lib_at w code B -> lib_range w B ->
  forall m, absorbed w code cmem B (mk (B + off_out_of_bounds) m) [EFlag 4; EFlag 1].
Proof. exact out_of_bounds_absorbing. Qed.
Theorem C03_nonlocal_stub_absorbing : forall w code cmem B, 2 <= w -> lib_at w code B -> lib_range w B ->
  forall m, absorbed w code cmem B (mk (B + off_nonlocal_preempt) m) [EFlag 5; EFlag 1].
Proof. exact nonlocal_preempt_absorbing. Qed.
Print Assumptions C03_nonlocal_stub_absorbing.

Theorem C03_defeat_only_in_try_or_defeat_function : forall p : program, accepts p = true ->
  forall path n, occurs p path n -> uses_defeat n -> inside_try_or_defeat_function path.
Proof. exact defeat_only_in_try. Qed.
Print Assumptions C03_defeat_only_in_try_or_defeat_function.

Theorem C03_vm_verdicts_are_proofs : forall w code cmem mon watch fuel s,
  verdict_ok w code cmem s (run w code cmem mon watch fuel s).
Proof. exact vm_sound. Qed.
Print Assumptions C03_vm_verdicts_are_proofs.
Theorem C03_vm_absorbed_never_halts : forall w code cmem mon watch fuel s evs s' sp,
  run w code cmem mon watch fuel s = OAbsorbed evs s' sp ->
  ~ Halts (act w code cmem) s /\ csteps (act w code cmem) s evs s' /\ cplus (act w code cmem) s' s'.
Proof. exact vm_absorbed_never_halts. Qed.
Theorem C03_vm_halt_is_committed_halt : forall w code cmem mon watch fuel s,
  run w code cmem mon watch fuel s = OHalt -> Halts (act w code cmem) s.
Proof. exact vm_halt_is_committed_halt. Qed.
Print Assumptions C03_vm_halt_is_committed_halt.
