(* C04 (item 1 of DESIGN.md "### C04") -- every stack-overflow guard constant handed out by
   hidc/codegen/tracker.py is the LARGEST static frame size reached later in the same block.
   ONLY restatements: `Theorem name : statement. Proof. exact lemma. Qed.` + Print Assumptions.

   `gen_choices` = (add_bisect, update_bisect, pop_reversed) of Gen/GenTracker.v, which is
   regenerated from hidc/codegen/tracker.py on every run.  An operation sequence is the list of
   Tracker calls made during one compilation (Add v = checkpoints.add(v), Update v =
   checkpoints.update(v), Push / Pop = push_level() / pop_level()); the id of a checkpoint is the
   position of its Add; `snd (run gen_choices ops)` is the list of `finalize` calls (id, value).
   The theorems quantify over ALL sequences (a Pop at nesting depth 0 pops the base level, which
   is what gen_func does at the end of every function), hence over all well-bracketed ones. *)
From Coq Require Import ZArith List Bool Sorted.
From HidV Require Import GenTracker Tracker.
Import ListNotations.

(* (a) max_vals stays sorted -- whatever bisect variants / iteration order the source uses *)
Theorem C04_max_vals_sorted : forall ch ops,
  StronglySorted Z.le (max_vals (fst (run ch ops))).
Proof. exact Tracker.max_vals_sorted. Qed.
Print Assumptions C04_max_vals_sorted.

Theorem C04_levels_never_empty : forall ch ops, levels (fst (run ch ops)) <> [].
Proof. exact Tracker.levels_never_empty. Qed.
Print Assumptions C04_levels_never_empty.

(* `self.max_vals.pop(idx)` never raises IndexError *)
Theorem C04_no_index_error : forall ops, run_ok gen_choices ops = true.
Proof. exact Tracker.no_index_error. Qed.
Print Assumptions C04_no_index_error.

(* (b) checkpoint i is finalised with x  <->  op i is `Add v`, the level it was added to is
   popped at position j, and x = max (v, the arguments of the updates strictly between i and j) *)
Theorem C04_finalized_is_future_max : forall ops i x,
  In (i, x) (snd (run gen_choices ops)) <->
  exists v j, nth_error ops i = Some (Add v) /\ matching_pop ops i = Some j /\
              x = fold_left Z.max (updates_between ops i j) v.
Proof. exact Tracker.finalized_is_future_max. Qed.
Print Assumptions C04_finalized_is_future_max.

(* what matching_pop denotes: a later Pop ... *)
Theorem C04_matching_pop_is_Pop : forall ops i j,
  matching_pop ops i = Some j -> i < j /\ nth_error ops j = Some Pop.
Proof. exact Tracker.matching_pop_is_Pop. Qed.
Print Assumptions C04_matching_pop_is_Pop.

Example C04_ex_function_run : snd (run gen_choices ex_function) = [(6, 28%Z); (2, 28%Z)].
Proof. exact Tracker.ex_function_run. Qed.

Example C04_ex_function_matching :
  matching_pop ex_function 6 = Some 12 /\ matching_pop ex_function 2 = Some 13
  /\ updates_between ex_function 6 12 = [20%Z; 28%Z; 24%Z].
Proof. exact Tracker.ex_function_matching. Qed.

Example C04_ex_siblings_run :
  snd (run gen_choices ex_siblings) = [(2, 10%Z); (6, 6%Z); (0, 10%Z)].
Proof. exact Tracker.ex_siblings_run. Qed.

Example C04_ex_stale_index_run : snd (run gen_choices ex_stale_index) = [(1, 7%Z); (0, 10%Z)].
Proof. exact Tracker.ex_stale_index_run. Qed.

(* every checkpoint is finalised at most once (DynamicValue.finalize never raises
   'Already finalized') *)
Theorem C04_finalized_once : forall ops, NoDup (map fst (snd (run gen_choices ops))).
Proof. exact Tracker.finalized_once. Qed.
Print Assumptions C04_finalized_once.

(* (c) the guard constant dominates its own value and every static size recorded by `update`
   during the rest of its block *)
Theorem C04_guard_dominates : forall ops i x v j,
  In (i, x) (snd (run gen_choices ops)) ->
  nth_error ops i = Some (Add v) -> matching_pop ops i = Some j ->
  (v <= x)%Z /\
  forall k u, i < k < j -> nth_error ops k = Some (Update u) -> (u <= x)%Z.
Proof. exact Tracker.guard_dominates. Qed.
Print Assumptions C04_guard_dominates.

Theorem C04_guard_passed_covers_block : forall ops i N v j gap,
  In (i, N) (snd (run gen_choices ops)) ->
  nth_error ops i = Some (Add v) -> matching_pop ops i = Some j ->
  (N <= gap)%Z ->
  (v <= gap)%Z /\
  forall k u, i < k < j -> nth_error ops k = Some (Update u) -> (u <= gap)%Z.
Proof. exact Tracker.guard_passed_covers_block. Qed.
Print Assumptions C04_guard_passed_covers_block.

Example C04_guard_dominates_hyps_sat :
  exists ops i x v j, In (i, x) (snd (run gen_choices ops)) /\
    nth_error ops i = Some (Add v) /\ matching_pop ops i = Some j /\
    exists k u, i < k < j /\ nth_error ops k = Some (Update u).
Proof. exact Tracker.guard_dominates_hyps_sat. Qed.

(* the same three results for ANY bisect variants, as long as pop_level walks the level in
   reversed order: swapping bisect_left / bisect_right in `add` or `update` is harmless *)
Theorem C04_finalized_is_future_max_any_bisect : forall ch, c_rev ch = true ->
  forall ops i x,
  In (i, x) (snd (run ch ops)) <->
  exists v j, nth_error ops i = Some (Add v) /\ matching_pop ops i = Some j /\
              x = fold_left Z.max (updates_between ops i j) v.
Proof. exact Tracker.finalized_is_future_max_gen. Qed.
Print Assumptions C04_finalized_is_future_max_any_bisect.

(* with reversed iteration the tracker is the reference model in which every live checkpoint
   carries its own running maximum *)
Theorem C04_run_refines_spec : forall ch ops,
  c_rev ch = true -> snd (run ch ops) = snd (arun ops).
Proof. exact Tracker.run_refines_spec. Qed.
Print Assumptions C04_run_refines_spec.

(* dropping `reversed` is NOT harmless: the property fails and pop(idx) goes out of range *)
Theorem C04_no_reverse_refuted : forall ka ku,
  ~ (forall ops i x,
      In (i, x) (snd (run (mkChoices ka ku false) ops)) <->
      exists v j, nth_error ops i = Some (Add v) /\ matching_pop ops i = Some j /\
                  x = fold_left Z.max (updates_between ops i j) v).
Proof. exact Tracker.no_reverse_refuted. Qed.
Print Assumptions C04_no_reverse_refuted.

Theorem C04_no_reverse_index_error : forall ka ku,
  run_ok (mkChoices ka ku false) [Add 0%Z; Add 1%Z; Pop] = false.
Proof. exact Tracker.no_reverse_index_error. Qed.
Print Assumptions C04_no_reverse_index_error.
