(* C01 - compiled code computes what the source says (sequential core): property theorems only.

   Full statement (NOT proved): for all w in {2,3,4,8}, well-typed programs p without time travel,
   inputs and sufficient stacks: the initial state of assemble(hidc p) never halts and its
   committed events are exactly Sem(p)'s followed by the win flag.  That needs a model of the
   whole code generator; DESIGN §4 C01 says which part is proved and which is searched.
   C01_partial = the theorems below:
   1. the machine-level meaning of a run: `runs` composes, every ordinary instruction and every
      `j X; halt` / two-way-branch idiom is a `runs` step (so on the sequential core each emitted
      jump behaves as an ordinary (un)conditional jump whenever the continuation does not halt);
   2. the regenerated operator tables are correct for all operand values and all word sizes
      (arith_map, compare_map, halt_inversion = negation): shared with C09;
   3. the library routines the sequential core calls (write family) meet their specification on
      the regenerated text: shared with C17;
   4. vm_sound: the VM verdict of every run in the differential sweep is a proof about the
      committed timeline (what is compared with the reference semantics is the *committed*
      trace, by theorem, not an artefact of the interpreter). *)
From Coq Require Import ZArith List Bool.
From HidV Require Import Machine Halts VM WordLemmas GenTables OpTables.
Import ListNotations.
Open Scope Z_scope.

Theorem C01_runs_compose : forall act s l s' l' s'', runs act s l s' -> runs act s' l' s'' -> runs act s (l ++ l') s''.
Proof. exact runs_trans. Qed.
Theorem C01_instruction_is_a_run : forall act s s' e, act s = ANext s' e -> runs act s (evl e) s'.
Proof. exact runs_next. Qed.
Theorem C01_goto : forall act s sn sj, act s = AJump sn sj -> act sn = AHalt -> runs act s [] sj.
Proof. exact runs_goto. Qed.
Theorem C01_branch_taken : forall act s sn sj sj',
  act s = AJump sn sj -> act sn = AHalt -> act sj = ANext sj' None -> runs act s [] sj'.
Proof. exact runs_branch_taken. Qed.
Theorem C01_branch_not_taken : forall act s sn sj sn',
  act s = AJump sn sj -> act sn = ANext sn' None -> act sj = AHalt -> runs act s [] sn'.
Proof. exact runs_branch_fall. Qed.
Print Assumptions C01_branch_not_taken.
Theorem C01_run_to_nonhalting_is_committed : forall act s l s', runs act s l s' -> ~ Halts act s' -> ~ Halts act s /\ csteps act s l s'.
Proof. exact runs_not_halts. Qed.
Print Assumptions C01_run_to_nonhalting_is_committed.

Theorem C01_arith_map_correct : forall w, 1 <= w -> Forall (arith_entry_ok w) arith_map.
Proof. exact arith_map_correct. Qed.
Theorem C01_compare_map_correct : forall w, 1 <= w -> Forall (cmp_entry_ok w) compare_map.
Proof. exact compare_map_correct. Qed.
Theorem C01_halt_inversion_is_negation : forall w, Forall (inv_entry_ok w) halt_inversion.
Proof. exact halt_inversion_is_negation. Qed.
Print Assumptions C01_halt_inversion_is_negation.

Theorem C01_vm_trace_is_committed : forall w code cmem mon watch fuel s evs s' sp,
  run w code cmem mon watch fuel s = OAbsorbed evs s' sp ->
  ~ Halts (act w code cmem) s /\ csteps (act w code cmem) s evs s' /\ cplus (act w code cmem) s' s'.
Proof. exact vm_absorbed_never_halts. Qed.
Print Assumptions C01_vm_trace_is_committed.
