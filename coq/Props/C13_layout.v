(* C13 / C04 - the regenerated layout arithmetic (Gen/GenLayout.v): property theorems only. *)
From Coq Require Import ZArith List Bool Lia.
From HidV Require Import Machine GenLayout LayoutProofs.
Import ListNotations.
Open Scope Z_scope.

(* constant bool arrays: (n + 7) / 8 bytes ... *)
Theorem C13_pack_bools_length : forall l, length (pack_bools l) = ((length l + 7) / 8)%nat.
Proof. exact pack_bools_length. Qed.
Print Assumptions C13_pack_bools_length.

(* ... element i is bit (i mod 8) of byte (i / 8) ... *)
Theorem C13_pack_bools_spec : forall l i, Forall (fun b => b = 0 \/ b = 1) l -> (i < length l)%nat ->
  Z.testbit (nth (i / 8) (pack_bools l) 0) (Z.of_nat (i mod 8)) = (nth i l 0 =? 1).
Proof. exact pack_bools_spec. Qed.
Print Assumptions C13_pack_bools_spec.

(* ... every other bit is zero, every byte is a byte ... *)
Theorem C13_pack_bools_other_bits : forall l k t, Forall (fun b => b = 0 \/ b = 1) l ->
  (8 <= t \/ length l <= 8 * k + t)%nat -> Z.testbit (nth k (pack_bools l) 0) (Z.of_nat t) = false.
Proof. exact pack_bools_other_bits. Qed.
Print Assumptions C13_pack_bools_other_bits.
Theorem C13_pack_bools_bytes : forall l, Forall (fun b => b = 0 \/ b = 1) l ->
  Forall (fun x => 0 <= x < 256) (pack_bools l).
Proof. exact pack_bools_bytes. Qed.
Print Assumptions C13_pack_bools_bytes.

(* ... and the result is the clean specification: byte k = sum of element (8k+t) * 2^t, t < 8 *)
Theorem C13_pack_bools_eq_spec : forall l, Forall (fun b => b = 0 \/ b = 1) l ->
  pack_bools l = map (fun k => fold_right (fun t a => nth (8 * k + t) l 0 * 2 ^ Z.of_nat t + a) 0 (seq 0 8))
                     (seq 0 ((length l + 7) / 8)).
Proof. exact pack_bools_eq_spec. Qed.
Print Assumptions C13_pack_bools_eq_spec.
Example C13_pack_bools_example :
  Forall (fun b => b = 0 \/ b = 1) [1;0;1;1;0;1;0;1;1] /\ pack_bools [1;0;1;1;0;1;0;1;1] = [173; 1].
Proof. split; [repeat constructor; lia | vm_compute; reflexivity]. Qed.

(* sizes of arrays of admissible length do not wrap (all element types) *)
Theorem C04_array_size_no_wrap : forall w d len, 2 <= w -> 0 <= len <= max_length w d ->
  0 <= array_size w d len <= max_signed w.
Proof. exact array_size_no_wrap. Qed.
Print Assumptions C04_array_size_no_wrap.
Example C04_array_size_no_wrap_sat : 2 <= 2 /\ 0 <= 16383 <= max_length 2 DINT /\ array_size 2 DINT 16383 = 32766.
Proof. vm_compute. repeat split; congruence. Qed.
Theorem C04_word_limits : forall w, 1 <= w ->
  max_signed w = Machine.W w / 2 - 1 /\ max_unsigned w = Machine.W w - 1.
Proof. intros w Hw. exact (conj (max_signed_eq w Hw) (max_unsigned_eq w Hw)). Qed.
Print Assumptions C04_word_limits.
Theorem C04_array_size_bool : forall w len, 0 <= len -> array_size w DBOOL len = (len + 7) / 8.
Proof. exact array_size_bool. Qed.
Print Assumptions C04_array_size_bool.
Theorem C04_frame_size_values : forall w,
  frame_size w DINT = w /\ frame_size w DSTRING = w /\ frame_size w DBOOL = 1 /\ frame_size w DBYTE = 1 /\
  frame_size w DEMPTY = 0.
Proof. exact frame_size_values. Qed.
Print Assumptions C04_frame_size_values.

(* every stack size the generator admits keeps all state addresses positive signed words *)
Theorem C04_stack_admissible_in_signed_range : forall w stack, stack_size_rejected w stack = false -> 0 <= stack ->
  (stack + 5) * w <= max_signed w.
Proof. exact stack_admissible_in_signed_range. Qed.
Print Assumptions C04_stack_admissible_in_signed_range.
Theorem C04_stack_addresses_positive_signed : forall w stack a, 2 <= w -> stack_size_rejected w stack = false ->
  0 <= stack -> 0 <= a < (stack + 5) * w -> Machine.sgn w a = a.
Proof. exact stack_addresses_positive_signed. Qed.
Print Assumptions C04_stack_addresses_positive_signed.
Example C04_stack_admissible_sat : stack_size_rejected 2 1000 = false /\ stack_size_rejected 2 16379 = true.
Proof. vm_compute. split; reflexivity. Qed.
