(* C14 -- compile-time evaluation is invisible.
   ONLY `Theorem name : statement. Proof. exact lemma. Qed.` + `Print Assumptions` (+ Examples
   showing the hypotheses of the implications are satisfiable). *)
From Coq Require Import ZArith List.
From HidV.Gen Require Import GenTypes.
From HidV.HiD Require Import Fold.
Local Open Scope Z_scope.

Theorem C14_fold_agrees_ring : forall w c a b, 1 <= w -> In c ring2 ->
  exists v, fold_arith2 c a b = FVal v /\ rt_op2 w c (wrap w a) (wrap w b) = RVal (wrap w v).
Proof. exact Fold.fold_agrees_ring. Qed.
Print Assumptions C14_fold_agrees_ring.

Theorem C14_fold_agrees_ring1 : forall w c a, 1 <= w -> In c ring1 ->
  exists v, fold_arith1 c a = FVal v /\ rt_op1 w c (wrap w a) = RVal (wrap w v).
Proof. exact Fold.fold_agrees_ring1. Qed.
Print Assumptions C14_fold_agrees_ring1.

Theorem C14_ring_exprs_invisible : forall w e, 1 <= w -> ring_only e = true ->
  exists v, cfold e = FVal v /\ crt w e = RVal (wrap w v).
Proof. exact Fold.ring_exprs_invisible. Qed.
Print Assumptions C14_ring_exprs_invisible.
Example C14_ring_hyps :
  1 <= 2 /\ ring_only (CBin OMul (CLit 40000) (CUn ONeg (CLit 3))) = true /\
  cfold (CBin OMul (CLit 40000) (CUn ONeg (CLit 3))) = FVal (-120000) /\
  crt 2 (CBin OMul (CLit 40000) (CUn ONeg (CLit 3))) = RVal (wrap 2 (-120000)).
Proof. exact Fold.ring_hyps_example. Qed.

Theorem C14_fold_agrees_inrange : fold_agrees_inrange_stmt.
Proof. exact Fold.fold_agrees_inrange. Qed.
Print Assumptions C14_fold_agrees_inrange.
Example C14_inrange_hyps :
  1 <= 2 /\ In ODiv divmod /\ in_range 2 (-7) /\ in_range 2 2 /\
  fold_arith2 ODiv (-7) 2 = FVal (-4) /\ in_range 2 (-4) /\
  rt_op2 2 ODiv (wrap 2 (-7)) (wrap 2 2) = RVal (wrap 2 (-4)).
Proof. exact Fold.inrange_hyps_example. Qed.
Example C14_compare_hyps :
  1 <= 2 /\ In OLt compare6 /\ in_range 2 (-32768) /\ in_range 2 32767 /\
  fold_bool2 OLt (-32768) 32767 = FVal true /\
  rt_op2 2 OLt (wrap 2 (-32768)) (wrap 2 32767) = RVal 1.
Proof. exact Fold.compare_hyps_example. Qed.

Theorem C14_fold_bool_agrees :
  (forall w c (x y : bool), In c logic2 ->
     exists r, fold_bool2 c (b2z x) (b2z y) = FVal r /\ rt_op2 w c (b2z x) (b2z y) = RVal (b2z r)) /\
  (forall w (x : bool),
     exists r, fold_bool1 ONot (b2z x) = FVal r /\ rt_op1 w ONot (b2z x) = RVal (b2z r)) /\
  (forall w c (x y : bool), In c (OEq :: ONe :: nil) ->
     exists r, fold_bool2 c (b2z x) (b2z y) = FVal r /\ rt_op2 w c (b2z x) (b2z y) = RVal (b2z r)) /\
  (forall w a, 1 <= w -> in_range w a -> rt_int_to_bool (wrap w a) = fold_int_to_bool a) /\
  (forall b, rt_bool_to_int b = fold_bool_to_int b).
Proof. exact Fold.fold_bool_agrees. Qed.
Print Assumptions C14_fold_bool_agrees.

Theorem C14_fold_rejects_only_faults :
  (forall c a b, In c (ring2 ++ divmod) ->
     is_val (fold_arith2 c a b) = false <-> (In c divmod /\ b = 0)) /\
  (forall c a b, In c divmod -> b = 0 ->
     exists m, fold_arith2 c a b = FErr m /\ assoc opclass_beq c fold_zero_msg = Some m) /\
  (forall c a, In c ring1 -> is_val (fold_arith1 c a) = true) /\
  (forall c a b, In c (compare6 ++ logic2) -> is_val (fold_bool2 c a b) = true) /\
  (forall a, is_val (fold_bool1 ONot a) = true) /\
  (forall w c a b, 1 <= w -> In c (ring2 ++ divmod) -> is_val (fold_arith2 c a b) = false ->
     rt_op2 w c (wrap w a) (wrap w b) = RFault).
Proof. exact Fold.fold_rejects_only_faults. Qed.
Print Assumptions C14_fold_rejects_only_faults.
Example C14_reject_hyps :
  In ODiv (ring2 ++ divmod) /\ is_val (fold_arith2 ODiv 5 0) = false /\
  rt_op2 2 ODiv (wrap 2 5) (wrap 2 0) = RFault.
Proof. exact Fold.reject_hyps_example. Qed.

(** refutations (defect F5): the faithful model of the folding code disagrees with run time *)
Theorem C14_fold_div_refuted : exists w c a b v,
  1 <= w /\ In c divmod /\ fold_arith2 c a b = FVal v /\
  rt_op2 w c (wrap w a) (wrap w b) <> RVal (wrap w v).
Proof. exact Fold.fold_div_refuted. Qed.
Print Assumptions C14_fold_div_refuted.

Theorem C14_fold_mod_refuted : exists w a b v,
  1 <= w /\ fold_arith2 OMod a b = FVal v /\ rt_op2 w OMod (wrap w a) (wrap w b) <> RVal (wrap w v).
Proof. exact Fold.fold_mod_refuted. Qed.
Print Assumptions C14_fold_mod_refuted.

Theorem C14_fold_cmp_refuted : exists w c a b r,
  1 <= w /\ In c compare6 /\ fold_bool2 c a b = FVal r /\
  rt_op2 w c (wrap w a) (wrap w b) <> RVal (b2z r).
Proof. exact Fold.fold_cmp_refuted. Qed.
Print Assumptions C14_fold_cmp_refuted.

Theorem C14_fold_int_to_bool_refuted : exists w a,
  1 <= w /\ rt_int_to_bool (wrap w a) <> fold_int_to_bool a.
Proof. exact Fold.fold_int_to_bool_refuted. Qed.
Print Assumptions C14_fold_int_to_bool_refuted.

Theorem C14_fold_misses_fault : exists w a b v,
  1 <= w /\ fold_arith2 ODiv a b = FVal v /\ rt_op2 w ODiv (wrap w a) (wrap w b) = RFault.
Proof. exact Fold.fold_misses_fault. Qed.
Print Assumptions C14_fold_misses_fault.

(* The folded byte cast keeps the low byte: it agrees with the run-time cast for every value and word size. *)
Theorem C14_fold_byte_cast_agrees : forall w a, 1 <= w ->
  rt_int_to_byte (wrap w a) = fold_int_to_byte a.
Proof. exact Fold.fold_byte_cast_agrees. Qed.
Print Assumptions C14_fold_byte_cast_agrees.

Theorem C14_full_statement_refuted : ~ C14_full_statement.
Proof. exact Fold.C14_full_statement_refuted. Qed.
Print Assumptions C14_full_statement_refuted.
