(* C04 - checked builds are memory safe: property theorems only (machine/arith part; the
   Tracker part is in C04_tracker.v).

   Full statement (NOT proved): on the instrumented machine every committed and speculative
   access of every checked build is entitled (frame traffic in [ap, fp), element accesses inside a
   live array or global, registers/try context/other frames never overwritten, pc inside code),
   and insufficient stack ends in stack_overflow.  That needs the whole-generator simulation.
   C04_partial = C04_tracker.v + the theorems below. *)
From Coq Require Import ZArith List Bool.
From HidV Require Import Machine Halts VM WordLemmas MemLemmas GenLayout GenStdlib OpTables StdlibBase StdlibInt DecimalSpec.
Import ListNotations.
Open Scope Z_scope.

(* a machine fault (access outside a section, pc outside the code, division by zero) is never
   confused with halting, and the VM reports it with its committed trace *)
Theorem C04_fault_is_not_halt : forall act s, act s = AFault -> ~ Halts act s.
Proof. exact halts_fault_inv. Qed.
Theorem C04_vm_reports_faults : forall w code cmem mon watch fuel s evs s' sp,
  run w code cmem mon watch fuel s = OFault evs s' sp ->
  ~ Halts (act w code cmem) s /\ csteps (act w code cmem) s evs s' /\ act w code cmem s' = AFault.
Proof. exact vm_fault_never_halts. Qed.
Print Assumptions C04_vm_reports_faults.

(* index guard: `hltu i, len` accepts exactly the indices 0 <= i < len (signed reading) *)
Theorem C04_index_check_exact : forall w, 1 <= w -> forall i len, inrange w i -> 0 <= len < Machine.W w / 2 ->
  cond_holds w Cltu i len = (0 <=? sgn w i) && (sgn w i <? len).
Proof. exact index_check_exact. Qed.
Print Assumptions C04_index_check_exact.

(* write(int): footprint of the digit buffer on the regenerated stdlib, and the refutation of
   "library routines only use caller-pushed slots" (known finding F3, see known_findings.txt) *)
Theorem C04_write_int_writes_below_frame_refuted : forall w code cmem B, 2 <= w -> lib_at w code B -> lib_range w B ->
  exists sv, - (Machine.W w / 2) <= sv < Machine.W w / 2 /\
  forall m F, frame_ok w m F w -> Machine.sgn w (Machine.lw w m (F - 2 * w)) = sv -> write_int_room w F sv ->
  exists m' x, Halts.runs (Machine.act w code cmem) (mk (B + off_write_int) m) (map EOut (decimal sv)) (mk (Machine.lw w m (F - w)) m') /\
    0 <= x < F - 2 * w /\ write_int_footprint w F sv x /\ 48 <= getb m' x <= 57.
Proof. exact write_int_writes_below_frame. Qed.
Print Assumptions C04_write_int_writes_below_frame_refuted.
