(* C18 (part) -- `--lint` (option unreachable_error) either rejects a program or leaves the checked
   tree, hence the generated code, unchanged.  ONLY restatements + Print Assumptions.
   `elab_func ue ...` is the model of FuncDeclaration.evaluate with the option set to `ue`
   (coq/HiD/Exit.v, built from the regenerated Gen/GenExit.v). *)
From Coq Require Import Bool List.
From HidV Require Import GenExit Exit.
Import ListNotations.

Theorem lint_only_rejects : forall d ret body ss m,
  elab_func true d ret body = Accepted ss m -> elab_func false d ret body = Accepted ss m.
Proof. exact Exit.lint_only_rejects. Qed.
Print Assumptions lint_only_rejects.

Example lint_accepts_sat : exists d ret body ss m, elab_func true d ret body = Accepted ss m.
Proof. exists false, RetValue, max_body, max_body, RETURN. exact Exit.max_accepted. Qed.

Theorem lint_rejects_only_unreachable : forall d ret body v,
  elab_func false d ret body = v ->
  elab_func true d ret body = v \/ elab_func true d ret body = Rejected ErrUnreachable.
Proof. exact Exit.lint_rejects_only_unreachable. Qed.
Print Assumptions lint_rejects_only_unreachable.

(* the second alternative does occur: empty f() { return; x = 1; } *)
Example lint_rejects_sat : elab_func true false RetEmpty (sq [ret_e; plain]) = Rejected ErrUnreachable.
Proof. exact Exit.drop1_unreachable_option. Qed.

Theorem diags_lint : forall ret b,
  diags false ret b = filter not_unreachable (diags true ret b).
Proof. exact (fun ret => proj1 (Exit.diags_lint_mutual ret)). Qed.
Print Assumptions diags_lint.

Theorem analyse_independent_of_lint : forall ue d ret body ss m,
  elab_func ue d ret body = Accepted ss m ->
  exists ss0 m0, analyse (BCode body) = (BCode ss0, m0) /\
    ((ss = ss0 /\ m = m0) \/
     (ss = app_stmts ss0 (SAtom (AReturn false false) SNil) /\ m = func_fixup_modes m0)).
Proof. exact Exit.analyse_independent_of_lint. Qed.
Print Assumptions analyse_independent_of_lint.
