(* Component `lowerstmt`, whole programs (DESIGN `C01_fragment_full` for the fragment): functions,
   calls with the call protocol, recursion, `return e;`, the entry stack guards, the image hidc lays
   out, the return of the entry point into all_is_win.  Property theorems only.

   Model:  Codegen/LowerStmtModel.v
             lower_call / lower_return    eval_func_call for a function of the program; ReturnStatement
             lower_fun                    gen_func: label func_<name>_0, entry stack guard
                                          (`hgeu [r1], fun_need`), body
             program_order / lower_funs   label_for_func / make_funcs: functions are generated when
                                          first referenced, in FIFO order; label counters run on
             lower_program, state_section gen_lines: the code section up to the runtime library; the
                                          state section (ap, fp, r0..r2, stack, entry arguments,
                                          `.word all_is_win`)
           Tied TEXTUALLY to the compiler by tools/corr_lowerstmt.py: the whole output from
           `%section state` to the start of the runtime library, for random multi-function programs.
   Fragment: functions `int|empty f(int..)`; bodies in F_stmt (Props/C01_lowerstmt.v); calls as
           statements `f(..);`, initialisers `int x = f(..);` and right-hand sides `x = f(..);` with
           arguments from the int-operand fragment; division at the root of an initialiser / right-hand
           side.  (Calls and divisions nested inside expressions are outside the fragment.)
           GLOBALS: int and bool globals with literal initialisers (state-section words / bytes after
           stack_end, in the order of first reference: globals_order / glob_addr / state_section_g),
           read in any expression of any function (`OGlob g`, `BVar (BGlobal h)`), assigned by
           `g = e;` (any int operand, also `-e`), `g = a / b;`, `g op= e;`, `g = f(..);`, `h = e;`;
           `write(g is byte)`; a local may shadow a global by name (a scoping matter of the front
           end: the model's indices are resolved).  A callee sees and may change the globals: callf
           threads the pair (int globals, bool globals) and CRet returns it.
           BYTE READS: the int operand `OByte v` reads a byte of the frame zero-extended (lbso):
           `(x is byte) is int` for an int local x (YLow: x mod 256, the low byte of its slot) and
           `(q is byte) is int` for a byte-sized local (YSlot; bool locals so far), anywhere an int
           operand may stand, including the push contexts (declaration initialiser, call / write
           argument: push_expr's ByteToInt case).  `OTrunc o` = `(o is byte) is int` for o an int
           global or a computed value (o mod 256: the operand's bubble under byte access: StateByte
           `lbs [r], var_g` / `lbs [r], r`, IndirectByte on a pushed word), anywhere except at the
           root of a push context (not_trunc).  `OLit true c`: a char literal used as an int
           (0 <= c <= 255), the value of `OLit false c`, spelled 'c' in the output.
   Source semantics (Codegen/LowerStmtProofs.v 1): callf d f args evs res -- function f called
           with d bytes of stack below its frame pointer emits evs and returns (CRet v) or faults
           (CFault FDivZero | FStackOverflow).  STACK ACCOUNTING: a function faults with
           stack_overflow on entry unless d >= fun_need (its frame size = the constant of its entry
           guard); a callee gets d - frame_top (frame_top = return address + locals in scope).
           Recursion is a finite derivation.
   The theorem: for every program passing the executable static check prog_ok_b (every generated
           function exists, is well scoped, calls generated functions with the right number of
           arguments, has a guard constant that is a word; the entry point
           first), every word size, stack size and argument values, on ANY memory image with the
           words hidc's state section prescribes (init_ok: ap, fp, stack, arguments, all_is_win, and
           the globals at their addresses ga / gb with their initial values ginit / binit): the machine started at address 0 emits
           exactly the source's bytes, then the flags of the way it ended (win | division_by_zero,
           error | stack_overflow, error), then sleeps forever.  In particular it never halts
           (C03 for these programs, with the trace). *)
From Coq Require Import ZArith List Bool Lia.
From HidV Require Import Machine Halts VM Driver WordLemmas MemLemmas GenTables GenStdlib OpTables Idioms
                         StdlibBase StdlibStubs LowerBoolModel LowerBoolProofs LowerStmtModel LowerStmtSem LowerStmtProofs.
Import ListNotations.
Open Scope Z_scope.

(* THE PROGRAM THEOREM *)
Theorem C01_program_lowering_correct w (Hw : 2 <= w) funs stack args dft ga ginit gb binit cmem evs res m0 :
  let C := lower_program w funs in
  let lib := size C in
  let code := code_of (resolve (hidc_regs_gb w dft lib ga gb) (fun _ => 0) 0 C ++ stdlib_code w lib) in
  let n := Z.of_nat (length args) in
  prog_ok_b w (length ginit) (length binit) funs (length args) = true ->
  0 <= stack -> lib + stdlib_len <= Machine.W w -> (stack + n + 6) * w < Machine.W w / 2 ->
  init_ok w stack args (lib + off_all_is_win) ga ginit gb binit m0 ->
  callf w funs ((stack + n + 1) * w) 0 args (ginit, binit) evs res ->
  exists m', HidV.Sphinx.Halts.runs (Machine.act w code cmem) (mk 0 m0) (map EOut evs ++ result_flags res) (tnt lib m') /\
             ~ HidV.Sphinx.Halts.Halts (Machine.act w code cmem) (mk 0 m0) /\
             forall k, HidV.Sphinx.Halts.csteps (Machine.act w code cmem) (mk 0 m0)
                         (map EOut evs ++ result_flags res ++ repeat sleep_ev k) (tnt lib m').
Proof. exact (@program_lowering_correct w Hw funs stack args dft ga ginit gb binit cmem evs res m0). Qed.

(* C03 for the fragment: a compiled program never halts, whatever its source run does *)
Theorem C01_program_never_halts w (Hw : 2 <= w) funs stack args dft ga ginit gb binit cmem evs res m0 :
  let C := lower_program w funs in
  let lib := size C in
  let code := code_of (resolve (hidc_regs_gb w dft lib ga gb) (fun _ => 0) 0 C ++ stdlib_code w lib) in
  let n := Z.of_nat (length args) in
  prog_ok_b w (length ginit) (length binit) funs (length args) = true ->
  0 <= stack -> lib + stdlib_len <= Machine.W w -> (stack + n + 6) * w < Machine.W w / 2 ->
  init_ok w stack args (lib + off_all_is_win) ga ginit gb binit m0 ->
  callf w funs ((stack + n + 1) * w) 0 args (ginit, binit) evs res ->
  ~ HidV.Sphinx.Halts.Halts (Machine.act w code cmem) (mk 0 m0).
Proof. exact (@program_never_halts w Hw funs stack args dft ga ginit gb binit cmem evs res m0). Qed.

(* every label of a compiled program is defined once (for every program: not part of the check) *)
Theorem C01_program_labels_defined_once w funs : NoDup (deflabels (lower_program w funs)).
Proof. exact (@program_labels_nodup w funs). Qed.

(* hidc's layout of the globals (Model glob_addr: after stack_end, in the order of first reference,
   a word per int global, a byte per bool global -- the order and sizes of state_section_g, tied
   textually) meets the separation hypotheses of init_ok (io_g / io_gb lower bounds, io_gd, io_gbd),
   for every program, when the globals 0..ng-1 / 0..nbg-1 are the ones the generated code refers to *)
Theorem C01_program_globals_layout w stack nparams funs ng nbg : 0 <= w ->
  (forall g, (g < ng)%nat -> In (GI g) (globals_order funs)) ->
  (forall h, (h < nbg)%nat -> In (GB h) (globals_order funs)) ->
  let ga := fun g => glob_addr w stack nparams funs (GI g) in
  let gb := fun h => glob_addr w stack nparams funs (GB h) in
  (forall g, (stack + Z.of_nat nparams + 6) * w <= ga g) /\ (forall h, (stack + Z.of_nat nparams + 6) * w <= gb h) /\
  (forall g g', (g < ng)%nat -> (g' < ng)%nat -> g <> g' -> ga g + w <= ga g' \/ ga g' + w <= ga g) /\
  (forall h h', (h < nbg)%nat -> (h' < nbg)%nat -> h <> h' -> gb h <> gb h') /\
  (forall g h, (g < ng)%nat -> (h < nbg)%nat -> gb h + 1 <= ga g \/ ga g + w <= gb h).
Proof. exact (@glob_addr_layout w stack nparams funs ng nbg). Qed.

(* the scoping part of the static check is sound for the relation the theorems use *)
Theorem C01_scoped_check_sound w ng nbg cfb (lib : Prop) (cf : nat -> nat -> Prop) :
  lib -> (forall f n, cfb f n = true -> cf f n) ->
  (forall s ni nb il, sscoped_b w ng nbg cfb ni nb il s = true -> sscoped w ng nbg lib cf ni nb il s) /\
  (forall ss ni nb il, ssscoped_b w ng nbg cfb ni nb il ss = true -> ssscoped w ng nbg lib cf ni nb il ss).
Proof. exact (@scoped_b_ok w ng nbg cfb lib cf). Qed.

(* satisfiability: a program with a recursive function (factorial), a call whose result is used, and a
   division that may fault
     int f1(int p0) { if (p0 < 2) { return 1; } int r = f1(p0 - 1); return r * p0; }
     empty @is_you(int a0) { int x = f1(a0); writeln(x); int q = x / (a0 - 5); writeln(q % 7); }
   it passes the check; hidc's image satisfies init_ok for every stack size and argument; the theorem
   gives its three ways to end; and the verified VM runs the resolved model output to the same traces *)
Example C01_program_check_sat : prog_ok_b 2 0 0 px_funs 1 = true.
Proof. exact px_ok. Qed.
Example C01_program_image_sat stack a0 : 0 <= stack <= 100 -> - 1000 <= a0 <= 1000 ->
  init_ok 2 stack [a0] (px_lib + off_all_is_win) (fun _ => 0) [] (fun _ => 0) [] (px_mem stack a0).
Proof. exact (px_init stack a0). Qed.
(* 40 words of stack, a0 = 4: prints "24\n4\n" (4! = 24, 24 / -1 = -24, -24 % 7 = 4), returns: flag win *)
Example C01_program_returns_sat : exists m',
  HidV.Sphinx.Halts.runs (Machine.act 2 (code_of px_prog) (zmem 0)) (mk 0 (px_mem 40 4)) (map EOut px_out4 ++ [EFlag 0]) (tnt px_lib m') /\
  ~ HidV.Sphinx.Halts.Halts (Machine.act 2 (code_of px_prog) (zmem 0)) (mk 0 (px_mem 40 4)).
Proof. exact program_returns_ex. Qed.
(* a0 = 5: prints "120\n", then 120 / 0: flags division_by_zero, error *)
Example C01_program_divides_by_zero_sat : exists m',
  HidV.Sphinx.Halts.runs (Machine.act 2 (code_of px_prog) (zmem 0)) (mk 0 (px_mem 40 5)) (map EOut px_out5 ++ [EFlag 3; EFlag 1]) (tnt px_lib m') /\
  ~ HidV.Sphinx.Halts.Halts (Machine.act 2 (code_of px_prog) (zmem 0)) (mk 0 (px_mem 40 5)).
Proof. exact program_divides_by_zero_ex. Qed.
(* 8 words of stack: the recursion does not fit: flags stack_overflow, error, nothing printed *)
Example C01_program_overflows_sat : exists m',
  HidV.Sphinx.Halts.runs (Machine.act 2 (code_of px_prog) (zmem 0)) (mk 0 (px_mem 8 4)) [EFlag 2; EFlag 1] (tnt px_lib m') /\
  ~ HidV.Sphinx.Halts.Halts (Machine.act 2 (code_of px_prog) (zmem 0)) (mk 0 (px_mem 8 4)).
Proof. exact program_overflows_ex. Qed.
Example C01_program_vm_run_sat :
  match run_program 2 (px_bytes 40 4) [] px_prog [] mon_none 4000 with
  | OAbsorbed evs _ _ => firstn 6 evs = map EOut px_out4 ++ [EFlag 0]
  | _ => False
  end /\
  match run_program 2 (px_bytes 40 5) [] px_prog [] mon_none 4000 with
  | OAbsorbed evs _ _ => firstn 6 evs = map EOut px_out5 ++ [EFlag 3; EFlag 1]
  | _ => False
  end /\
  match run_program 2 (px_bytes 8 4) [] px_prog [] mon_none 4000 with
  | OAbsorbed evs _ _ => firstn 2 evs = [EFlag 2; EFlag 1]
  | _ => False
  end.
Proof. exact program_vm_run_ex. Qed.

(* satisfiability with globals: an int global and a bool global, read and assigned (also `g /= e`,
   `-g`, `write(g is byte)`)
     int g0 = 5;  bool h0 = false;
     empty @is_you(int a0) { g0 = g0 + a0; h0 = g0 > 6; if (h0) { write('Y'); } else { write('N'); }
                             write(g0 is byte); writeln(g0); g0 /= a0 - 4; writeln(-g0); }
   the addresses are the model's layout (glob_addr: var_g0_0 at stack_end, var_h0_0 after it); the
   image satisfies init_ok; the theorem gives both ways to end; the verified VM agrees *)
Example C01_program_globals_check_sat : prog_ok_b 2 1 1 gx_funs 1 = true.
Proof. exact gx_ok. Qed.
Example C01_program_globals_layout_sat :
  glob_addr 2 40 1 gx_funs (GI 0) = 94 /\ glob_addr 2 40 1 gx_funs (GB 0) = 96.
Proof. exact gx_layout. Qed.
Example C01_program_globals_image_sat a0 : - 1000 <= a0 <= 1000 ->
  init_ok 2 40 [a0] (gx_lib + off_all_is_win) (fun g => glob_addr 2 40 1 gx_funs (GI g)) [5]
          (fun h => glob_addr 2 40 1 gx_funs (GB h)) [0] (gx_mem a0).
Proof. exact (gx_init a0). Qed.
(* a0 = 2: g0 = 7, h0 = true: prints "Y", the byte 7, "7\n", then g0 = 7 / -2 = -4: "4\n"; flag win *)
Example C01_program_globals_returns_sat : exists m',
  HidV.Sphinx.Halts.runs (Machine.act 2 (code_of gx_prog) (zmem 0)) (mk 0 (gx_mem 2)) (map EOut gx_out2 ++ [EFlag 0]) (tnt gx_lib m') /\
  ~ HidV.Sphinx.Halts.Halts (Machine.act 2 (code_of gx_prog) (zmem 0)) (mk 0 (gx_mem 2)).
Proof. exact program_globals_ex. Qed.
(* a0 = 4: g0 = 9, prints "Y", the byte 9, "9\n", then 9 / 0: flags division_by_zero, error *)
Example C01_program_globals_faults_sat : exists m',
  HidV.Sphinx.Halts.runs (Machine.act 2 (code_of gx_prog) (zmem 0)) (mk 0 (gx_mem 4)) (map EOut gx_out4 ++ [EFlag 3; EFlag 1]) (tnt gx_lib m') /\
  ~ HidV.Sphinx.Halts.Halts (Machine.act 2 (code_of gx_prog) (zmem 0)) (mk 0 (gx_mem 4)).
Proof. exact program_globals_fault_ex. Qed.
Example C01_program_globals_vm_run_sat :
  match run_program 2 (gx_bytes 2) [] gx_prog [] mon_none 4000 with
  | OAbsorbed evs _ _ => firstn 7 evs = map EOut gx_out2 ++ [EFlag 0]
  | _ => False
  end /\
  match run_program 2 (gx_bytes 4) [] gx_prog [] mon_none 4000 with
  | OAbsorbed evs _ _ => firstn 6 evs = map EOut gx_out4 ++ [EFlag 3; EFlag 1]
  | _ => False
  end.
Proof. exact program_globals_vm_run_ex. Qed.

(* satisfiability with byte reads (C01 byte truncation / zero-extension): `(x is byte) is int` is x mod 256
   (the low byte of the int slot, read with lbso), `(q is byte) is int` reads a byte-sized local
   zero-extended; in a declaration (push_expr's ByteToInt case: clear a word, store the byte), in
   arithmetic, under write(.. is byte)
     empty @is_you(int a0) { int y = (a0 is byte) is int; bool q = y > 40; writeln(y + ((q is byte) is int));
                             int z = (q is byte) is int; write(((a0 is byte) is int) is byte);
                             writeln(z - ((y is byte) is int)); }
   a0 = 300: "45\n", the byte 44, "-43\n";  a0 = -1: "256\n", the byte 255, "-254\n" (as the real
   compiler's output does on the VM) *)
Example C01_program_byte_reads_check_sat : prog_ok_b 2 0 0 bx_funs 1 = true.
Proof. exact bx_ok. Qed.
Example C01_program_byte_reads_sat :
  (exists m', HidV.Sphinx.Halts.runs (Machine.act 2 (code_of bx_prog) (zmem 0)) (mk 0 (bx_mem 300)) (map EOut bx_out300 ++ [EFlag 0]) (tnt bx_lib m')) /\
  (exists m', HidV.Sphinx.Halts.runs (Machine.act 2 (code_of bx_prog) (zmem 0)) (mk 0 (bx_mem (-1))) (map EOut bx_outm1 ++ [EFlag 0]) (tnt bx_lib m')).
Proof. exact program_byte_reads_ex. Qed.
Example C01_program_byte_reads_vm_run_sat :
  match run_program 2 (bx_bytes 300) [] bx_prog [] mon_none 4000 with
  | OAbsorbed evs _ _ => firstn 9 evs = map EOut bx_out300 ++ [EFlag 0]
  | _ => False
  end /\
  match run_program 2 (bx_bytes (-1)) [] bx_prog [] mon_none 4000 with
  | OAbsorbed evs _ _ => firstn 11 evs = map EOut bx_outm1 ++ [EFlag 0]
  | _ => False
  end.
Proof. exact program_byte_reads_vm_run_ex. Qed.

(* satisfiability with byte casts of a global and of computed values (`(e is byte) is int` = e mod 256:
   StateByte `lbs`, `lbs [r1], r1`, into a global `lbs [var_g], var_g`) and char literals used as ints
     int g0 = 5;
     empty @is_you(int a0) { writeln(((g0 is byte) is int) + 'a'); g0 = ((a0 + g0) is byte) is int; writeln(g0 - 'A');
                             int y = 'z' - (((a0 * 2) is byte) is int); write((y + 'a') is byte); }
   a0 = 300: "102\n", "-16\n", the byte 131 (as the real compiler's output does on the VM) *)
Example C01_program_byte_casts_check_sat : prog_ok_b 2 1 0 tx_funs 1 = true.
Proof. exact tx_ok. Qed.
Example C01_program_byte_casts_sat : exists m',
  HidV.Sphinx.Halts.runs (Machine.act 2 (code_of tx_prog) (zmem 0)) (mk 0 (tx_mem 300)) (map EOut tx_out300 ++ [EFlag 0]) (tnt tx_lib m').
Proof. exact program_byte_casts_ex. Qed.
Example C01_program_byte_casts_vm_run_sat :
  match run_program 2 (tx_bytes 300) [] tx_prog [] mon_none 4000 with
  | OAbsorbed evs _ _ => firstn 10 evs = map EOut tx_out300 ++ [EFlag 0]
  | _ => False
  end.
Proof. exact program_byte_casts_vm_run_ex. Qed.

Print Assumptions C01_program_lowering_correct.
Print Assumptions C01_program_never_halts.
Print Assumptions C01_program_labels_defined_once.
Print Assumptions C01_scoped_check_sound.
Print Assumptions C01_program_globals_layout.
Print Assumptions C01_program_check_sat.
Print Assumptions C01_program_image_sat.
Print Assumptions C01_program_returns_sat.
Print Assumptions C01_program_divides_by_zero_sat.
Print Assumptions C01_program_overflows_sat.
Print Assumptions C01_program_vm_run_sat.
Print Assumptions C01_program_globals_check_sat.
Print Assumptions C01_program_globals_layout_sat.
Print Assumptions C01_program_globals_image_sat.
Print Assumptions C01_program_globals_returns_sat.
Print Assumptions C01_program_globals_faults_sat.
Print Assumptions C01_program_globals_vm_run_sat.
Print Assumptions C01_program_byte_reads_check_sat.
Print Assumptions C01_program_byte_reads_sat.
Print Assumptions C01_program_byte_reads_vm_run_sat.
Print Assumptions C01_program_byte_casts_check_sat.
Print Assumptions C01_program_byte_casts_sat.
Print Assumptions C01_program_byte_casts_vm_run_sat.
