(* Component `lowerstmt`, whole programs (DESIGN `C01_fragment_full` for the fragment): functions,
   calls with the call protocol, recursion, `return e;`, the entry stack guards, the image hidc lays
   out, the return of the entry point into all_is_win.  Property theorems only.

   Model:  Codegen/LowerStmtModel.v
             lower_call / lower_return    eval_func_call for a function of the program; ReturnStatement
             lower_fun                    gen_func: label func_<name>_0, entry stack guard
                                          (`hgeu [r1], fun_need`), body
             program_order / lower_funs   label_for_func / make_funcs: functions are generated when
                                          first referenced, in FIFO order; label counters run on
             lower_program, state_section gen_lines: the code section up to the runtime library; the
                                          state section (ap, fp, r0..r2, stack, entry arguments,
                                          `.word all_is_win`)
           Tied TEXTUALLY to the compiler by tools/corr_lowerstmt.py: the whole output from
           `%section state` to the start of the runtime library, for random multi-function programs.
   Fragment: functions `int|empty f(int..)`; bodies in F_stmt (Props/C01_lowerstmt.v); calls as
           statements `f(..);`, initialisers `int x = f(..);` and right-hand sides `x = f(..);` with
           arguments from the int-operand fragment; division at the root of an initialiser / right-hand
           side.  (Calls and divisions nested inside expressions are outside the fragment.)
   Source semantics (Codegen/LowerStmtProofs.v 1): callf d f args evs res -- function f called
           with d bytes of stack below its frame pointer emits evs and returns (CRet v) or faults
           (CFault FDivZero | FStackOverflow).  STACK ACCOUNTING: a function faults with
           stack_overflow on entry unless d >= fun_need (its frame size = the constant of its entry
           guard); a callee gets d - frame_top (frame_top = return address + locals in scope).
           Recursion is a finite derivation.
   The theorem: for every program passing the executable static check prog_ok_b (every generated
           function exists, is well scoped, calls generated functions with the right number of
           arguments, has a guard constant that is a word; the entry point
           first), every word size, stack size and argument values, on ANY memory image with the
           words hidc's state section prescribes (init_ok): the machine started at address 0 emits
           exactly the source's bytes, then the flags of the way it ended (win | division_by_zero,
           error | stack_overflow, error), then sleeps forever.  In particular it never halts
           (C03 for these programs, with the trace). *)
From Coq Require Import ZArith List Bool Lia.
From HidV Require Import Machine Halts VM Driver WordLemmas MemLemmas GenTables GenStdlib OpTables Idioms
                         StdlibBase StdlibStubs LowerBoolModel LowerBoolProofs LowerStmtModel LowerStmtSem LowerStmtProofs.
Import ListNotations.
Open Scope Z_scope.

(* THE PROGRAM THEOREM *)
Theorem C01_program_lowering_correct w (Hw : 2 <= w) funs stack args dft ga ginit cmem evs res m0 :
  let C := lower_program w funs in
  let lib := size C in
  let code := code_of (resolve (hidc_regs_g w dft lib ga) (fun _ => 0) 0 C ++ stdlib_code w lib) in
  let n := Z.of_nat (length args) in
  prog_ok_b w (length ginit) funs (length args) = true ->
  0 <= stack -> lib + stdlib_len <= Machine.W w -> (stack + n + 6) * w < Machine.W w / 2 ->
  init_ok w stack args (lib + off_all_is_win) ga ginit m0 ->
  callf w funs ((stack + n + 1) * w) 0 args ginit evs res ->
  exists m', HidV.Sphinx.Halts.runs (Machine.act w code cmem) (mk 0 m0) (map EOut evs ++ result_flags res) (tnt lib m') /\
             ~ HidV.Sphinx.Halts.Halts (Machine.act w code cmem) (mk 0 m0) /\
             forall k, HidV.Sphinx.Halts.csteps (Machine.act w code cmem) (mk 0 m0)
                         (map EOut evs ++ result_flags res ++ repeat sleep_ev k) (tnt lib m').
Proof. exact (@program_lowering_correct w Hw funs stack args dft ga ginit cmem evs res m0). Qed.

(* C03 for the fragment: a compiled program never halts, whatever its source run does *)
Theorem C01_program_never_halts w (Hw : 2 <= w) funs stack args dft ga ginit cmem evs res m0 :
  let C := lower_program w funs in
  let lib := size C in
  let code := code_of (resolve (hidc_regs_g w dft lib ga) (fun _ => 0) 0 C ++ stdlib_code w lib) in
  let n := Z.of_nat (length args) in
  prog_ok_b w (length ginit) funs (length args) = true ->
  0 <= stack -> lib + stdlib_len <= Machine.W w -> (stack + n + 6) * w < Machine.W w / 2 ->
  init_ok w stack args (lib + off_all_is_win) ga ginit m0 ->
  callf w funs ((stack + n + 1) * w) 0 args ginit evs res ->
  ~ HidV.Sphinx.Halts.Halts (Machine.act w code cmem) (mk 0 m0).
Proof. exact (@program_never_halts w Hw funs stack args dft ga ginit cmem evs res m0). Qed.

(* every label of a compiled program is defined once (for every program: not part of the check) *)
Theorem C01_program_labels_defined_once w funs : NoDup (deflabels (lower_program w funs)).
Proof. exact (@program_labels_nodup w funs). Qed.

(* the scoping part of the static check is sound for the relation the theorems use *)
Theorem C01_scoped_check_sound w ng cfb (lib : Prop) (cf : nat -> nat -> Prop) :
  lib -> (forall f n, cfb f n = true -> cf f n) ->
  (forall s ni nb il, sscoped_b w ng cfb ni nb il s = true -> sscoped w ng lib cf ni nb il s) /\
  (forall ss ni nb il, ssscoped_b w ng cfb ni nb il ss = true -> ssscoped w ng lib cf ni nb il ss).
Proof. exact (@scoped_b_ok w ng cfb lib cf). Qed.

(* satisfiability: a program with a recursive function (factorial), a call whose result is used, and a
   division that may fault
     int f1(int p0) { if (p0 < 2) { return 1; } int r = f1(p0 - 1); return r * p0; }
     empty @is_you(int a0) { int x = f1(a0); writeln(x); int q = x / (a0 - 5); writeln(q % 7); }
   it passes the check; hidc's image satisfies init_ok for every stack size and argument; the theorem
   gives its three ways to end; and the verified VM runs the resolved model output to the same traces *)
Example C01_program_check_sat : prog_ok_b 2 0 px_funs 1 = true.
Proof. exact px_ok. Qed.
Example C01_program_image_sat stack a0 : 0 <= stack <= 100 -> - 1000 <= a0 <= 1000 ->
  init_ok 2 stack [a0] (px_lib + off_all_is_win) (fun _ => 0) [] (px_mem stack a0).
Proof. exact (px_init stack a0). Qed.
(* 40 words of stack, a0 = 4: prints "24\n4\n" (4! = 24, 24 / -1 = -24, -24 % 7 = 4), returns: flag win *)
Example C01_program_returns_sat : exists m',
  HidV.Sphinx.Halts.runs (Machine.act 2 (code_of px_prog) (zmem 0)) (mk 0 (px_mem 40 4)) (map EOut px_out4 ++ [EFlag 0]) (tnt px_lib m') /\
  ~ HidV.Sphinx.Halts.Halts (Machine.act 2 (code_of px_prog) (zmem 0)) (mk 0 (px_mem 40 4)).
Proof. exact program_returns_ex. Qed.
(* a0 = 5: prints "120\n", then 120 / 0: flags division_by_zero, error *)
Example C01_program_divides_by_zero_sat : exists m',
  HidV.Sphinx.Halts.runs (Machine.act 2 (code_of px_prog) (zmem 0)) (mk 0 (px_mem 40 5)) (map EOut px_out5 ++ [EFlag 3; EFlag 1]) (tnt px_lib m') /\
  ~ HidV.Sphinx.Halts.Halts (Machine.act 2 (code_of px_prog) (zmem 0)) (mk 0 (px_mem 40 5)).
Proof. exact program_divides_by_zero_ex. Qed.
(* 8 words of stack: the recursion does not fit: flags stack_overflow, error, nothing printed *)
Example C01_program_overflows_sat : exists m',
  HidV.Sphinx.Halts.runs (Machine.act 2 (code_of px_prog) (zmem 0)) (mk 0 (px_mem 8 4)) [EFlag 2; EFlag 1] (tnt px_lib m') /\
  ~ HidV.Sphinx.Halts.Halts (Machine.act 2 (code_of px_prog) (zmem 0)) (mk 0 (px_mem 8 4)).
Proof. exact program_overflows_ex. Qed.
Example C01_program_vm_run_sat :
  match run_program 2 (px_bytes 40 4) [] px_prog [] mon_none 4000 with
  | OAbsorbed evs _ _ => firstn 6 evs = map EOut px_out4 ++ [EFlag 0]
  | _ => False
  end /\
  match run_program 2 (px_bytes 40 5) [] px_prog [] mon_none 4000 with
  | OAbsorbed evs _ _ => firstn 6 evs = map EOut px_out5 ++ [EFlag 3; EFlag 1]
  | _ => False
  end /\
  match run_program 2 (px_bytes 8 4) [] px_prog [] mon_none 4000 with
  | OAbsorbed evs _ _ => firstn 2 evs = [EFlag 2; EFlag 1]
  | _ => False
  end.
Proof. exact program_vm_run_ex. Qed.

Print Assumptions C01_program_lowering_correct.
Print Assumptions C01_program_never_halts.
Print Assumptions C01_program_labels_defined_once.
Print Assumptions C01_scoped_check_sound.
Print Assumptions C01_program_check_sat.
Print Assumptions C01_program_image_sat.
Print Assumptions C01_program_returns_sat.
Print Assumptions C01_program_divides_by_zero_sat.
Print Assumptions C01_program_overflows_sat.
Print Assumptions C01_program_vm_run_sat.
