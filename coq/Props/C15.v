(* C15: property theorems (machine-level part).  Each name below is an alias of a theorem restated in full
   in Props/Idioms_props.v (proved in Sphinx/Idioms.v, TimeTravel.v, Guards.v for arbitrary surrounding code,
   every word size w >= 2, all operand values); Print Assumptions is re-run here for each.
   FULL statement (not proved): on fault-free runs checked and unchecked builds have the same committed trace.  C15_partial = guard_is_observer: each guard idiom whose condition passes ends at its continuation with memory unchanged (the entry / VLA-space guards compute into r1 only on the speculative fall-through: on the passing path memory is completely unchanged) and Halts-equivalent. *)
From Coq Require Import ZArith List Bool.
From HidV Require Import Machine Halts VM Idioms_props.
Definition C15_guard_idiom := @P_guard_idiom.
Print Assumptions C15_guard_idiom.
Definition C15_entry_guard_idiom := @P_entry_guard_idiom.
Print Assumptions C15_entry_guard_idiom.
Definition C15_vla_space_guard_idiom := @P_vla_space_guard_idiom.
Print Assumptions C15_vla_space_guard_idiom.
Definition C15_div_guard_idiom := @P_div_guard_idiom.
Print Assumptions C15_div_guard_idiom.
Definition C15_index_guard_idiom := @P_index_guard_idiom.
Print Assumptions C15_index_guard_idiom.
Definition C15_vla_length_guard_idiom := @P_vla_length_guard_idiom.
Print Assumptions C15_vla_length_guard_idiom.
Definition C15_return_protection_idiom := @P_return_protection_idiom.
Print Assumptions C15_return_protection_idiom.
