(* C08 (every scope exit releases exactly what the scope allocated; a call leaves its caller's
   frame and arrays untouched) and C01 item 4 (call protocol): machine-level property theorems only
   (`Theorem ... exact ...` + `Print Assumptions`).  Proofs and satisfiability `Example`s:
   Sphinx/CallProtocol.v.  Every statement is restated in full.  Abstract code, every w >= 2. *)
From Coq Require Import ZArith List Bool Lia.
From HidV Require Import Machine Halts WordLemmas MemLemmas Idioms TimeTravel GenTables OpTables Driver Guards Patterns CallProtocol.
Import ListNotations.
Open Scope Z_scope.

Section P.
Variable w : Z.
Hypothesis Hw : 2 <= w.
Variable ap : Z.
Variable code : Z -> option instr.
Variable cmem : mem.
Notation W := (Machine.W w).
Notation wrap := (Machine.wrap w).
Notation sgn := (Machine.sgn w).
Notation lw := (Machine.lw w).
Notation sw := (Machine.sw w).
Notation inrange := (WordLemmas.inrange w).
Notation act := (Machine.act w code cmem).
Notation Halts := (HidV.Sphinx.Halts.Halts act).
Notation runs := (HidV.Sphinx.Halts.runs act).
Notation cstep := (HidV.Sphinx.Halts.cstep act).
Notation oval := (Idioms.oval w cmem).
Notation keeps := (CallProtocol.keeps w).
Notation alloc_step := (CallProtocol.alloc_step w ap).
Notation scope_allocs := (CallProtocol.scope_allocs w ap).
Notation stm := (CallProtocol.stm w).
Notation wdsz := (CallProtocol.wdsz w).

Theorem P_wrap_add_l x y :
  wrap (wrap x + y) = wrap (x + y).
Proof. exact (@wrap_add_l w x y). Qed.

Theorem P_fp_rebase_arith x noff off :
  wrap noff = wrap (- off) ->
  wrap (wrap (x + wrap noff) + wrap off) = wrap x.
Proof. exact (@fp_rebase_arith w x noff off). Qed.

Theorem P_frame_addresses fp0 off :
  0 <= off -> off + w <= fp0 -> fp0 < W / 2 ->
  wrap (fp0 + wrap (- off)) = fp0 - off /\
  sgn fp0 + sgn (wrap (- (off + w))) = fp0 - off - w /\
  sgn (fp0 - off) + sgn (wrap (- w)) = fp0 - off - w.
Proof. exact (@frame_addresses w Hw fp0 off). Qed.

Theorem P_getb_sw_other m a v x :
  0 <= a -> 0 <= x -> (x < a \/ a + w <= x) -> getb (sw m a v) x = getb m x.
Proof. exact (@getb_sw_other w Hw m a v x). Qed.

Theorem P_lw_agree m m' a :
  (forall x, a <= x < a + w -> getb m' x = getb m x) -> lw m' a = lw m a.
Proof. exact (@lw_agree w Hw m m' a). Qed.

Theorem P_scope_allocs_spec L :
  forall A m m', scope_allocs L A m m' -> inrange (lw m ap) ->
  lw m' ap = wrap (lw m ap + sizes_sum L) /\ keeps A m m' /\
  (forall slot s l, L = (slot, s) :: l -> lw m' slot = lw m ap).
Proof. exact (@scope_allocs_spec w Hw ap L). Qed.

Theorem P_static_pop_arith a0 S D :
  inrange a0 -> wrap D = wrap S -> wrap (wrap (a0 + S) - wrap D) = a0.
Proof. exact (@static_pop_arith w a0 S D). Qed.

Theorem P_allocs_no_wrap L A m0 mf fpv :
  scope_allocs L A m0 mf -> inrange (lw m0 ap) ->
  0 <= sizes_sum L -> lw m0 ap + sizes_sum L <= fpv -> fpv < W / 2 ->
  lw mf ap = lw m0 ap + sizes_sum L.
Proof. exact (@allocs_no_wrap w Hw ap L A m0 mf fpv). Qed.

Theorem P_fp_rebase_identity p q m fp noff off m2 :
  code p = Some (IArith Aadd (St fp) (St fp) (Imm noff)) ->
  code q = Some (IArith Aadd (St fp) (St fp) (Imm off)) ->
  wrap noff = wrap (- off) -> 0 <= fp -> inb m fp w = true -> inrange (lw m fp) ->
  let m1 := sw m fp (lw m fp + wrap noff) in
  (* whatever happens in between keeps the fp word and the size of the state section *)
  lw m2 fp = lw m1 fp -> msize m2 = msize m1 ->
  let m3 := sw m2 fp (lw m2 fp + wrap off) in
  runs (mk p m) [] (mk (p + 1) m1) /\ runs (mk q m2) [] (mk (q + 1) m3) /\
  lw m3 fp = lw m fp /\
  (forall a, 0 <= a -> (a < fp \/ fp + w <= a) -> getb m1 a = getb m a) /\
  (forall a, 0 <= a -> (a < fp \/ fp + w <= a) -> getb m3 a = getb m2 a).
Proof. exact (@fp_rebase_identity w Hw code cmem p q m fp noff off m2). Qed.

Theorem P_call_idiom p m0 fp noff off F Fv evs m2 (P : Z -> Prop) :
  code p = Some (IArith Aadd (St fp) (St fp) (Imm noff)) ->
  code (p + 1) = Some (IJ F) -> code (p + 2) = Some IHalt ->
  code (p + 3) = Some (IArith Aadd (St fp) (St fp) (Imm off)) ->
  wrap noff = wrap (- off) ->
  0 <= fp -> inb m0 fp w = true -> inrange (lw m0 fp) ->
  let fpc := wrap (lw m0 fp + wrap noff) in
  let m1 := sw m0 fp (lw m0 fp + wrap noff) in
  oval m1 F = Some Fv ->
  lw m1 (fpc - w) = p + 3 ->                                   (* the pushed return address *)
  runs (mk Fv m1) evs (mk (lw m1 (fpc - w)) m2) ->             (* callee: returns there ... *)
  msize m2 = msize m1 -> lw m2 fp = fpc ->                     (* ... with fp as at its entry *)
  (forall a, P a -> getb m2 a = getb m1 a) ->                  (* ... preserving P *)
  (forall a, P a -> 0 <= a /\ (a < fp \/ fp + w <= a)) ->
  let m3 := sw m2 fp (fpc + wrap off) in
  runs (mk p m0) evs (mk (p + 4) m3) /\
  lw m3 fp = lw m0 fp /\                                        (* fp restored *)
  (forall a, P a -> getb m3 a = getb m0 a) /\                   (* P preserved across the call *)
  (* what the callee left (its results) is readable: only the fp register differs from m2 *)
  (forall a, 0 <= a -> (a < fp \/ fp + w <= a) -> getb m3 a = getb m2 a).
Proof. exact (@call_idiom w Hw code cmem p m0 fp noff off F Fv evs m2 P). Qed.

Theorem P_call_idiom_frame p m0 fp apr noff off F Fv evs m2 ss (may_write : Z -> Prop) :
  code p = Some (IArith Aadd (St fp) (St fp) (Imm noff)) ->
  code (p + 1) = Some (IJ F) -> code (p + 2) = Some IHalt ->
  code (p + 3) = Some (IArith Aadd (St fp) (St fp) (Imm off)) ->
  wrap noff = wrap (- off) ->
  0 <= fp -> inb m0 fp w = true -> inrange (lw m0 fp) ->
  0 <= apr -> (apr + w <= fp \/ fp + w <= apr) ->
  let fpc := wrap (lw m0 fp + wrap noff) in
  let m1 := sw m0 fp (lw m0 fp + wrap noff) in
  oval m1 F = Some Fv ->
  fp + w <= ss -> ss <= fpc - w ->
  lw m1 (fpc - w) = p + 3 ->
  runs (mk Fv m1) evs (mk (lw m1 (fpc - w)) m2) ->
  msize m2 = msize m1 -> lw m2 fp = fpc -> lw m2 apr = lw m1 apr ->
  (forall a, fpc <= a -> getb m2 a = getb m1 a) ->
  (forall a, ss <= a < lw m1 apr -> ~ may_write a -> getb m2 a = getb m1 a) ->
  let m3 := sw m2 fp (fpc + wrap off) in
  runs (mk p m0) evs (mk (p + 4) m3) /\
  lw m3 fp = lw m0 fp /\ lw m3 apr = lw m0 apr /\
  (forall a, fpc <= a -> getb m3 a = getb m0 a) /\
  (forall a, ss <= a < lw m0 apr -> ~ may_write a -> getb m3 a = getb m0 a) /\
  lw m3 (fpc - w) = lw m2 (fpc - w).
Proof. exact (@call_idiom_frame w Hw code cmem p m0 fp apr noff off F Fv evs m2 ss may_write). Qed.

Theorem P_return_idiom_void q m fp r1 kra :
  code q = Some (ILoadO WWord SState (St r1) (St fp) (Imm kra)) ->
  code (q + 1) = Some (IJ (St r1)) -> code (q + 2) = Some IHalt ->
  let sra := sgn (lw m fp) + sgn (wrap kra) in
  inb m fp w = true -> inb m r1 w = true -> inb m sra w = true -> 0 <= r1 ->
  let m1 := sw m r1 (lw m sra) in
  runs (mk q m) [] (mk (wrap (lw m sra)) m1) /\
  (forall a, 0 <= a -> (a < r1 \/ r1 + w <= a) -> getb m1 a = getb m a).
Proof. exact (@return_idiom_void w Hw code cmem q m fp r1 kra). Qed.

Theorem P_alloc_origin_store p m fp k :
  code p = Some (IStoreO WWord (St fp) (Imm k) (St ap)) ->
  inb m fp w = true -> inb m ap w = true ->
  let slot := sgn (lw m fp) + sgn (wrap k) in
  inb m slot w = true -> 0 <= slot ->
  let m' := sw m slot (lw m ap) in
  runs (mk p m) [] (mk (p + 1) m') /\
  (inrange (lw m ap) -> lw m' slot = lw m ap) /\
  (forall a, 0 <= a -> (a + w <= slot \/ slot + w <= a) -> lw m' a = lw m a) /\
  (forall a, 0 <= a -> (a < slot \/ slot + w <= a) -> getb m' a = getb m a).
Proof. exact (@alloc_origin_store w Hw ap code cmem p m fp k). Qed.

Theorem P_alloc_bump p m so s :
  code p = Some (IArith Aadd (St ap) (St ap) so) -> oval m so = Some s ->
  inb m ap w = true -> 0 <= ap ->
  let m' := sw m ap (lw m ap + s) in
  runs (mk p m) [] (mk (p + 1) m') /\ lw m' ap = wrap (lw m ap + s) /\
  (forall a, 0 <= a -> (a + w <= ap \/ ap + w <= a) -> lw m' a = lw m a) /\
  (forall a, 0 <= a -> (a < ap \/ ap + w <= a) -> getb m' a = getb m a).
Proof. exact (@alloc_bump w Hw ap code cmem p m so s). Qed.

Theorem P_array_alloc_idiom p m fp k so s A :
  code p = Some (IStoreO WWord (St fp) (Imm k) (St ap)) ->
  code (p + 1) = Some (IArith Aadd (St ap) (St ap) so) ->
  inb m fp w = true -> inb m ap w = true -> 0 <= ap -> inrange (lw m ap) ->
  let slot := sgn (lw m fp) + sgn (wrap k) in
  inb m slot w = true -> 0 <= slot -> (slot + w <= ap \/ ap + w <= slot) ->
  let m1 := sw m slot (lw m ap) in
  oval m1 so = Some s ->
  (forall a, In a A -> 0 <= a /\ (a + w <= slot \/ slot + w <= a) /\ (a + w <= ap \/ ap + w <= a)) ->
  let m2 := sw m1 ap (lw m ap + s) in
  runs (mk p m) [] (mk (p + 2) m2) /\ alloc_step A slot s m m2.
Proof. exact (@array_alloc_idiom w Hw ap code cmem p m fp k so s A). Qed.

Theorem P_reset_ap_restores p m0 mf fp k slot1 s1 l A :
  scope_allocs ((slot1, s1) :: l) A m0 mf -> inrange (lw m0 ap) ->
  code p = Some (ILoadO WWord SState (St ap) (St fp) (Imm k)) ->
  slot1 = sgn (lw mf fp) + sgn (wrap k) ->
  inb mf fp w = true -> inb mf ap w = true -> inb mf slot1 w = true -> 0 <= ap ->
  let m' := sw mf ap (lw mf slot1) in
  runs (mk p mf) [] (mk (p + 1) m') /\ lw m' ap = lw m0 ap /\
  (forall a, In a A -> (a + w <= ap \/ ap + w <= a) -> 0 <= a -> lw m' a = lw m0 a) /\
  (forall a, 0 <= a -> (a < ap \/ ap + w <= a) -> getb m' a = getb mf a).
Proof. exact (@reset_ap_restores w Hw ap code cmem p m0 mf fp k slot1 s1 l A). Qed.

Theorem P_static_pop_restores p m0 mf L A D :
  scope_allocs L A m0 mf -> inrange (lw m0 ap) ->
  code p = Some (IArith Asub (St ap) (St ap) (Imm D)) -> wrap D = wrap (sizes_sum L) ->
  inb mf ap w = true -> 0 <= ap ->
  let m' := sw mf ap (lw mf ap - wrap D) in
  runs (mk p mf) [] (mk (p + 1) m') /\ lw m' ap = lw m0 ap /\
  (forall a, In a A -> (a + w <= ap \/ ap + w <= a) -> 0 <= a -> lw m' a = lw m0 a) /\
  (forall a, 0 <= a -> (a < ap \/ ap + w <= a) -> getb m' a = getb mf a).
Proof. exact (@static_pop_restores w Hw ap code cmem p m0 mf L A D). Qed.

(* ---------------- the return sequence ---------------- *)
Section Return.
Variables (q : Z) (m : mem) (fp apr r1 kra kv ko : Z) (wd : width) (vo : operand) (v : Z).
Hypothesis C0 : code q = Some (ILoadO WWord SState (St r1) (St fp) (Imm kra)).
Hypothesis C1 : code (q + 1) = Some (IStoreO wd (St fp) (Imm kv) vo).
Hypothesis C2 : code (q + 2) = Some (ILoadO WWord SState (St apr) (St fp) (Imm ko)).
Let fpv := lw m fp.
Let sra := sgn fpv + sgn (wrap kra).
Let sv := sgn fpv + sgn (wrap kv).
Let so := sgn fpv + sgn (wrap ko).
Hypothesis If : inb m fp w = true.
Hypothesis Ir : inb m r1 w = true.
Hypothesis Ia : inb m apr w = true.
Hypothesis Isra : inb m sra w = true.
Hypothesis Isv : inb m sv (wdsz wd) = true.
Hypothesis Iso : inb m so w = true.
Hypothesis N0 : 0 <= fp /\ 0 <= r1 /\ 0 <= apr /\ 0 <= sv /\ 0 <= so.
(* registers pairwise apart; the result slot and the origin slot are stack slots, apart from the
   registers and from each other *)
Hypothesis Drf : r1 + w <= fp \/ fp + w <= r1.
Hypothesis Daf : apr + w <= fp \/ fp + w <= apr.
Hypothesis Dra : r1 + w <= apr \/ apr + w <= r1.
Hypothesis Dvf : fp + w <= sv \/ sv + wdsz wd <= fp.
Hypothesis Dvr : r1 + w <= sv \/ sv + wdsz wd <= r1.
Hypothesis Dor : so + w <= r1 \/ r1 + w <= so.
Hypothesis Dov : so + w <= sv \/ sv + wdsz wd <= so.
Let m1 := sw m r1 (lw m sra).
Hypothesis Av : oval m1 vo = Some v.
Let m2 := stm wd m1 sv v.
Let m3 := sw m2 apr (lw m2 so).

Theorem P_return_prefix  :
  runs (mk q m) [] (mk (q + 3) m3) /\
  lw m3 r1 = wrap (lw m sra) /\ lw m3 fp = fpv /\ lw m3 apr = wrap (lw m so) /\
  (sv + wdsz wd <= apr \/ apr + w <= sv ->
     match wd with WWord => lw m3 sv = wrap v | WByte => Machine.lb m3 sv = v mod 256 end) /\
  (forall a, 0 <= a -> (a < r1 \/ r1 + w <= a) -> (a < apr \/ apr + w <= a) -> (a < sv \/ sv + wdsz wd <= a) ->
     getb m3 a = getb m a) /\
  inb m3 r1 w = true.
Proof. exact (@return_prefix w Hw code cmem q m fp apr r1 kra kv ko wd vo v C0 C1 C2 If Ir Ia Isra Isv Iso N0 Drf Daf Dra Dvf Dvr Dor Dov Av). Qed.

Theorem P_return_idiom  :
  code (q + 3) = Some (IJ (St r1)) -> code (q + 4) = Some IHalt ->
  let ra := wrap (lw m sra) in
  runs (mk q m) [] (mk ra m3) /\
  lw m3 fp = fpv /\ lw m3 apr = wrap (lw m so) /\
  (sv + wdsz wd <= apr \/ apr + w <= sv ->
     match wd with WWord => lw m3 sv = wrap v | WByte => Machine.lb m3 sv = v mod 256 end) /\
  (forall a, 0 <= a -> (a < r1 \/ r1 + w <= a) -> (a < apr \/ apr + w <= a) -> (a < sv \/ sv + wdsz wd <= a) ->
     getb m3 a = getb m a).
Proof. exact (@return_idiom w Hw code cmem q m fp apr r1 kra kv ko wd vo v C0 C1 C2 If Ir Ia Isra Isv Iso N0 Drf Daf Dra Dvf Dvr Dor Dov Av). Qed.

Theorem P_return_idiom_protected nlp N :
  code (q + 3) = Some (IJ nlp) -> oval m3 nlp = Some N ->
  code (q + 4) = Some (IJ (St r1)) -> code (q + 5) = Some IHalt ->
  let ra := wrap (lw m sra) in
  (~ Halts (mk ra m3) -> runs (mk q m) [] (mk ra m3)) /\          (* returning is fine: return *)
  (Halts (mk ra m3) -> runs (mk q m) [] (mk N m3)) /\             (* the caller would be defeated: stub *)
  (* stub absorbing: never halts *)
  (~ Halts (mk N m3) -> ~ Halts (mk q m)).
Proof. exact (@return_idiom_protected w Hw code cmem q m fp apr r1 kra kv ko wd vo v C0 C1 C2 If Ir Ia Isra Isv Iso N0 Drf Daf Dra Dvf Dvr Dor Dov Av nlp N). Qed.

End Return.
End P.

(* ---------------- the classifier tie ---------------- *)
Section ClassifiedCall.
Variable c : cfg.
Hypothesis Hw : 2 <= cw c.
Variable code : Z -> option instr.
Variable cmem : mem.
Variable pc : Z.
Notation w := (cw c).
Notation act := (Machine.act w code cmem).
Notation runs := (HidV.Sphinx.Halts.runs act).
Notation oval := (Idioms.oval w cmem).
Notation lw := (Machine.lw w).
Notation sw := (Machine.sw w).
Notation wrap := (Machine.wrap w).

Theorem P_classified_call F fp off :
  classify_code c code pc = Some (Call F fp off) ->
  forall m0 evs m2 (P : Z -> Prop),
  0 <= fp -> inb m0 fp w = true -> WordLemmas.inrange w (lw m0 fp) ->
  let fpc := wrap (lw m0 fp + wrap (- off)) in
  let m1 := sw m0 fp (lw m0 fp + wrap (- off)) in
  lw m1 (fpc - w) = pc + 2 ->
  runs (mk F m1) evs (mk (lw m1 (fpc - w)) m2) ->
  msize m2 = msize m1 -> lw m2 fp = fpc ->
  (forall a, P a -> getb m2 a = getb m1 a) ->
  (forall a, P a -> 0 <= a /\ (a < fp \/ fp + w <= a)) ->
  let m3 := sw m2 fp (fpc + wrap off) in
  runs (mk (pc - 1) m0) evs (mk (pc + 3) m3) /\
  lw m3 fp = lw m0 fp /\
  (forall a, P a -> getb m3 a = getb m0 a) /\
  (forall a, 0 <= a -> (a < fp \/ fp + w <= a) -> getb m3 a = getb m2 a).
Proof. exact (@classified_call c Hw code cmem pc F fp off). Qed.

End ClassifiedCall.

Print Assumptions P_wrap_add_l.
Print Assumptions P_fp_rebase_arith.
Print Assumptions P_frame_addresses.
Print Assumptions P_getb_sw_other.
Print Assumptions P_lw_agree.
Print Assumptions P_scope_allocs_spec.
Print Assumptions P_static_pop_arith.
Print Assumptions P_allocs_no_wrap.
Print Assumptions P_fp_rebase_identity.
Print Assumptions P_call_idiom.
Print Assumptions P_call_idiom_frame.
Print Assumptions P_return_idiom_void.
Print Assumptions P_alloc_origin_store.
Print Assumptions P_alloc_bump.
Print Assumptions P_array_alloc_idiom.
Print Assumptions P_reset_ap_restores.
Print Assumptions P_static_pop_restores.
Print Assumptions P_return_prefix.
Print Assumptions P_return_idiom.
Print Assumptions P_return_idiom_protected.
Print Assumptions P_classified_call.
