(* Extraction of the `lowerbool` component's executable model (ExtrOcamlBasic + ExtrOcamlString:
   Coq strings become OCaml char lists; nat / Z / positive stay inductive). *)
From Coq Require Import ZArith ExtrOcamlBasic ExtrOcamlString.
From HidV Require Import GenTables OpTables LowerBoolModel.

Extraction "../ocaml/hidlower_core.ml"
  lower_branch if_block value_lowering value_lowering_keep declare_bool assign_bool lower_defeat temps_b print_aline is_you_env with_top add_label Z.add Z.mul Z.opp.
