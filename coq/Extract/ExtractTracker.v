(* Extraction for the `tracker` component (C04).  ExtrOcamlBasic only: Z / positive / nat stay
   the extracted inductive types. *)
From Coq Require Import ExtrOcamlBasic.
From HidV Require Import GenTracker Tracker.

Extraction "../ocaml/hidtracker_core.ml" gen_choices run run_ok arun max_vals levels.
