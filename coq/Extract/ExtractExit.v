(* Extraction of the `exit` component's executable definitions (ExtrOcamlBasic only). *)
From Coq Require Import ExtrOcamlBasic.
From HidV Require Import GenExit Exit.

Extraction "../ocaml/hidexit_core.ml"
  analyse elab_func survey survey_stmts diags m_value cont_block stmts_len.
