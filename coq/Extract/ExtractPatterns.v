(* Extraction for the idiom classifier (component `idioms`, Sphinx/Patterns.v).
   ExtrOcamlBasic only: Z / positive / nat stay the extracted inductive types. *)
From Coq Require Import ExtrOcamlBasic.
From HidV Require Import Machine Driver Patterns.

Extraction "../ocaml/hidpat_core.ml" classify_all sequential_only sequential_idiom mkcfg.
