(* Extraction of the `lowerstmt` component's executable model (ExtrOcamlBasic + ExtrOcamlString:
   Coq strings become OCaml char lists; nat / Z / positive stay inductive). *)
From Coq Require Import ZArith ExtrOcamlBasic ExtrOcamlString.
From HidV Require Import GenTables OpTables LowerBoolModel LowerStmtModel LowerStmtSem.

Extraction "../ocaml/hidlowerstmt_core.ml"
  lower_body lower_stmts need_stmts is_you_senv print_aline lower_program state_section print_dline
  icall run_ok_b state_section_g Z.add Z.mul Z.opp.
