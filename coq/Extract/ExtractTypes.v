(* Extraction for the `types` component (models HiD/Fold.v and HiD/Types.v).
   ExtrOcamlBasic + ExtrOcamlString only: Z, positive, nat stay the extracted inductive types. *)
From Coq Require Import ExtrOcamlBasic ExtrOcamlString ZArith.
From HidV.Gen Require Import GenTypes.
From HidV.HiD Require Import Fold Types.

Extraction "../ocaml/hidtypes_core.ml"
  elab_program wt_program coercible cast coerce resolve ty_of
  fold_op2 fold_op1 fold_arith2 fold_arith1 fold_bool2 fold_bool1
  builtin_fsigs opclass_name opclass_all castkind_name castkind_all dty_name dty_all
  flavor_text op_family Z.add Z.mul Z.opp Z.div_eucl Z.ltb.
