(* Extraction for the `context` component (C06).  ExtrOcamlBasic only: N / positive / nat stay
   the extracted inductive types. *)
From Coq Require Import ExtrOcamlBasic.
From HidV Require Import GenContext Context.

Extraction "../ocaml/hidctx_core.ml" check_program accepts.
