(* Extraction of the lexer model (component `lexer`, C12).  ExtrOcamlBasic only: Z, positive, nat,
   string and ascii stay the extracted inductive types. *)
From Coq Require Import ExtrOcamlBasic.
From HidV Require Import GenLexer Lexer.

Extraction "../ocaml/hidlex_core.ml" Lexer.lex_text Lexer.lex_lines Lexer.utf8_encode.
