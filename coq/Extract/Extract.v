(* The only file with extraction commands.  ExtrOcamlBasic only: Z, N, positive, nat stay the
   extracted inductive types. *)
From Coq Require Import ExtrOcamlBasic.
From HidV Require Import Machine Halts VM Driver.

Extraction "../ocaml/hidvm_core.ml" run_program mon_none mon_entitled Machine.lw Machine.getb.
