(* Extraction for component `parser` (C11).  ExtrOcamlBasic only: Z, positive, nat stay the
   extracted inductive types. *)
From Coq Require Import ExtrOcamlBasic.
From HidV.HiD Require Import ExprSyntax ExprParser.
From HidV.Gen Require Import GenGrammar.

(* the model parser on the regenerated table, and the documented-table printer *)
Definition model_parse (fuel : nat) (you : bool) (toks : list token) : pres :=
  p_top levels unary_ops fuel you toks.
Definition model_print (e : expr) : list token := tokens_min e.

Extraction "../ocaml/exprparser_core.ml" model_parse model_print.
