#!/bin/bash
# MANIFEST.setup_cmd: build the whole framework from files on disk, offline.
set -e
cd "$(dirname "$0")"
export PYTHONHASHSEED=0 PIP_NO_INDEX=1 PYTHONPATH=/repo:$PWD/tools
# 1. regenerate models from /repo's working tree (failures are reported by the checks, not here)
/venv/bin/python -c 'import sys; sys.path.insert(0,"tools"); import checklib; ch, fl = checklib.regen_all(); print("regenerated:", ch); print("cannot translate:", fl)' || true
# 2. full Coq build (.vo, no quick modes)
( cd coq && coq_makefile -f _CoqProject -o Makefile >/dev/null 2>&1 && timeout 3000 make -j16 2>&1 | grep -v '^COQC\|^COQDEP\|Closed under' | tail -20 ) || echo "setup: coq build incomplete (the affected checks will report it)"
# 3. OCaml drivers around extracted code
( cd ocaml && for d in hidvm exprparser hidlex hidctx hidexit hidtypes hidtracker hidpat hidlower hidlowerstmt; do
    core=${d}_core; [ "$d" = hidvm ] && core=hidvm_core
    if [ -f $d.ml ]; then
      cores=$(ls ${d}_core.mli ${d}_core.ml 2>/dev/null || true)
      [ "$d" = hidvm ] && cores="hidvm_core.mli hidvm_core.ml"
      ocamlfind ocamlopt -package unix -linkpkg -O3 -w -a $cores $d.ml -o $d 2>&1 | tail -3 || echo "setup: building $d failed"
    fi
  done )
# 4. ISA fidelity: upstream tests/test_codegen.py, unchanged, on the verified VM
PYTHONPATH=$PWD/tools/shim:$PWD/tools:/repo timeout 900 /venv/bin/python -m pytest -q -x -p no:cacheprovider /repo/tests/test_codegen.py 2>&1 | tail -2
