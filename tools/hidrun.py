"""Compile HiD source with the real compiler in /repo's working tree and run the output on the
verified VM.  Used by every behavioural sweep."""
import os, sys, traceback
from collections import namedtuple
from concurrent.futures import ProcessPoolExecutor
HERE = os.path.dirname(os.path.abspath(__file__))
sys.path.insert(0, HERE)
from common import REPO
if REPO not in sys.path:
    sys.path.insert(0, REPO)
import sasm, vmrun

Case = namedtuple('Case', 'src args w stack unchecked fuel opts')
Case.__new__.__defaults__ = ((), 2, 64, False, 400_000, None)
# outcome of one case
Run = namedtuple('Run', 'status detail kind pc out flags events snaps lines')
# status: 'ran' | 'compile_error' | 'asm_error' | 'internal_error'


def compile_lines(src, w=2, stack=64, unchecked=False, opts=None):
    from hidc.lexer import SourceCode
    from hidc.parser import parse
    from hidc.ast import Environment
    from hidc.codegen import CodeGen
    env = Environment.empty(**(opts or {}))
    parse(SourceCode.from_string(src)).evaluate(env)
    cg = CodeGen(env, word_size=w, stack_size=stack, unchecked=unchecked)
    return list(cg.gen_lines())


def _prep(case):
    """-> ('ok', driver_text, prog, lines) | (status, detail)"""
    from hidc.errors import CompilerError
    try:
        lines = compile_lines(case.src, case.w, case.stack, case.unchecked, case.opts)
    except CompilerError as e:
        return ('compile_error', '%s: %s' % (type(e).__name__, str(e).splitlines()[0] if str(e) else ''))
    except RecursionError:
        return ('compile_error', 'RecursionError')
    except Exception as e:
        return ('internal_error', '%s: %s' % (type(e).__name__, traceback.format_exc(limit=3)[-400:]))
    try:
        prog = sasm.assemble(lines, case.args)
    except sasm.AsmTooBig as e:
        return ('too_big', str(e), lines)
    except sasm.AsmError as e:
        return ('asm_error', str(e), lines)
    return ('ok', prog, lines)


def _chunk(args):
    cases, watch_labels, keep_lines = args
    texts, slots, out = [], [], [None] * len(cases)
    for i, c in enumerate(cases):
        r = _prep(c)
        if r[0] != 'ok':
            out[i] = Run(r[0], r[1], None, None, b'', [], [], [], r[2] if len(r) > 2 and keep_lines else None)
            continue
        prog, lines = r[1], r[2]
        watch = ()
        if watch_labels:
            watch = sorted({a for n, a in prog.labels.items() if prog.label_sections[n] == 'code' and watch_labels(n)})
        texts.append(sasm.to_driver(prog, str(i), c.fuel, watch))
        slots.append((i, lines if keep_lines else None, prog))
    if texts:
        res = vmrun.run_batch(texts)
        for (i, lines, prog), r in zip(slots, res):
            out[i] = Run('ran', '', r.kind, r.pc, r.out, r.flags, r.events, r.snaps, lines)
    return out


def run_cases(cases, procs=None, watch_labels=None, keep_lines=False, chunk=40):
    """Compile + run all cases (order preserved)."""
    cases = list(cases)
    if not cases:
        return []
    procs = procs or min(14, os.cpu_count() or 4)
    chunks = [cases[i:i + chunk] for i in range(0, len(cases), chunk)]
    if len(chunks) == 1 or procs == 1:
        outs = [_chunk((c, watch_labels, keep_lines)) for c in chunks]
    else:
        with ProcessPoolExecutor(max_workers=procs) as ex:
            outs = list(ex.map(_chunk, [(c, watch_labels, keep_lines) for c in chunks]))
    return [r for o in outs for r in o]


def terminal(run):
    """Canonical observable of a run: (end, flags, out) with end in win/error/halt/fault/fuel/<status>."""
    if run.status != 'ran':
        return (run.status, [], b'')
    if run.kind == 'ABSORBED':
        end = 'win' if 'win' in run.flags else 'error' if 'error' in run.flags else 'loop'
    else:
        end = run.kind.lower()
    return (end, list(run.flags), run.out)


if __name__ == '__main__':
    import argparse
    ap = argparse.ArgumentParser()
    ap.add_argument('file')
    ap.add_argument('args', nargs='*')
    ap.add_argument('-m', type=int, default=2)
    ap.add_argument('-s', type=int, default=64)
    ap.add_argument('--unchecked', action='store_true')
    a = ap.parse_args()
    r = run_cases([Case(open(a.file).read(), tuple(a.args), a.m, a.s, a.unchecked, 3_000_000)])[0]
    print(r.status, r.detail, r.kind, r.pc, r.flags)
    sys.stdout.write(r.out.decode('latin1'))
