"""Correspondence for the idiom classifier (component `idioms`, coq/Sphinx/Patterns.v).

The tie between the machine-level idiom theorems (Sphinx/Idioms.v, TimeTravel.v, Guards.v) and what
the code generator emits TODAY: every `j` of every program hidc emits in the streams below (checked
and unchecked builds, several word sizes) must be recognised by the verified, extracted recogniser
`Patterns.classify` (ocaml/hidpat.ml around hidpat_core.ml).  For a classified jump
`Patterns.classify_sound` gives the code-shape premises of the corresponding theorem and the
`classified_*` corollaries apply it; an unclassifiable jump is a jump no theorem speaks about.

A *disagreement* is a program with an unclassifiable `j` (reported with source, configuration, pc
and the surrounding instructions), or a program without try/preempt/??/defeat whose jumps are not
all sequential idioms (`Patterns.sequential_only`).

    python tools/corr_patterns.py --tier quick --seed 0
"""
import os, sys, re, glob, time, json, random, shutil, subprocess, argparse, collections
HERE = os.path.dirname(os.path.abspath(__file__))
sys.path.insert(0, HERE)
from common import VERIF, REPO, sha
if REPO not in sys.path:
    sys.path.insert(0, REPO)

IDIOMS = ['Goto', 'GotoReg', 'Branch', 'BranchBool', 'BoolNormalise', 'Guard', 'GuardEntry', 'GuardVla',
          'Undo', 'PreemptStatic', 'PreemptVirtual', 'Speculation', 'SpeculationNoMov', 'DefeatVirtual',
          'DefeatVirtualCond', 'StopInstall', 'ReturnProtection', 'Call']
SEQUENTIAL = {'Goto', 'GotoReg', 'Branch', 'BranchBool', 'BoolNormalise', 'Guard', 'GuardEntry', 'GuardVla', 'Call'}
FEATURES = ['arrays', 'strings', 'calls', 'globals', 'overloads', 'tt']
# the cone of the recogniser (everything before it is built by `make`); compiled only when stale
COQ_FILES = ['Sphinx/Patterns.v', 'Extract/ExtractPatterns.v']
COQ_DEPS = ['Sphinx/Machine.vo', 'Sphinx/Halts.vo', 'Sphinx/Driver.vo', 'Gen/GenTables.vo', 'Codegen/OpTables.vo',
            'Sphinx/Idioms.vo', 'Sphinx/TimeTravel.vo', 'Sphinx/Guards.vo']
RULE = ('every `j` of every emitted program classifies (Patterns.classify <> None), and programs whose source has no '
        'try/preempt/??/defeat are sequential_only')


def _stale(out, srcs):
    try:
        t = os.path.getmtime(out)
    except OSError:
        return True
    return any(os.path.exists(s) and os.path.getmtime(s) >= t for s in srcs)


def build_model(workdir, log):
    """compile Patterns.v + extraction when stale, build the driver in workdir -> path of the executable.
    (No flock here: under ./check the caller holds /verif/.work/build.lock.)"""
    coq = os.path.join(VERIF, 'coq')
    prev = [os.path.join(coq, d) for d in COQ_DEPS]
    for f in COQ_FILES:
        src = os.path.join(coq, f)
        if _stale(src + 'o', [src] + prev):
            p = subprocess.run(['timeout', '900', 'coqc', '-Q', '.', 'HidV', f], cwd=coq, capture_output=True, text=True)
            if p.returncode != 0:
                raise RuntimeError('coqc %s failed:\n%s' % (f, (p.stderr or p.stdout)[-1500:]))
            log.append('compiled ' + f)
        prev.append(src + 'o')
    os.makedirs(workdir, exist_ok=True)
    oc = os.path.join(VERIF, 'ocaml')
    for f in ('hidpat_core.ml', 'hidpat_core.mli', 'hidpat.ml'):
        shutil.copy(os.path.join(oc, f), os.path.join(workdir, f))
    p = subprocess.run(['timeout', '300', 'ocamlfind', 'ocamlopt', 'hidpat_core.mli', 'hidpat_core.ml', 'hidpat.ml',
                        '-o', 'hidpat'], cwd=workdir, capture_output=True, text=True)
    if p.returncode != 0:
        raise RuntimeError('ocaml build failed:\n' + (p.stderr or p.stdout)[-1500:])
    return os.path.join(workdir, 'hidpat')


def argv_count(lines):
    """number of mandatory command-line arguments the emitted program declares"""
    for ln in lines:
        if ln.startswith(b'%argv'):
            return len([t for t in ln.split()[1:] if t.startswith(b'<')])
    return 0


def emit(src, w, unchecked):
    """-> ('ok', prog, lines) | (status, detail)"""
    import hidrun, sasm
    from hidc.errors import CompilerError
    try:
        lines = hidrun.compile_lines(src, w, 64, unchecked)
    except CompilerError as e:
        return ('compile_error', type(e).__name__)
    except RecursionError:
        return ('compile_error', 'RecursionError')
    except Exception as e:                                            # noqa
        return ('internal_error', '%s: %s' % (type(e).__name__, e))
    try:
        prog = sasm.assemble(lines, ('1',) * argv_count(lines))
    except sasm.AsmTooBig as e:
        return ('too_big', str(e))
    except sasm.AsmError as e:
        return ('asm_error', str(e))
    return ('ok', prog, lines)


def driver_text(prog, ident):
    import sasm
    out = ['P %s' % ident, 'W %s' % format(prog.W, 'b')]
    if prog.label_sections.get('defeat') == 'state':
        out.append('D %s' % format(prog.labels['defeat'], 'b'))
    for op, a in prog.code:
        out.append(sasm.instr_line(op, a))
    out.append('K')
    return '\n'.join(out) + '\n'


def classify_batch(exe, texts):
    """-> list of (counts[len(IDIOMS)], sequential:bool, [unclassified pcs])"""
    p = subprocess.run([exe], input=''.join(texts), capture_output=True, text=True, timeout=1800)
    out = [l for l in p.stdout.split('\n') if l]
    if p.returncode != 0 or len(out) != len(texts):
        raise RuntimeError('hidpat failed (%d lines for %d programs): %s' % (len(out), len(texts), p.stderr[-500:]))
    res = []
    for line in out:
        head, _, bad = line.partition('|')
        f = head.split()
        n = len(IDIOMS)
        res.append(([int(x) for x in f[1:1 + n]], f[1 + n] == '1', [int(x) for x in bad.split()]))
    return res


def instr_text(prog, pc):
    op, a = prog.code[pc]
    def o(x):
        k, v = x
        return str(v) if k == 'i' else ('[%d]' % v if k == 's' else '{%d}' % v)
    return '%5d  %s %s' % (pc, op, ', '.join(o(x) for x in a))


def context(prog, pc, before=3, after=8):
    rev = collections.defaultdict(list)
    for n, a in prog.labels.items():
        if prog.label_sections[n] == 'code':
            rev[a].append(n)
    out = []
    for i in range(max(0, pc - before), min(len(prog.code), pc + after + 1)):
        for n in rev.get(i, ()):
            out.append('       %s:' % n)
        out.append(('>' if i == pc else ' ') + instr_text(prog, i))
    return '\n'.join(out)


TT_RE = re.compile(r'\btry\b|\bpreempt\b|\?\?|![A-Za-z_]')


def expect_sequential(src):
    return TT_RE.search(src) is None


def sources(tier, seed):
    """-> list of (origin, name, source)"""
    import gen, genhist
    quick = tier == 'quick'
    out = []
    for f in sorted(glob.glob(os.path.join(REPO, 'examples', '*.hid'))):
        with open(f, encoding='utf-8') as h:
            out.append(('example', os.path.basename(f), h.read()))
    rng = random.Random(seed)
    base = rng.randrange(1 << 30)
    for i in range(150 if quick else 1000):
        feats = FEATURES if i % 3 else [f for f in FEATURES if f != 'tt']     # a third without time travel
        out.append(('gen', 'gen_program(%d,%s)' % (base + i, ','.join(feats)), gen.gen_program(base + i, feats)))
    for i in range(100 if quick else 700):
        out.append(('history', 'gen_history(%d)' % (base + i), genhist.gen_history(base + i)))
    return out


def _emit_chunk(args):
    """worker: compile + assemble + driver text for a chunk of (idx, src, w, unchecked)"""
    res = []
    for idx, src, w, unchecked in args:
        r = emit(src, w, unchecked)
        if r[0] != 'ok':
            res.append((idx, r[0], r[1], None, None))
        else:
            prog = r[1]
            res.append((idx, 'ok', driver_text(prog, str(idx)), sha(b'\n'.join(r[2])), len(prog.code)))
    return res


def run(tier='quick', seed=0, workdir=None, exe=None):
    t0 = time.time()
    own = workdir is None
    workdir = workdir or os.path.join(VERIF, '.work', 'patterns', 'corr-%d' % os.getpid())
    os.makedirs(workdir, exist_ok=True)
    log = []
    result = {'evaluations': 0, 'distinct_nontrivial': 0, 'samples': [], 'disagreements': [], 'exhaustive': False,
              'distribution': {}, 'rule': RULE, 'tier': tier, 'seed': seed, 'repo': REPO}
    try:
        try:
            if exe is None:
                exe = build_model(workdir, log)
            else:
                log.append('model driver given: ' + exe)
        except RuntimeError as e:
            result['disagreements'].append({'input': 'model build', 'model': str(e), 'impl': REPO})
            return result
        srcs = sources(tier, seed)
        quick = tier == 'quick'
        jobs = []                                            # (idx, src, w, unchecked)
        meta = []
        for k, (origin, name, src) in enumerate(srcs):
            ws = (2, (3, 4, 8)[k % 3]) if quick else (2, 3, 4, 8)
            for w in ws:
                for unchecked in (False, True):
                    jobs.append((len(meta), src, w, unchecked))
                    meta.append((origin, name, src, w, unchecked))
        from concurrent.futures import ProcessPoolExecutor
        procs = min(12, os.cpu_count() or 4)
        chunks = [jobs[i:i + 24] for i in range(0, len(jobs), 24)]
        emitted = []
        if procs > 1 and len(chunks) > 1:
            with ProcessPoolExecutor(max_workers=procs) as ex:
                for r in ex.map(_emit_chunk, chunks):
                    emitted.extend(r)
        else:
            for ch in chunks:
                emitted.extend(_emit_chunk(ch))
        dist = collections.Counter()
        texts, slots, seen = [], [], set()
        for idx, status, a, digest, ncode in emitted:
            origin = meta[idx][0]
            if status != 'ok':
                dist['not emitted: %s (%s)' % (status, origin)] += 1
                if status == 'internal_error':
                    result['disagreements'].append({'input': meta[idx][1], 'config': 'w=%d unchecked=%s' % meta[idx][3:5],
                                                    'model': 'compiles', 'impl': a, 'source': meta[idx][2]})
                continue
            dist['programs (%s)' % origin] += 1
            dist['w=%d %s' % (meta[idx][3], 'unchecked' if meta[idx][4] else 'checked')] += 1
            seen.add(digest)
            texts.append(a)
            slots.append(idx)
        res = classify_batch(exe, texts) if texts else []
        njumps = 0
        nseq = 0
        for idx, (counts, seq, bad) in zip(slots, res):
            origin, name, src, w, unchecked = meta[idx]
            for nm, cnt in zip(IDIOMS, counts):
                if cnt:
                    dist['idiom ' + nm] += cnt
            njumps += sum(counts) + len(bad)
            nseq += seq
            if bad:
                dist['unclassified jumps'] += len(bad)
                result['disagreements'].append({
                    'input': name, 'config': 'w=%d stack=64 unchecked=%s' % (w, unchecked),
                    'model': 'Patterns.classify = None at pc %s' % ', '.join(map(str, bad[:10])),
                    'impl': 'emitted `j` at these addresses',
                    'pc': bad[0], 'unclassified': len(bad), 'source': src, '_cfg': (w, unchecked)})
            elif expect_sequential(src) and not seq:
                tt = [nm for nm, cnt in zip(IDIOMS, counts) if cnt and nm not in SEQUENTIAL]
                result['disagreements'].append({
                    'input': name, 'config': 'w=%d stack=64 unchecked=%s' % (w, unchecked),
                    'model': 'sequential_only = false (%s)' % ', '.join(tt),
                    'impl': 'source has no try/preempt/??/defeat', 'source': src})
            if expect_sequential(src):
                dist['sources without time travel'] += 1
        dist['sequential_only programs'] = nseq
        result['evaluations'] = njumps
        result['distinct_nontrivial'] = len(seen)
        result['distribution'] = dict(sorted(dist.items()))
        # shrink: keep one disagreement per (source) with the smallest program, at most 20
        ds = result['disagreements']
        ds.sort(key=lambda d: len(d.get('source', '')))
        seen_src = set()
        keep = []
        for d in ds:
            key = d.get('source', d['input'])
            if key in seen_src:
                continue
            seen_src.add(key)
            keep.append(d)
        result['disagreements_total'] = len(ds)
        result['disagreements'] = keep[:20]
        for d in ds:
            cfgw = d.pop('_cfg', None)
            if cfgw is not None and any(d is k for k in result['disagreements']):
                r = emit(d['source'], cfgw[0], cfgw[1])          # re-emit only the reported ones, for the listing
                if r[0] == 'ok':
                    d['context'] = context(r[1], d['pc'])
        for idx, (counts, seq, bad) in list(zip(slots, res))[:3]:
            result['samples'].append({'input': meta[idx][1], 'config': 'w=%d unchecked=%s' % meta[idx][3:5],
                                      'idioms': {nm: cnt for nm, cnt in zip(IDIOMS, counts) if cnt}, 'sequential_only': seq})
        result['log'] = log
        result['seconds'] = round(time.time() - t0, 1)
        return result
    finally:
        if own:
            shutil.rmtree(workdir, ignore_errors=True)


if __name__ == '__main__':
    ap = argparse.ArgumentParser()
    ap.add_argument('--tier', default='quick', choices=['quick', 'thorough'])
    ap.add_argument('--seed', type=int, default=0)
    ap.add_argument('--exe', default=None, help='use an already built hidpat driver')
    a = ap.parse_args()
    r = run(a.tier, a.seed, exe=a.exe)
    short = dict(r)
    for d in short['disagreements']:
        if 'source' in d and len(d['source']) > 1500:
            d['source'] = d['source'][:1500] + '\n...'
    print(json.dumps(short, indent=1))
    sys.exit(1 if r['disagreements'] else 0)
