"""Translator for the `types` component: reads hidc source text with `ast` (never imports it) and
emits coq/Gen/GenTypes.v.  Fail closed: any unrecognised shape raises CannotTranslate.

Items:
  lexer/tokens.py     DataType, OpToken, Flavor members (order + spelling)
  ast/expressions.py  TypeCast subclasses' `map`; Expression.coercible (scalar pair set + array
                      rule); IntValue.shrinkable / is_char defaults; ArrayLiteral defaults
  ast/operators.py    every operator class: family (bases), token, `operate` as a tag;
                      ArithmeticOp.shrinkable default
  ast/program.py      builtin_stubs in order
"""
import ast
import os
import sys

sys.path.insert(0, os.path.dirname(os.path.abspath(__file__)))
from common import CannotTranslate, REPO, VERIF, write_if_changed  # noqa: E402

OUT = 'coq/Gen/GenTypes.v'


# ------------------------------------------------------------------------------------------
# helpers

def _parse(repo, rel):
    path = os.path.join(repo, rel)
    try:
        with open(path, encoding='utf-8') as f:
            return ast.parse(f.read(), filename=path)
    except (OSError, SyntaxError, UnicodeDecodeError) as e:
        raise CannotTranslate(rel, 'cannot read/parse: %s' % e)


def _classes(mod):
    return {n.name: n for n in mod.body if isinstance(n, ast.ClassDef)}


def _strip_doc(body):
    return [s for s in body
            if not (isinstance(s, ast.Expr) and isinstance(s.value, ast.Constant)
                    and isinstance(s.value.value, str))]


def _is_attr(node, base, attr=None):
    """node is `base.attr` (attr None: return the attribute name)."""
    if isinstance(node, ast.Attribute) and isinstance(node.value, ast.Name) and node.value.id == base:
        if attr is None:
            return node.attr
        return node.attr == attr
    return None if attr is None else False


def _dump(n):
    return ast.dump(n, annotate_fields=True, include_attributes=False)


def _expect_dump(item, node, src):
    """node must equal the statement/expression parsed from src."""
    want = ast.parse(src).body[0]
    if isinstance(want, ast.Expr) and not isinstance(node, ast.Expr):
        want = want.value
    if _dump(node) != _dump(want):
        raise CannotTranslate(item, 'expected `%s`, found `%s`' % (src, ast.unparse(node)))


def _base_names(cls):
    out = []
    for b in cls.bases:
        if isinstance(b, ast.Name):
            out.append(b.id)
        elif isinstance(b, ast.Attribute):
            out.append(ast.unparse(b))
        else:
            raise CannotTranslate(cls.name, 'unexpected base class expression')
    if cls.keywords:
        raise CannotTranslate(cls.name, 'class keywords')
    return tuple(out)


# ------------------------------------------------------------------------------------------
# tokens.py

def _enum_members(item, cls, allow_defs=True):
    members = []
    for s in _strip_doc(cls.body):
        if isinstance(s, ast.Assign) and len(s.targets) == 1 and isinstance(s.targets[0], ast.Name) \
                and isinstance(s.value, ast.Constant) and isinstance(s.value.value, str):
            members.append((s.targets[0].id, s.value.value))
        elif allow_defs and isinstance(s, ast.FunctionDef):
            continue
        else:
            raise CannotTranslate(item, 'unexpected class body statement: %s' % ast.unparse(s)[:60])
    if not members:
        raise CannotTranslate(item, 'no members')
    names = [m for m, _ in members]
    if len(set(names)) != len(names) or len(set(v for _, v in members)) != len(members):
        raise CannotTranslate(item, 'duplicate member')
    return members


def read_tokens(repo):
    mod = _parse(repo, 'hidc/lexer/tokens.py')
    cl = _classes(mod)
    for need in ('DataType', 'OpToken', 'Flavor'):
        if need not in cl:
            raise CannotTranslate('tokens.' + need, 'class missing')
    return (_enum_members('tokens.DataType', cl['DataType']),
            _enum_members('tokens.OpToken', cl['OpToken']),
            _enum_members('tokens.Flavor', cl['Flavor']))


# ------------------------------------------------------------------------------------------
# types as Coq terms

class TyReader:
    def __init__(self, dtypes):
        self.dt = {n for n, _ in dtypes}

    def dtype(self, item, node):
        a = _is_attr(node, 'DataType')
        if a is None or a not in self.dt:
            raise CannotTranslate(item, 'expected DataType.<member>, found %s' % ast.unparse(node))
        return a

    def ty(self, item, node):
        if isinstance(node, ast.Call) and isinstance(node.func, ast.Name) and node.func.id == 'ArrayType':
            if len(node.args) != 1 or len(node.keywords) != 1 or node.keywords[0].arg != 'const' \
                    or not isinstance(node.keywords[0].value, ast.Constant) \
                    or not isinstance(node.keywords[0].value.value, bool):
                raise CannotTranslate(item, 'expected ArrayType(DataType.X, const=<bool>)')
            return '(TArr %s %s)' % (self.dtype(item, node.args[0]),
                                     'true' if node.keywords[0].value.value else 'false')
        return '(TData %s)' % self.dtype(item, node)


# ------------------------------------------------------------------------------------------
# expressions.py

def read_expressions(repo, tr):
    mod = _parse(repo, 'hidc/ast/expressions.py')
    cl = _classes(mod)
    # -- TypeCast subclasses
    casts = []
    for c in mod.body:
        if isinstance(c, ast.ClassDef) and _base_names(c) == ('TypeCast',):
            body = _strip_doc(c.body)
            if len(body) != 1 or not isinstance(body[0], ast.Assign) or len(body[0].targets) != 1 \
                    or not isinstance(body[0].targets[0], ast.Name) or body[0].targets[0].id != 'map' \
                    or not isinstance(body[0].value, ast.Tuple) or len(body[0].value.elts) != 2:
                raise CannotTranslate('expressions.%s' % c.name, 'expected body `map = (T1, T2)`')
            a, b = body[0].value.elts
            casts.append((c.name, tr.ty('expressions.%s.map' % c.name, a),
                          tr.ty('expressions.%s.map' % c.name, b)))
    if not casts:
        raise CannotTranslate('expressions.TypeCast', 'no subclasses')
    cast_names = [n for n, _, _ in casts]

    # -- Expression.coercible
    if 'Expression' not in cl:
        raise CannotTranslate('expressions.Expression', 'class missing')
    fn = [s for s in cl['Expression'].body if isinstance(s, ast.FunctionDef) and s.name == 'coercible']
    if len(fn) != 1:
        raise CannotTranslate('Expression.coercible', 'method missing')
    fn = fn[0]
    item = 'Expression.coercible'
    if [a.arg for a in fn.args.args] != ['self', 'new_type'] or fn.decorator_list:
        raise CannotTranslate(item, 'signature')
    body = _strip_doc(fn.body)
    if len(body) != 3:
        raise CannotTranslate(item, 'expected 3 statements, found %d' % len(body))
    _expect_dump(item, body[0], 'if self.type == new_type:\n    return True')
    s1 = body[1]
    if not (isinstance(s1, ast.If) and not s1.orelse and len(s1.body) == 1 and isinstance(s1.body[0], ast.Return)):
        raise CannotTranslate(item, 'array rule shape')
    _expect_dump(item, s1.test, 'isinstance(self.type, ArrayType)')
    r = s1.body[0].value
    if not (isinstance(r, ast.Compare) and len(r.ops) == 1 and isinstance(r.ops[0], ast.Eq)
            and isinstance(r.left, ast.Call) and len(r.left.keywords) == 1
            and isinstance(r.left.keywords[0].value, ast.Constant)
            and isinstance(r.left.keywords[0].value.value, bool)):
        raise CannotTranslate(item, 'array rule shape: %s' % ast.unparse(r))
    arr_const = r.left.keywords[0].value.value
    _expect_dump(item, r, 'ArrayType(self.type.el_type, const=%s) == new_type' % arr_const)
    s2 = body[2]
    if not (isinstance(s2, ast.Return) and isinstance(s2.value, ast.Compare) and len(s2.value.ops) == 1
            and isinstance(s2.value.ops[0], ast.In) and isinstance(s2.value.comparators[0], (ast.Set, ast.Tuple, ast.List))):
        raise CannotTranslate(item, 'pair-set shape: %s' % ast.unparse(s2))
    _expect_dump(item, s2.value.left, '(self.type, new_type)')
    pairs = []
    for e in s2.value.comparators[0].elts:
        if isinstance(e, ast.Attribute) and e.attr == 'map' and isinstance(e.value, ast.Name) \
                and e.value.id in cast_names:
            pairs.append('cast_map K%s' % e.value.id)
        elif isinstance(e, ast.Tuple) and len(e.elts) == 2:
            pairs.append('(%s, %s)' % (tr.ty(item, e.elts[0]), tr.ty(item, e.elts[1])))
        else:
            raise CannotTranslate(item, 'pair-set element: %s' % ast.unparse(e))

    # -- dataclass field defaults
    def field_default(cname, fname):
        if cname not in cl:
            raise CannotTranslate('expressions.' + cname, 'class missing')
        for s in cl[cname].body:
            if isinstance(s, ast.AnnAssign) and isinstance(s.target, ast.Name) and s.target.id == fname:
                return s.value
            if isinstance(s, ast.Assign) and len(s.targets) == 1 and isinstance(s.targets[0], ast.Name) \
                    and s.targets[0].id == fname:
                return s.value
        raise CannotTranslate('expressions.%s.%s' % (cname, fname), 'field missing')

    def bool_default(cname, fname, node):
        if isinstance(node, ast.Constant) and isinstance(node.value, bool):
            return node.value
        # dc.field(default=<bool>, ...)
        if isinstance(node, ast.Call) and _is_attr(node.func, 'dc', 'field'):
            for k in node.keywords:
                if k.arg == 'default' and isinstance(k.value, ast.Constant) and isinstance(k.value.value, bool):
                    return k.value.value
        raise CannotTranslate('%s.%s' % (cname, fname), 'expected a bool default')

    defaults = {
        'intvalue_shrinkable_default': bool_default('IntValue', 'shrinkable', field_default('IntValue', 'shrinkable')),
        'intvalue_is_char_default': bool_default('IntValue', 'is_char', field_default('IntValue', 'is_char')),
        'arrayliteral_locked_default': bool_default('ArrayLiteral', 'type_locked', field_default('ArrayLiteral', 'type_locked')),
    }
    arrlit_ty = tr.ty('ArrayLiteral.type', field_default('ArrayLiteral', 'type'))
    funccall_ty = tr.ty('FuncCall.type', field_default('FuncCall', 'type'))
    # literal node types
    lit_types = []
    for cname in ('IntValue', 'ByteValue', 'BoolValue', 'StringValue', 'LengthLookup'):
        lit_types.append((cname, tr.ty('%s.type' % cname, field_default(cname, 'type'))))
    return casts, pairs, arr_const, defaults, arrlit_ty, funccall_ty, lit_types


# ------------------------------------------------------------------------------------------
# operators.py

FAMILIES = {
    ('BinaryArithmeticOp',): 'FamBinArith',
    ('UnaryArithmeticOp',): 'FamUnArith',
    ('Binary', 'LogicalOp'): 'FamBinLogic',
    ('Unary', 'LogicalOp'): 'FamUnLogic',
    ('Binary', 'CompareOp'): 'FamCompare',
    ('Binary', 'EqualityOp'): 'FamEquality',
}
OPERATOR_MODULE = {
    'add': 'FAdd', 'sub': 'FSub', 'mul': 'FMul', 'floordiv': 'FFloorDiv', 'mod': 'FFloorMod',
    'truediv': 'FTruncDiv', 'pos': 'FPos', 'neg': 'FNeg',
    'lt': 'FLt', 'gt': 'FGt', 'le': 'FLe', 'ge': 'FGe', 'eq': 'FEq', 'ne': 'FNe',
}
BINOP_TAG = {ast.FloorDiv: 'FFloorDiv', ast.Mod: 'FFloorMod', ast.Div: 'FTruncDiv', ast.Add: 'FAdd',
             ast.Sub: 'FSub', ast.Mult: 'FMul'}
# FTruncDiv stands for Python's true division followed by int(): modelled as truncating division
# (exact only while the float quotient is exact); it never occurs in the unchanged tree.
ALL_FOLDFN = ['FAdd', 'FSub', 'FMul', 'FFloorDiv', 'FFloorMod', 'FTruncDiv', 'FPos', 'FNeg',
              'FLt', 'FGt', 'FLe', 'FGe', 'FEq', 'FNe', 'FAnd', 'FOr', 'FNot']
FAMILY_ARITY = {'FamBinArith': 2, 'FamUnArith': 1, 'FamBinLogic': 2, 'FamUnLogic': 1,
                'FamCompare': 2, 'FamEquality': 2}
FOLDFN_ARITY = {t: 2 for t in ALL_FOLDFN}
FOLDFN_ARITY.update({'FPos': 1, 'FNeg': 1, 'FNot': 1})


def _operate_tag(item, cls):
    """returns (tag, zero_message or None)"""
    found = None
    for s in _strip_doc(cls.body):
        if isinstance(s, ast.Assign) and len(s.targets) == 1 and isinstance(s.targets[0], ast.Name):
            if s.targets[0].id == 'token':
                continue
            if s.targets[0].id == 'operate':
                a = _is_attr(s.value, 'operator')
                if a is None or a not in OPERATOR_MODULE:
                    raise CannotTranslate(item, 'operate = %s not recognised' % ast.unparse(s.value))
                found = (OPERATOR_MODULE[a], None)
                continue
            raise CannotTranslate(item, 'unexpected assignment %s' % ast.unparse(s)[:60])
        if isinstance(s, ast.FunctionDef) and s.name == 'operate':
            found = _operate_def(item, s)
            continue
        raise CannotTranslate(item, 'unexpected class body statement %s' % ast.unparse(s)[:60])
    if found is None:
        raise CannotTranslate(item, 'no operate')
    return found


def _operate_def(item, fn):
    params = [a.arg for a in fn.args.args]
    static = [ast.unparse(d) for d in fn.decorator_list] == ['staticmethod']
    if fn.decorator_list and not static:
        raise CannotTranslate(item, 'decorators')
    if not static:
        if params[:1] != ['self']:
            raise CannotTranslate(item, 'operate signature')
        params = params[1:]
    body = _strip_doc(fn.body)
    if len(body) != 1:
        raise CannotTranslate(item, 'operate body: expected one statement')
    s = body[0]
    # logical bodies
    if isinstance(s, ast.Return):
        src = ast.unparse(s.value)
        if len(params) == 2:
            l, r = params
            if src == 'bool(%s and %s)' % (l, r):
                return ('FAnd', None)
            if src == 'bool(%s or %s)' % (l, r):
                return ('FOr', None)
        if len(params) == 1 and src == 'not %s' % params[0]:
            return ('FNot', None)
        raise CannotTranslate(item, 'operate body `%s` not recognised' % src)
    # try: return left <op> right  except ZeroDivisionError: raise TypeCheckError(msg, self.op_span)
    if isinstance(s, ast.Try) and len(params) == 2 and not s.orelse and not s.finalbody \
            and len(s.body) == 1 and isinstance(s.body[0], ast.Return) and len(s.handlers) == 1:
        e = s.body[0].value
        l, r = params
        if not (isinstance(e, ast.BinOp) and isinstance(e.left, ast.Name) and e.left.id == l
                and isinstance(e.right, ast.Name) and e.right.id == r and type(e.op) in BINOP_TAG):
            raise CannotTranslate(item, 'operate body `%s` not recognised' % ast.unparse(e))
        h = s.handlers[0]
        if not (isinstance(h.type, ast.Name) and h.type.id == 'ZeroDivisionError' and h.name is None
                and len(h.body) == 1 and isinstance(h.body[0], ast.Raise) and h.body[0].cause is None):
            raise CannotTranslate(item, 'handler shape')
        exc = h.body[0].exc
        if not (isinstance(exc, ast.Call) and isinstance(exc.func, ast.Name) and exc.func.id == 'TypeCheckError'
                and len(exc.args) == 2 and not exc.keywords and isinstance(exc.args[0], ast.Constant)
                and isinstance(exc.args[0].value, str) and ast.unparse(exc.args[1]) == 'self.op_span'):
            raise CannotTranslate(item, 'handler raise shape')
        return (BINOP_TAG[type(e.op)], exc.args[0].value)
    raise CannotTranslate(item, 'operate body not recognised')


def read_operators(repo, optokens):
    mod = _parse(repo, 'hidc/ast/operators.py')
    toks = {n for n, _ in optokens}
    ops = []
    seen_tok = {}
    for c in mod.body:
        if not isinstance(c, ast.ClassDef):
            continue
        bases = _base_names(c)
        if bases not in FAMILIES:
            continue
        item = 'operators.%s' % c.name
        fam = FAMILIES[bases]
        tok = None
        for s in c.body:
            if isinstance(s, ast.Assign) and len(s.targets) == 1 and isinstance(s.targets[0], ast.Name) \
                    and s.targets[0].id == 'token':
                tok = _is_attr(s.value, 'OpToken')
                if tok is None or tok not in toks:
                    raise CannotTranslate(item, 'token = %s' % ast.unparse(s.value))
        if tok is None:
            raise CannotTranslate(item, 'no token')
        arity = FAMILY_ARITY[fam]
        if (arity, tok) in seen_tok:
            raise CannotTranslate(item, 'duplicate token %s (also %s)' % (tok, seen_tok[(arity, tok)]))
        seen_tok[(arity, tok)] = c.name
        tag, zmsg = _operate_tag(item, c)
        if FOLDFN_ARITY[tag] != arity:
            raise CannotTranslate(item, 'arity of operate (%s) does not fit %s' % (tag, fam))
        ops.append((c.name, fam, tok, tag, zmsg))
    if not ops:
        raise CannotTranslate('operators', 'no operator classes')
    # ArithmeticOp.shrinkable default, simplify guards
    cl = _classes(mod)
    if 'ArithmeticOp' not in cl:
        raise CannotTranslate('operators.ArithmeticOp', 'class missing')
    shr = None
    for s in cl['ArithmeticOp'].body:
        if isinstance(s, ast.AnnAssign) and isinstance(s.target, ast.Name) and s.target.id == 'shrinkable':
            v = s.value
            if isinstance(v, ast.Call) and _is_attr(v.func, 'dc', 'field'):
                for k in v.keywords:
                    if k.arg == 'default' and isinstance(k.value, ast.Constant) and isinstance(k.value.value, bool):
                        shr = k.value.value
            elif isinstance(v, ast.Constant) and isinstance(v.value, bool):
                shr = v.value
    if shr is None:
        raise CannotTranslate('operators.ArithmeticOp.shrinkable', 'bool default not found')
    return ops, shr


# ------------------------------------------------------------------------------------------
# program.py

def read_builtins(repo, tr, flavors):
    mod = _parse(repo, 'hidc/ast/program.py')
    node = None
    for s in mod.body:
        if isinstance(s, ast.Assign) and len(s.targets) == 1 and isinstance(s.targets[0], ast.Name) \
                and s.targets[0].id == 'builtin_stubs':
            if node is not None:
                raise CannotTranslate('program.builtin_stubs', 'assigned twice')
            node = s.value
    if node is None or not isinstance(node, (ast.Tuple, ast.List)):
        raise CannotTranslate('program.builtin_stubs', 'expected a tuple literal')
    fl_ctor = {'you': 'YOU', 'defeat': 'DEFEAT'}
    fl_names = {n for n, _ in flavors}
    out = []
    for i, e in enumerate(node.elts):
        item = 'program.builtin_stubs[%d]' % i
        if not (isinstance(e, ast.Call) and isinstance(e.func, ast.Name) and e.func.id == 'BuiltinStub'
                and len(e.args) == 3 and not e.keywords):
            raise CannotTranslate(item, 'expected BuiltinStub(ret, ident, params)')
        ret = tr.dtype(item, e.args[0])
        idn = e.args[1]
        if not (isinstance(idn, ast.Call) and len(idn.args) == 1 and not idn.keywords
                and isinstance(idn.args[0], ast.Constant) and isinstance(idn.args[0].value, str)):
            raise CannotTranslate(item, 'ident shape')
        if isinstance(idn.func, ast.Name) and idn.func.id == 'Ident':
            fl = 'NONE'
        else:
            a = _is_attr(idn.func, 'Ident')
            if a not in fl_ctor:
                raise CannotTranslate(item, 'ident constructor %s' % ast.unparse(idn.func))
            fl = fl_ctor[a]
        if fl not in fl_names:
            raise CannotTranslate(item, 'flavor %s missing from Flavor' % fl)
        name = idn.args[0].value
        if not name.isidentifier() or not name.isascii():
            raise CannotTranslate(item, 'name')
        if not isinstance(e.args[2], ast.Tuple):
            raise CannotTranslate(item, 'params must be a tuple literal')
        params = [tr.ty(item, p) for p in e.args[2].elts]
        out.append((name, fl, params, ret))
    return out


# ------------------------------------------------------------------------------------------
# emission

def _coq_str(s):
    if any(ord(c) < 32 or ord(c) > 126 for c in s):
        raise CannotTranslate('string', 'non-printable in %r' % s)
    return '"%s"' % s.replace('"', '""')


def _bool(b):
    return 'true' if b else 'false'


def _clist(items, indent='  '):
    if not items:
        return '[]'
    return '[\n' + ';\n'.join(indent + '  ' + x for x in items) + '\n' + indent + ']'


def generate(repo_root=None):
    repo = repo_root or REPO
    dtypes, optokens, flavors = read_tokens(repo)
    tr = TyReader(dtypes)
    casts, pairs, arr_const, defaults, arrlit_ty, funccall_ty, lit_types = read_expressions(repo, tr)
    ops, arith_shr = read_operators(repo, optokens)
    builtins = read_builtins(repo, tr, flavors)

    o = []
    w = o.append
    w('(* GENERATED by tools/regen_types.py from the working tree of the repository -- do not edit.')
    w('   Sources: hidc/lexer/tokens.py, hidc/ast/expressions.py, hidc/ast/operators.py,')
    w('   hidc/ast/program.py. *)')
    w('From Coq Require Import String List.')
    w('Import ListNotations.')
    w('Open Scope string_scope.')
    w('')
    w('(* lexer/tokens.py: class DataType *)')
    w('Inductive dty : Type := %s.' % ' | '.join(n for n, _ in dtypes))
    w('Definition dty_all : list dty := [%s].' % '; '.join(n for n, _ in dtypes))
    w('Definition dty_name (d : dty) : string :=\n  match d with %s end.'
      % ' | '.join('%s => %s' % (n, _coq_str(v)) for n, v in dtypes))
    w('')
    w('(* ast/symbols.py: Type = ArrayType | DataType *)')
    w('Inductive ty : Type := TData (d : dty) | TArr (el : dty) (const : bool).')
    w('')
    w('(* lexer/tokens.py: class OpToken *)')
    w('Inductive optoken : Type := %s.' % ' | '.join('T_' + n for n, _ in optokens))
    w('Definition optoken_text (t : optoken) : string :=\n  match t with %s end.'
      % ' | '.join('T_%s => %s' % (n, _coq_str(v)) for n, v in optokens))
    w('')
    w('(* lexer/tokens.py: class Flavor *)')
    w('Inductive flavor : Type := %s.' % ' | '.join('FL_' + n for n, _ in flavors))
    w('Definition flavor_text (f : flavor) : string :=\n  match f with %s end.'
      % ' | '.join('FL_%s => %s' % (n, _coq_str(v)) for n, v in flavors))
    w('')
    w('(* ast/expressions.py: TypeCast subclasses and their `map` *)')
    w('Inductive castkind : Type := %s.' % ' | '.join('K' + n for n, _, _ in casts))
    w('Definition castkind_all : list castkind := [%s].' % '; '.join('K' + n for n, _, _ in casts))
    w('Definition castkind_name (k : castkind) : string :=\n  match k with %s end.'
      % ' | '.join('K%s => %s' % (n, _coq_str(n)) for n, _, _ in casts))
    w('Definition cast_map (k : castkind) : ty * ty :=\n  match k with\n%s\n  end.'
      % '\n'.join('  | K%s => (%s, %s)' % c for c in casts))
    w('')
    w('(* ast/expressions.py: Expression.coercible *)')
    w('Definition coercible_scalar_pairs : list (ty * ty) := [%s].' % '; '.join(pairs))
    w('(* `ArrayType(self.type.el_type, const=<this>) == new_type` *)')
    w('Definition coercible_array_const : bool := %s.' % _bool(arr_const))
    w('')
    w('(* dataclass defaults / class-level `type` attributes *)')
    for k, v in defaults.items():
        w('Definition %s : bool := %s.' % (k, _bool(v)))
    w('Definition arithop_shrinkable_default : bool := %s.' % _bool(arith_shr))
    w('Definition arrayliteral_type_default : ty := %s.' % arrlit_ty)
    w('Definition funccall_type_default : ty := %s.' % funccall_ty)
    for n, t in lit_types:
        w('Definition type_of_%s : ty := %s.' % (n, t))
    w('')
    w('(* ast/operators.py: operator classes: family (bases), token, operate *)')
    w('Inductive opclass : Type := %s.' % ' | '.join('O' + n for n, *_ in ops))
    w('Definition opclass_all : list opclass := [%s].' % '; '.join('O' + n for n, *_ in ops))
    w('Definition opclass_name (c : opclass) : string :=\n  match c with %s end.'
      % ' | '.join('O%s => %s' % (n, _coq_str(n)) for n, *_ in ops))
    w('Inductive opfamily : Type := FamBinArith | FamUnArith | FamBinLogic | FamUnLogic | FamCompare | FamEquality.')
    w('Inductive foldfn : Type := %s.' % ' | '.join(ALL_FOLDFN))
    w('Definition op_family (c : opclass) : opfamily :=\n  match c with %s end.'
      % ' | '.join('O%s => %s' % (n, fam) for n, fam, *_ in ops))
    w('Definition op_token (c : opclass) : optoken :=\n  match c with %s end.'
      % ' | '.join('O%s => T_%s' % (n, tok) for n, _, tok, *_ in ops))
    w('Definition fold_op_table : list (opclass * foldfn) := %s.'
      % _clist(['(O%s, %s)' % (n, tag) for n, _, _, tag, _ in ops]))
    w('Definition fold_zero_msg : list (opclass * string) := %s.'
      % _clist(['(O%s, %s)' % (n, _coq_str(z)) for n, _, _, _, z in ops if z is not None]))
    w('')
    w('(* ast/program.py: builtin_stubs, in order: (name, flavour, parameter types, return type) *)')
    w('Definition builtin_sigs : list (string * flavor * list ty * dty) := %s.'
      % _clist(['(%s, FL_%s, [%s], %s)' % (_coq_str(n), fl, '; '.join(ps), ret) for n, fl, ps, ret in builtins]))
    w('')
    return {OUT: '\n'.join(o)}


def main(argv):
    repo = argv[1] if len(argv) > 1 else REPO
    try:
        files = generate(repo)
    except CannotTranslate as e:
        print('CannotTranslate: %s' % e)
        return 3
    for rel, text in files.items():
        changed = write_if_changed(os.path.join(VERIF, rel), text)
        print('%s %s' % ('wrote' if changed else 'unchanged', rel))
    return 0


if __name__ == '__main__':
    sys.exit(main(sys.argv))
