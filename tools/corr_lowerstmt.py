"""Correspondence check for the `lowerstmt` component (C01: statements, functions, whole programs of
a core fragment).

Ties the Coq model of hidc's code generator on the fragment F_stmt (coq/Codegen/LowerStmtModel.v:
gen_lines / gen_func / gen_stmts / gen_block / eval_func_call, extracted through
coq/Extract/ExtractLowerStmt.v, driven by ocaml/hidlowerstmt.ml) TEXTUALLY to the real compiler.

A random F_stmt program is

    empty @is_you(int a0, int a1, int a2) { ... }      int f1(int p0, ..) { ... }   empty f2(..) { ... }  ...

whose bodies are built from int / bool declarations, assignments and compound assignments,
divisions `x = a / b`, `x %= b` (checked build: division guard), calls of the program's functions
(recursion included) as statements, initialisers and right-hand sides, `return;` / `return e;`,
write(<byte>), write / writeln of ints and bools (runtime library), writeln(), if / else (if),
while, for, break, continue and nested blocks with their own locals; expressions come from the
int-operand / boolean fragment of `lowerbool`.  The real front end type-checks the program; the
CHECKED trees of the function bodies are turned into the model's input (so constant folding,
truncation of unreachable statements, the for-loop desugaring, the appended `return;` and the
resolution of names are the front end's); hidc compiles it (checked build) at each word size; the
WHOLE OUTPUT from `%section state` to the start of the runtime library -- state section, every
function in generation order with its label, entry stack guard (constant included), statements
and returns; comment lines dropped -- is compared LINE BY LINE, labels included, with the model's
`state_section` and `lower_program`.

BEHAVIOUR (the statement of the program theorem, run): for a sample of the programs, argument
values and stack sizes, hidc's output is assembled (tools/sasm.py) and run on the verified VM
(ocaml/hidvm), and the output bytes and end flags (win | division_by_zero, error |
stack_overflow, error) are compared with what the extracted SOURCE SEMANTICS (LowerStmtSem.icall,
the interpreter proved sound for callf, with its stack accounting) computes on the checked trees.
Only runs the program theorem covers are compared: the static check run_ok_b holds (scoping, literals
that are words at this word size, sizes) and the interpreter ends within its fuel.

Stand-alone:  python tools/corr_lowerstmt.py --tier quick --seed 0
"""
import argparse, collections, json, os, random, re, shutil, subprocess, sys, time
sys.path.insert(0, os.path.dirname(os.path.abspath(__file__)))
from common import REPO, VERIF, CannotTranslate, write_if_changed

COQ_DEPS = ['Sphinx/Machine.vo', 'Sphinx/AsmText.vo', 'Sphinx/WordLemmas.vo', 'Gen/GenTables.vo', 'Gen/GenEscape.vo',
            'Codegen/OpTables.vo', 'Codegen/DecimalSpec.vo', 'Codegen/StdlibBool.vo', 'Codegen/LowerBoolProofs.vo']
COQ_FILES = ['Codegen/LowerBoolModel.v', 'Codegen/LowerStmtModel.v', 'Codegen/LowerStmtSem.v', 'Extract/ExtractLowerStmt.v']
RULE = ('for every generated F_stmt program and word size, the text hidc emits from `%section state` to the start '
        'of the runtime library (state section; every generated function in generation order: label, entry stack '
        'guard with its constant, statements, returns; comments dropped) equals, line for line and label for label, '
        'print_dline of the extracted Coq model state_section followed by print_aline of lower_program run on the '
        'checked trees of the function bodies; and for the sampled runs (arguments, stack sizes) the output bytes '
        'and end flags of hidc\'s assembled output on the verified VM equal those the extracted source semantics '
        '(icall) computes')
STACK = 64

CMP = {'lt': '<', 'gt': '>', 'le': '<=', 'ge': '>=', 'eq': '==', 'ne': '!='}
AOPS = {'add': '+', 'sub': '-', 'mul': '*'}
DOPS = {'div': '/', 'mod': '%'}
GRID = [0, 1, -1, 2, 3, 5, 10, 127, 128, -128, 255, 256, 32767, 32768, -32768, -32769, 65535, 65536, 2147483647, -2147483648]
CHARS = [chr(c) for c in range(32, 127) if chr(c) not in "'\\"] + ['\\n', "\\'", '\\\\']


# ------------------------------------------------------------------------------------ generation
# statements (trees with NAMES):
#   ('decli', name, A) ('assi', name, A) ('inc', name, op, A) ('declb', name, E) ('assb', name, E)
#   ('write', ('chr', text) | ('lit', z) | ('byte', A)) ('writeln',)
#   ('if', E, [S], [S] | None) ('while', E, [S]) ('for', S | None, E | None, S | None, [S])
#   ('block', [S]) ('break',) ('continue',)
#   ('decldiv', name, op, A, A) ('assdiv', name, op, A, A) ('incdiv', name, op, A)
#   ('call', None | ('decl', name) | ('assign', name), fname, [A])  ('return', A | None)
# a program: [(name, 'int' | 'empty', [param names], [S])], the entry point first
# A ::= ('v', name) | ('n', z) | ('ar', op, A, A) | ('un', 'neg'|'pos', A)
# E ::= ('lit', bool) | ('bv', name) | ('cmp', op, A, A) | ('not', E) | ('and', E, E) | ('or', E, E)
def has_var(a):
    return a[0] in ('v', 'bi', 'lo') or any(has_var(x) for x in a[1:] if isinstance(x, tuple))


class Gen:
    def __init__(self, rng, maxdepth, sigs=(), ret=None, globs=(), bglobs=()):
        self.globs = list(globs)        # int globals: read and assigned like variables; may be shadowed once
        self.bglobs = list(bglobs)      # bool globals, likewise
        self.shadowed = set()
        self.bools_now = []             # the bool locals in scope where an operand is being generated
        self.rng = rng
        self.maxdepth = maxdepth
        self.n = 0
        self.sigs = list(sigs)          # callable functions: (name, 'int' | 'empty', number of parameters)
        self.ret = ret                  # None: no return statements; 'int' / 'empty': kind of the function

    def call(self, ints, bools, allow_decl):
        name, rt, np = self.rng.choice(self.sigs)
        args = [self.opd_push(ints, 1) for _ in range(np)]
        r = self.rng.random()
        if rt == 'int' and allow_decl and r < 0.4:
            x = self.fresh('x')
            return ('call', ('decl', x), name, args), ints + [x], bools
        if rt == 'int' and r < 0.75:
            return ('call', ('assign', self.rng.choice(ints)), name, args), ints, bools
        return ('call', None, name, args), ints, bools

    def division(self, ints, bools, allow_decl):
        op = self.rng.choice(list(DOPS))
        r = self.rng.random()
        a, b = self.opd(ints, 1), self.opd(ints, 1)
        if not has_var(a) and not has_var(b):                # the front end folds constants and rejects <const> / 0
            b = ('n', self.rng.choice([g for g in GRID if g != 0]))
        if allow_decl and r < 0.4:
            x = self.fresh('x')
            return ('decldiv', x, op, a, b), ints + [x], bools
        if r < 0.75:
            return ('assdiv', self.rng.choice(ints), op, a, b), ints, bools
        return ('incdiv', self.rng.choice(ints), op, b), ints, bools

    def opd_push(self, ints, depth=2, no_char=False):
        """an operand for a push context (declaration initialiser, call / write argument): no `tr` at the root;
        no_char: write('a') writes the byte, so a bare char literal is not an int there"""
        while True:
            a = self.opd(ints, depth)
            if a[0] != 'tr' and not (no_char and a[0] == 'c'):
                return a

    def fresh(self, prefix):
        self.n += 1
        return '%s%d' % (prefix, self.n)

    def opd(self, ints, depth=2):
        r = self.rng.random()
        if self.bools_now and r < 0.12:                     # a bool local read as an int: (q is byte) is int
            return ('bi', self.rng.choice(self.bools_now))
        if self.rng.random() < 0.05:                        # a char literal used as an int
            return ('c', self.rng.choice(CHARS))
        if depth > 0 and self.rng.random() < 0.07:          # (e is byte) is int for a global / a computed value
            inner = self.opd(ints, depth - 1)
            if inner[0] in ('ar', 'un') or (inner[0] == 'v' and inner[1] in self.globs):
                return ('tr', inner)
        locs = [v for v in ints if v not in self.globs]
        if locs and self.rng.random() < 0.06:               # the low byte of an int local: (x is byte) is int
            return ('lo', self.rng.choice(locs))
        if depth > 0 and r < 0.2:
            return ('ar', self.rng.choice(list(AOPS)), self.opd(ints, depth - 1), self.opd(ints, depth - 1))
        if depth > 0 and r < 0.26:
            return ('un', 'neg' if self.rng.random() < 0.7 else 'pos', self.opd(ints, depth - 1))
        if ints and r < 0.72:
            return ('v', self.rng.choice(ints))
        return ('n', self.rng.choice(GRID))

    def bexp(self, ints, bools, depth):
        self.bools_now = [b for b in bools if b not in self.bglobs]
        r = self.rng.random()
        if depth <= 0 or r < 0.4:
            r2 = self.rng.random()
            if bools and r2 < 0.25:
                return ('bv', self.rng.choice(bools))
            if r2 < 0.3:
                return ('lit', self.rng.random() < 0.5)
            return ('cmp', self.rng.choice(list(CMP)), self.opd(ints), self.opd(ints))
        if r < 0.52:
            return ('not', self.bexp(ints, bools, depth - 1))
        return ('and' if r < 0.76 else 'or', self.bexp(ints, bools, depth - 1), self.bexp(ints, bools, depth - 1))

    def simple(self, ints, bools, allow_decl=True):
        """one statement without control flow -> (stmt, ints', bools')"""
        self.bools_now = [b for b in bools if b not in self.bglobs]
        if not ints:                                         # a function without parameters: start with a local
            if not allow_decl:
                return ('writeln',), ints, bools
            name = self.fresh('x')
            return ('decli', name, self.opd_push(ints)), ints + [name], bools
        r = self.rng.random()
        if allow_decl and (self.globs or self.bglobs) and r < 0.03:   # a local that shadows a global (once per function)
            free = [g for g in self.globs + self.bglobs if g not in self.shadowed]
            if free:
                name = self.rng.choice(free)
                self.shadowed.add(name)
                if name in self.bglobs:
                    return ('declb', name, self.bexp(ints, bools, 1)), ints, bools
                return ('decli', name, self.opd_push(ints)), ints, bools
        if self.sigs and r < 0.14:
            return self.call(ints, bools, allow_decl)
        if r < 0.22:
            return self.division(ints, bools, allow_decl)
        r = self.rng.random()
        if allow_decl and r < 0.18:
            name = self.fresh('x')                       # (hidc rejects shadowing: no redeclaration)
            return ('decli', name, self.opd_push(ints)), ints + [name], bools
        if allow_decl and r < 0.28:
            name = self.fresh('q')
            return ('declb', name, self.bexp(ints, bools, self.rng.randint(0, 2))), ints, bools + [name]
        if r < 0.5:
            return ('assi', self.rng.choice(ints), self.opd(ints)), ints, bools
        if r < 0.6:
            return ('inc', self.rng.choice(ints), self.rng.choice(list(AOPS)), self.opd(ints)), ints, bools
        if bools and r < 0.7:
            return ('assb', self.rng.choice(bools), self.bexp(ints, bools, self.rng.randint(0, 2))), ints, bools
        if r < 0.95:
            k = self.rng.random()
            if k < 0.22:
                return ('writei', self.rng.random() < 0.4, self.opd_push(ints, no_char=True)), ints, bools
            if k < 0.36:
                return ('writeb', self.rng.random() < 0.4, self.bexp(ints, bools, self.rng.randint(0, 2))), ints, bools
            if k < 0.55:
                return ('write', ('chr', self.rng.choice(CHARS))), ints, bools
            if k < 0.5:
                return ('write', ('lit', self.rng.choice([0, 1, 65, 127, 128, 255]))), ints, bools
            return ('write', ('byte', self.opd(ints))), ints, bools
        return ('writeln',), ints, bools

    def block(self, ints, bools, depth, in_loop, maxlen=4):
        out = []
        ints, bools = list(ints), list(bools)
        for _ in range(self.rng.randint(0, maxlen)):
            self.bools_now = [b for b in bools if b not in self.bglobs]
            r = self.rng.random()
            if depth > 0 and r < 0.16:
                els = None
                if self.rng.random() < 0.6:
                    els = self.block(ints, bools, depth - 1, in_loop, 3)
                    if self.rng.random() < 0.2:                       # else if
                        els = [('if', self.bexp(ints, bools, 1), self.block(ints, bools, depth - 1, in_loop, 2), None)]
                out.append(('if', self.bexp(ints, bools, self.rng.randint(0, 2)), self.block(ints, bools, depth - 1, in_loop, 3), els))
            elif depth > 0 and r < 0.24:
                out.append(('while', self.bexp(ints, bools, self.rng.randint(0, 2)), self.block(ints, bools, depth - 1, True, 3)))
            elif depth > 0 and r < 0.31:
                init, i2, b2 = (None, ints, bools)
                if self.rng.random() < 0.8:
                    name = self.fresh('i')
                    init, i2 = ('decli', name, self.opd_push(ints)), ints + [name]
                cond = self.bexp(i2, b2, 1) if self.rng.random() < 0.9 else None
                cont = None
                if i2 and self.rng.random() < 0.85:
                    cont = ('inc', self.rng.choice(i2), self.rng.choice(['add', 'sub']), self.opd(i2, 1))
                out.append(('for', init, cond, cont, self.block(i2, b2, depth - 1, True, 3)))
            elif depth > 0 and r < 0.37:
                out.append(('block', self.block(ints, bools, depth - 1, in_loop, 3)))
            elif in_loop and r < 0.43:
                out.append((self.rng.choice(['break', 'continue']),))
                break                                                   # nothing reachable follows
            elif self.ret and r < 0.47:
                out.append(('return', self.opd(ints, 1) if self.ret == 'int' else None))
                break
            else:
                s, ints, bools = self.simple(ints, bools)
                out.append(s)
        return out

    def body(self, params, maxlen=7):
        ss = self.block(list(params) + self.globs, list(self.bglobs), self.maxdepth, False, maxlen)
        self.bools_now = []
        if self.ret == 'int' and not (ss and ss[-1][0] == 'return'):
            ss.append(('return', self.opd(list(params), 1)))
        return ss


def gen_program(rng, maxdepth):
    """the entry point and 0..3 helper functions f1.. (any of them may call any helper)"""
    nf = rng.choice([0, 0, 1, 2, 2, 3])
    sigs = [('f%d' % k, rng.choice(['int', 'int', 'empty']), rng.randint(0, 3)) for k in range(1, nf + 1)]
    globs = [('g%d' % k, rng.choice([0, 1, 5, -3, 100, 127])) for k in range(rng.choice([0, 0, 1, 2]))]
    gnames = [g for g, _ in globs]
    bglobs = [('h%d' % k, rng.random() < 0.5) for k in range(rng.choice([0, 0, 1, 2]))]
    bnames = [g for g, _ in bglobs]
    prog = [('is_you', 'empty', ['a0', 'a1', 'a2'],
             Gen(rng, maxdepth, sigs, rng.choice([None, 'empty']), gnames, bnames).body(['a0', 'a1', 'a2']), globs, bglobs)]
    for (name, rt, np) in sigs:
        params = ['p%d' % i for i in range(np)]
        prog.append((name, rt, params, Gen(rng, max(1, maxdepth - 1), sigs, rt, gnames, bnames).body(params, 5)))
    return prog


def opd_src(a):
    if a[0] == 'v':
        return a[1]
    if a[0] == 'n':
        return str(a[1]) if a[1] >= 0 else '(%d)' % a[1]
    if a[0] in ('bi', 'lo'):
        return '((%s is byte) is int)' % a[1]
    if a[0] == 'tr':
        return '((%s is byte) is int)' % opd_src(a[1])
    if a[0] == 'c':
        return "'%s'" % a[1]
    if a[0] == 'un':
        return '(%s%s)' % ('-' if a[1] == 'neg' else '+', opd_src(a[2]))
    return '(%s %s %s)' % (opd_src(a[2]), AOPS[a[1]], opd_src(a[3]))


def bexp_src(e):
    k = e[0]
    if k == 'lit':
        return 'true' if e[1] else 'false'
    if k == 'bv':
        return e[1]
    if k == 'cmp':
        return '(%s %s %s)' % (opd_src(e[2]), CMP[e[1]], opd_src(e[3]))
    if k == 'not':
        return '(not %s)' % bexp_src(e[1])
    return '(%s %s %s)' % (bexp_src(e[1]), k, bexp_src(e[2]))


def simple_src(s):
    k = s[0]
    if k == 'decli':
        return 'int %s = %s' % (s[1], opd_src(s[2]))
    if k == 'assi':
        return '%s = %s' % (s[1], opd_src(s[2]))
    if k == 'inc':
        return '%s %s= %s' % (s[1], AOPS[s[2]], opd_src(s[3]))
    if k == 'declb':
        return 'bool %s = %s' % (s[1], bexp_src(s[2]))
    if k == 'assb':
        return '%s = %s' % (s[1], bexp_src(s[2]))
    if k == 'write':
        x = s[1]
        if x[0] == 'chr':
            return "write('%s')" % x[1]
        if x[0] == 'lit':
            return 'write(%d is byte)' % x[1]
        return 'write(%s is byte)' % opd_src(x[1])
    if k == 'writeln':
        return 'writeln()'
    if k == 'writei':
        return '%s(%s)' % ('writeln' if s[1] else 'write', opd_src(s[2]))
    if k == 'writeb':
        return '%s(%s)' % ('writeln' if s[1] else 'write', bexp_src(s[2]))
    if k == 'decldiv':
        return 'int %s = %s %s %s' % (s[1], opd_src(s[3]), DOPS[s[2]], opd_src(s[4]))
    if k == 'assdiv':
        return '%s = %s %s %s' % (s[1], opd_src(s[3]), DOPS[s[2]], opd_src(s[4]))
    if k == 'incdiv':
        return '%s %s= %s' % (s[1], DOPS[s[2]], opd_src(s[3]))
    if k == 'call':
        c = '%s(%s)' % (s[2], ', '.join(opd_src(a) for a in s[3]))
        if s[1] is None:
            return c
        return ('int %s = %s' if s[1][0] == 'decl' else '%s = %s') % (s[1][1], c)
    if k == 'return':
        return 'return' if s[1] is None else 'return %s' % opd_src(s[1])
    raise ValueError(s)


def stmt_src(s):
    k = s[0]
    if k == 'if':
        t = 'if (%s) %s' % (bexp_src(s[1]), block_src(s[2]))
        if s[3] is None:
            return t
        if len(s[3]) == 1 and s[3][0][0] == 'if':
            return t + ' else ' + stmt_src(s[3][0])
        return t + ' else ' + block_src(s[3])
    if k == 'while':
        return 'while (%s) %s' % (bexp_src(s[1]), block_src(s[2]))
    if k == 'for':
        return 'for (%s; %s; %s) %s' % (simple_src(s[1]) if s[1] else '', bexp_src(s[2]) if s[2] else '',
                                        simple_src(s[3]) if s[3] else '', block_src(s[4]))
    if k == 'block':
        return block_src(s[1])
    if k in ('break', 'continue'):
        return k + ';'
    return simple_src(s) + ';'


def block_src(ss):
    return '{ ' + ' '.join(stmt_src(s) for s in ss) + (' ' if ss else '') + '}'


def program_src(prog):
    out = ['int %s = %s;' % (g, v if v >= 0 else '(%d)' % v) for (g, v) in (prog[0][4] if len(prog[0]) > 4 else [])]
    out += ['bool %s = %s;' % (g, 'true' if v else 'false') for (g, v) in (prog[0][5] if len(prog[0]) > 5 else [])]
    for (name, rt, params, ss) in [f[:4] for f in prog[1:] + prog[:1]]:   # helpers first, entry point last
        out.append('%s %s%s(%s) %s' % (rt, '@' if name == 'is_you' else '', name,
                                       ', '.join('int ' + q for q in params), block_src(ss)))
    return '\n'.join(out) + '\n'


def count_nodes(ss, out):
    for s in ss:
        out[s[0]] += 1
        if s[0] == 'if':
            count_nodes(s[2], out)
            count_nodes(s[3] or [], out)
        elif s[0] == 'while':
            count_nodes(s[2], out)
        elif s[0] == 'for':
            count_nodes(s[4], out)
        elif s[0] == 'block':
            count_nodes(s[1], out)


def nest_depth(ss):
    d = 0
    for s in ss:
        subs = {'if': [s[2], s[3] or []] if s[0] == 'if' else None, 'while': [s[2]] if s[0] == 'while' else None,
                'for': [s[4]] if s[0] == 'for' else None, 'block': [s[1]] if s[0] == 'block' else None}.get(s[0])
        if subs:
            d = max(d, 1 + max(nest_depth(x) for x in subs))
    return d


def prog_depth(prog):
    return max(nest_depth(f[3]) for f in prog)


# ------------------------------------------------------------------------------------ impl side
class Outside(Exception):
    pass


class Scope:
    """names -> indices; int and bool locals numbered separately in declaration order"""
    def __init__(self):
        self.frames = [{}]
        self.ni = self.nb = 0

    def push(self):
        self.frames.append({})
        return (self.ni, self.nb)

    def pop(self, saved):
        self.frames.pop()
        self.ni, self.nb = saved

    def declare(self, name, kind):
        if kind == 'i':
            self.frames[-1][name] = ('i', self.ni)
            self.ni += 1
            return self.ni - 1
        self.frames[-1][name] = ('b', self.nb)
        self.nb += 1
        return self.nb - 1

    def lookup(self, name):
        for f in reversed(self.frames):
            if name in f:
                return f[name]
        raise Outside('variable ' + name)


def convert_func(func, mods):
    """checked function -> the model's s-expression (fun <nparams> S ...)"""
    A, O, B, S, DT = mods
    cmp_names = {O.Lt: 'lt', O.Gt: 'gt', O.Le: 'le', O.Ge: 'ge', O.Eq: 'eq', O.Ne: 'ne'}
    ar_names = {O.Add: 'add', O.Sub: 'sub', O.Mul: 'mul'}
    div_names = {O.Div: 'div', O.Mod: 'mod'}
    sc = Scope()
    for prm in func.params:
        if prm.var.type != DT.INT:
            raise Outside('parameter type')
        sc.declare(str(prm.var.name), 'i')

    def gidx(name):
        if name[:1] in ('g', 'h') and name[1:].isdigit():
            return int(name[1:])
        raise Outside('variable ' + name)

    def var(name):
        """('i'|'b', index) of a local, or ('g', index) of an int global (locals shadow globals)"""
        try:
            return sc.lookup(name)
        except Outside:
            return (name[:1], gidx(name))      # 'g': an int global, 'h': a bool global

    def fidx(name):
        if name.startswith('f') and name[1:].isdigit():
            return int(name[1:])
        raise Outside('call ' + name)

    def opd(o):
        T = type(o)
        if T is A.IntValue or T is A.ByteValue:             # (a byte literal: the right-hand side of `x op= 'c'`)
            if o.is_char and 0 <= o.data <= 255:
                return '(c %d)' % o.data                     # printed as a char literal
            return '(n %d)' % o.data
        if T is A.VariableLookup:
            k, i = var(str(o.var.name))
            if k == 'g':
                return '(glob %d)' % i
            if k != 'i':
                raise Outside('non-int variable in int expression')
            return '(i %d)' % i
        if T is A.ByteToInt and type(o.expr) is A.BoolToByte and type(o.expr.expr) is A.VariableLookup:
            k, j = var(str(o.expr.expr.var.name))            # (q is byte) is int, q a bool local
            if k != 'b':
                raise Outside('byte read of a non-local')
            return '(byte %d)' % j
        if T is A.ByteToInt and type(o.expr) is A.IntToByte and type(o.expr.expr) is A.VariableLookup:
            k, i = var(str(o.expr.expr.var.name))            # (x is byte) is int, x an int local
            if k == 'g':
                return '(trunc (glob %d))' % i               # an int global: StateByte
            if k != 'i':
                raise Outside('low byte of a non-local')
            return '(low %d)' % i
        if T is A.ByteToInt and type(o.expr) is A.IntToByte:
            inner = o.expr.expr                              # (e is byte) is int: e a global or computed
            if type(inner) in ar_names or type(inner) in (O.Neg, O.Pos) or \
                    (type(inner) is A.VariableLookup and var(str(inner.var.name))[0] == 'g'):
                return '(trunc %s)' % opd(inner)
            raise Outside('byte cast of ' + type(inner).__name__)
        if T in ar_names:
            return '(ar %s %s %s)' % (ar_names[T], opd(o.left), opd(o.right))
        if T in (O.Neg, O.Pos):
            return '(un %s %s)' % ('neg' if T is O.Neg else 'pos', opd(o.arg))
        raise Outside('operand ' + T.__name__)

    def bexp(x):
        T = type(x)
        if T is A.BoolValue:
            return '(lit %d)' % (1 if x.data else 0)
        if T is A.VariableLookup:
            k, j = var(str(x.var.name))
            if k == 'h':
                return '(bglob %d)' % j
            if k != 'b':
                raise Outside('non-bool variable in bool expression')
            return '(bvar %d)' % j
        if T in cmp_names:
            if x.left.type != DT.INT or x.right.type != DT.INT:
                raise Outside('comparison of non-ints')
            return '(cmp %s %s %s)' % (cmp_names[T], opd(x.left), opd(x.right))
        if T is O.Not:
            return '(not %s)' % bexp(x.arg)
        if T is O.And:
            return '(and %s %s)' % (bexp(x.left), bexp(x.right))
        if T is O.Or:
            return '(or %s %s)' % (bexp(x.left), bexp(x.right))
        raise Outside('boolean ' + T.__name__)

    def user_call(x):
        """(f, args) if x is a call of one of the program's functions"""
        if isinstance(x, A.FuncCall) and str(x.func) not in ('write', 'writeln'):
            args = [opd(a) for a in x.args]
            if any(a.startswith('(trunc ') for a in args):
                raise Outside('byte cast of a computed value as an argument')
            return fidx(str(x.func)), ' '.join(args)
        return None

    def block(b):
        """a Block in block position (if / loop bodies): the list of its statements"""
        if isinstance(b, B.CodeBlock):
            saved = sc.push()
            r = stmts(b.stmts)
            sc.pop(saved)
            return r
        return stmt(b)                                        # e.g. `else if`: a bare IfBlock

    def stmt(s):
        if isinstance(s, S.Declaration):
            name = str(s.var.name)
            if s.var.type == DT.INT:
                uc = user_call(s.init)
                if uc:
                    r = '(call decl %d %s)' % uc
                elif type(s.init) in div_names:
                    r = '(decldiv %s %s %s)' % (div_names[type(s.init)], opd(s.init.left), opd(s.init.right))
                else:
                    r = '(decli %s)' % opd(s.init)
                    if r.startswith('(decli (trunc '):
                        raise Outside('byte cast of a computed value as an initialiser')
                sc.declare(name, 'i')
                return r
            if s.var.type == DT.BOOL:
                r = '(declb %s)' % bexp(s.init)
                sc.declare(name, 'b')
                return r
            raise Outside('declaration of ' + str(s.var.type))
        if isinstance(s, S.IncAssignment):
            if not isinstance(s.lookup, A.VariableLookup):
                raise Outside('compound assignment')
            k, i = var(str(s.lookup.var.name))
            if k == 'g':
                if s.bin_op in div_names:
                    return '(assgdiv %d %s (glob %d) %s)' % (i, div_names[s.bin_op], i, opd(s.expr))
                if s.bin_op not in ar_names:
                    raise Outside('compound assignment')
                return '(assg %d (ar %s (glob %d) %s))' % (i, ar_names[s.bin_op], i, opd(s.expr))
            if k != 'i':
                raise Outside('compound assignment to non-int')
            if s.bin_op in div_names:
                return '(assdiv %d %s (i %d) %s)' % (i, div_names[s.bin_op], i, opd(s.expr))
            if s.bin_op not in ar_names:
                raise Outside('compound assignment')
            return '(assi %d (ar %s (i %d) %s))' % (i, ar_names[s.bin_op], i, opd(s.expr))
        if isinstance(s, S.Assignment):
            if not isinstance(s.lookup, A.VariableLookup):
                raise Outside('assignment target')
            k, i = var(str(s.lookup.var.name))
            if k == 'g':
                uc = user_call(s.expr)
                if uc:
                    return '(call assigng %d %d %s)' % ((i,) + uc)
                if type(s.expr) in div_names:
                    return '(assgdiv %d %s %s %s)' % (i, div_names[type(s.expr)], opd(s.expr.left), opd(s.expr.right))
                return '(assg %d %s)' % (i, opd(s.expr))
            if k == 'i':
                uc = user_call(s.expr)
                if uc:
                    return '(call assign %d %d %s)' % ((i,) + uc)
                if type(s.expr) in div_names:
                    return '(assdiv %d %s %s %s)' % (i, div_names[type(s.expr)], opd(s.expr.left), opd(s.expr.right))
                return '(assi %d %s)' % (i, opd(s.expr))
            if k == 'h':
                return '(assbg %d %s)' % (i, bexp(s.expr))
            return '(assb %d %s)' % (i, bexp(s.expr))
        if isinstance(s, A.FuncCall):
            name = str(s.func)
            if name == 'writeln' and not s.args:
                return '(writeln)'
            if name in ('write', 'writeln') and len(s.args) == 1 and s.args[0].type == DT.INT:
                a0 = opd(s.args[0])
                if a0.startswith('(trunc '):
                    raise Outside('byte cast of a computed value as an argument')
                return '(writei %d %s)' % (1 if name == 'writeln' else 0, a0)
            if name in ('write', 'writeln') and len(s.args) == 1 and s.args[0].type == DT.BOOL:
                return '(writeb %d %s)' % (1 if name == 'writeln' else 0, bexp(s.args[0]))
            if name == 'write' and len(s.args) == 1:
                x = s.args[0]
                if type(x) is A.ByteValue:
                    return '(write (chr %d))' % x.data if (x.is_char and 0 <= x.data <= 255) else '(write (lit %d))' % x.data
                if type(x) is A.IntToByte:
                    return '(write (byte %s))' % opd(x.expr)
                raise Outside('write of ' + type(x).__name__)
            return '(call none %d %s)' % user_call(s)
        if isinstance(s, B.IfBlock):
            return '(if %s (%s) (%s))' % (bexp(s.cond), block(s.body), block(s.else_block))
        if isinstance(s, B.LoopBlock):
            return '(while %s (%s) (%s))' % (bexp(s.cond), block(s.body), block(s.cont))
        if isinstance(s, B.CodeBlock):
            return '(block %s)' % block(s)
        if isinstance(s, S.BreakStatement):
            return '(break)'
        if isinstance(s, S.ContinueStatement):
            return '(continue)'
        if isinstance(s, S.ReturnStatement):
            return '(return)' if s.value is None else '(return %s)' % opd(s.value)
        raise Outside('statement ' + type(s).__name__)

    def stmts(l):
        return ' '.join(stmt(s) for s in l)

    return '(fun %d %s)' % (len(func.params), stmts(func.body.stmts))


def impl_run(src, w):
    """-> ('ok', [lines of hidc], None, model_line, [where]) | ('outside', why) | ('error', why)"""
    from hidc.lexer import SourceCode
    from hidc.parser import parse
    from hidc.ast import Environment, DataType
    from hidc.ast import expressions as A, operators as O, blocks as B, statements as S
    from hidc.codegen import CodeGen
    from hidc.errors import CompilerError
    try:
        env = Environment.empty()
        prog = parse(SourceCode.from_string(src)).evaluate(env)
        cg = CodeGen(env, word_size=w, stack_size=STACK, unchecked=False)
        lines = list(cg.gen_lines())
    except CompilerError as e:
        return ('error', '%s: %s' % (type(e).__name__, str(e).split('\n')[0][:100]))
    except Exception as e:                                  # noqa
        return ('error', 'internal %s: %s' % (type(e).__name__, str(e)[:100]))
    try:
        funs = {}
        for f in prog.func_decls:
            name = str(f.name).lstrip('@')
            funs[0 if name == 'is_you' else int(name[1:])] = convert_func(f, (A, O, B, S, DataType))
        nf = max(funs) + 1
        # functions the program does not define never occur in calls; keep the numbering dense
        sx = ' '.join(funs.get(k, '(fun 0 (return))') for k in range(nf))
    except Outside as e:
        return ('outside', str(e))
    body, where, state, last = [], [], 0, ''
    for ln in lines:
        t = ln.strip()
        if state == 0:
            if t == b'%section state':
                state = 1
        elif state == 1:
            if t == b'%section const':
                state = 2
            else:
                body.append(t.decode())
                where.append('state section')
        elif state == 2:
            if t == b'%section code':
                state = 3
                body.append('%section code')
                where.append('')
            else:
                return ('outside', 'const section not empty')
        else:
            if t.startswith(b';'):
                if t.startswith(b'; Statement @') or t.startswith(b'; Function'):
                    last = t.decode()
                continue
            if t == b'all_is_win:':
                break
            body.append(t.decode())
            where.append(last)
    import re as _re
    gi = {}
    for mm in _re.finditer(r'^int g(\d+) = \(?(-?\d+)\)?;', src, _re.M):
        gi[int(mm.group(1))] = int(mm.group(2))
    ginit = ' '.join(str(gi.get(k, 0)) for k in range(max(gi) + 1)) if gi else ''
    bi = {}
    for mm in _re.finditer(r'^bool h(\d+) = (true|false);', src, _re.M):
        bi[int(mm.group(1))] = 1 if mm.group(2) == 'true' else 0
    binit = ' '.join(str(bi.get(k, 0)) for k in range(max(bi) + 1)) if bi else ''
    return ('ok', body, None, 'prog %d %d (ginit %s) (binit %s) %s' % (w, STACK, ginit, binit, sx), where)


# ------------------------------------------------------------------------------------ model side
def _stale(out, srcs):
    try:
        t = os.path.getmtime(out)
    except OSError:
        return True
    return any(os.path.exists(s) and os.path.getmtime(s) >= t for s in srcs)


def build_model(workdir, log):
    """regenerate Gen/GenTables.v from REPO (recompiling it and OpTables.v only if the text changed),
    compile the models and the extraction when stale, build the driver in workdir -> path of the
    executable.  (No flock here: under ./check the caller holds /verif/.work/build.lock; stand-alone,
    run under `flock /verif/.work/build.lock`.)"""
    import regen
    coq = os.path.join(VERIF, 'coq')

    def coqc(f):
        p = subprocess.run(['timeout', '900', 'coqc', '-Q', '.', 'HidV', f], cwd=coq, capture_output=True, text=True)
        if p.returncode != 0:
            raise RuntimeError('coqc %s failed:\n%s' % (f, (p.stderr or p.stdout)[-1500:]))
        log.append('compiled ' + f)

    text = regen.gen_tables(REPO)                          # may raise CannotTranslate
    if write_if_changed(os.path.join(VERIF, 'coq/Gen/GenTables.v'), text):
        log.append('regenerated coq/Gen/GenTables.v')
        coqc('Gen/GenTables.v')
        coqc('Codegen/OpTables.v')
    prev = [os.path.join(coq, d) for d in COQ_DEPS]
    core = os.path.join(VERIF, 'ocaml', 'hidlowerstmt_core.ml')
    for f in COQ_FILES:
        src = os.path.join(coq, f)
        if _stale(src + 'o', [src] + prev) or (f.startswith('Extract/') and not os.path.exists(core)):
            coqc(f)
        prev.append(src + 'o')
    os.makedirs(workdir, exist_ok=True)
    oc = os.path.join(VERIF, 'ocaml')
    for f in ('hidlowerstmt_core.ml', 'hidlowerstmt_core.mli', 'hidlowerstmt.ml'):
        shutil.copy(os.path.join(oc, f), os.path.join(workdir, f))
    p = subprocess.run(['timeout', '300', 'ocamlfind', 'ocamlopt', 'hidlowerstmt_core.mli', 'hidlowerstmt_core.ml',
                        'hidlowerstmt.ml', '-o', 'hidlowerstmt'], cwd=workdir, capture_output=True, text=True)
    if p.returncode != 0:
        raise RuntimeError('ocaml build failed:\n' + (p.stderr or p.stdout)[-1500:])
    return os.path.join(workdir, 'hidlowerstmt')


def model_all(exe, lines):
    if not lines:
        return []
    p = subprocess.run([exe], input='\n'.join(lines) + '\n', capture_output=True, text=True, timeout=900)
    out = p.stdout.split('\n')
    if out and out[-1] == '':
        out.pop()
    if p.returncode != 0 or len(out) != len(lines):
        raise RuntimeError('model driver failed (%d lines for %d inputs): %s' % (len(out), len(lines), p.stderr[-500:]))
    return out


# ------------------------------------------------------------------------------------ comparison
def compare(impl, model_text):
    """-> (lines compared, first difference | None)"""
    _, body, guard, _, where = impl
    if model_text.startswith('ERROR'):
        return 0, {'model': model_text, 'impl': '', 'where': 'model driver'}
    want = model_text.split('\t')
    if body != want:
        i = 0
        while i < min(len(body), len(want)) and body[i] == want[i]:
            i += 1
        return len(body), {'line': i, 'model': want[i] if i < len(want) else '<end>',
                           'impl': body[i] if i < len(body) else '<end>',
                           'where': where[i] if i < len(where) else '<end of function>',
                           'model_len': len(want), 'impl_len': len(body)}
    return len(body), None


def check_one(exe, prog, w):
    r = impl_run(program_src(prog), w)
    if r[0] != 'ok':
        return r[0], 0, r[1]
    n, d = compare(r, model_all(exe, [r[3]])[0])
    return 'ok', n, d


def shrink_candidates(ss):
    """smaller statement lists: drop a statement, splice a sub-block, simplify a nested block"""
    for i, s in enumerate(ss):
        yield ss[:i] + ss[i + 1:]
        k = s[0]
        subs = []
        if k == 'if':
            subs = [(2, s[2])] + ([(3, s[3])] if s[3] is not None else [])
            if s[3] is not None:
                yield ss[:i] + [('if', s[1], s[2], None)] + ss[i + 1:]
        elif k == 'while':
            subs = [(2, s[2])]
        elif k == 'for':
            subs = [(4, s[4])]
        elif k == 'block':
            subs = [(1, s[1])]
        for pos, sub in subs:
            if k in ('if', 'block'):
                yield ss[:i] + sub + ss[i + 1:]
            for c in shrink_candidates(sub):
                t = list(s)
                t[pos] = c
                yield ss[:i] + [tuple(t)] + ss[i + 1:]


def prog_candidates(prog):
    """smaller programs: shrink one function body (the last `return e;` of an int function stays)"""
    for k in range(len(prog) - 1, 0, -1):                             # a helper nobody calls can go
        yield prog[:k] + prog[k + 1:]
    for k in range(len(prog) - 1, -1, -1):
        name, rt, params, ss = prog[k][:4]
        for q in shrink_candidates(ss):
            if rt == 'int' and not (q and q[-1][0] == 'return'):
                continue
            yield prog[:k] + [(name, rt, params, q) + tuple(prog[k][4:])] + prog[k + 1:]


def shrink(exe, ss, w, budget=250):
    def bad(q):
        st, _, d = check_one(exe, q, w)
        return st == 'ok' and d is not None
    changed = True
    while changed and budget > 0:
        changed = False
        for q in prog_candidates(ss):
            budget -= 1
            if budget <= 0:
                break
            if bad(q):
                ss, changed = q, True
                break
    return ss


def shrink_failing(ss, w, status, budget=120):
    """smallest program on which the compiler still fails with the same status"""
    def sig(q):
        r = impl_run(program_src(q), w)
        return (r[0], r[1][:40]) if r[0] != 'ok' else ('ok', '')
    want = sig(ss)
    changed = True
    while changed and budget > 0:
        changed = False
        for q in prog_candidates(ss):
            budget -= 1
            if budget <= 0:
                break
            if sig(q) == want:
                ss, changed = q, True
                break
    return ss


# ------------------------------------------------------------------------------------ inputs
def directed():
    """small systematic programs: every statement kind alone and in each nesting position, in the
    entry point and in helper functions"""
    x = ('v', 'a0')
    vb, vc = ('v', 'a1'), ('v', 'a2')
    one = ('n', 1)
    atoms = [
        ('decli', 'x', ('ar', 'add', x, one)), ('decli', 'x', ('n', 3)), ('decli', 'x', vb),
        ('decli', 'x', ('ar', 'mul', ('ar', 'add', x, one), ('ar', 'sub', vb, vc))),
        ('assi', 'a0', ('ar', 'mul', x, ('n', 2))), ('assi', 'a1', ('n', 7)), ('assi', 'a2', x), ('inc', 'a0', 'add', vb),
        ('inc', 'a2', 'mul', ('un', 'neg', ('v', 'a0'))),
        ('declb', 'p', ('cmp', 'lt', x, vb)), ('declb', 'p', ('lit', True)), ('declb', 'p', ('not', ('cmp', 'eq', x, one))),
        ('write', ('chr', 'A')), ('write', ('chr', '\\n')), ('write', ('chr', "\\'")), ('write', ('chr', '\\\\')),
        ('write', ('lit', 66)), ('write', ('byte', x)), ('write', ('byte', ('ar', 'add', x, ('n', 65)))),
        ('write', ('byte', ('un', 'neg', x))), ('writeln',),
        ('writei', False, x), ('writei', True, ('ar', 'add', x, ('ar', 'mul', vb, vc))), ('writei', False, ('n', 7)),
        ('writeb', False, ('cmp', 'lt', x, vb)), ('writeb', True, ('not', ('cmp', 'eq', x, one))), ('writeb', False, ('lit', True)),
        ('writeb', True, ('and', ('cmp', 'lt', ('ar', 'add', x, one), ('ar', 'mul', vb, vc)), ('cmp', 'ne', x, one))),
        ('decldiv', 'x', 'div', x, vb), ('decldiv', 'x', 'mod', ('ar', 'add', x, one), ('ar', 'sub', vb, vc)),
        ('decldiv', 'x', 'div', ('n', 7), x), ('decldiv', 'x', 'mod', x, ('n', 0)),
        ('assdiv', 'a0', 'div', vb, ('ar', 'mul', vc, vc)), ('assdiv', 'a1', 'mod', ('un', 'neg', x), ('n', 3)),
        ('incdiv', 'a2', 'div', vb), ('incdiv', 'a0', 'mod', ('ar', 'add', vb, one)),
        ('call', None, 'f1', [x, ('ar', 'add', vb, one)]), ('call', ('decl', 'x'), 'f1', [('n', 3), x]),
        ('call', ('assign', 'a1'), 'f1', [('ar', 'mul', x, vb), ('ar', 'sub', vc, one)]),
        ('call', None, 'f2', []), ('call', None, 'f3', [x]), ('call', ('decl', 'x'), 'f4', []),
    ]
    c1 = ('cmp', 'lt', x, ('n', 10))
    c2 = ('and', ('cmp', 'gt', ('ar', 'add', x, one), ('ar', 'mul', vb, vc)), ('not', ('cmp', 'eq', vc, one)))
    cnt = [0]

    def fr(s):
        """the statement with a fresh name if it declares one"""
        if s[0] in ('decli', 'declb', 'decldiv'):
            cnt[0] += 1
            return (s[0], '%s%d' % (s[1], cnt[0])) + tuple(s[2:])
        if s[0] == 'call' and s[1] and s[1][0] == 'decl':
            cnt[0] += 1
            return ('call', ('decl', '%s%d' % (s[1][1], cnt[0])), s[2], s[3])
        return s
    p0, p1 = ('v', 'p0'), ('v', 'p1')
    helpers = [
        ('f1', 'int', ['p0', 'p1'], [('if', ('cmp', 'lt', p0, one), [('return', p1)], None),
                                     ('call', ('decl', 'r'), 'f1', [('ar', 'sub', p0, one), ('ar', 'mul', p1, ('n', 2))]),
                                     ('return', ('ar', 'add', ('v', 'r'), one))]),
        ('f2', 'empty', [], [('writeln',), ('call', None, 'f3', [('n', 5)])]),
        ('f3', 'empty', ['p0'], [('while', ('cmp', 'gt', p0, ('n', 0)),
                                  [('writei', True, p0), ('incdiv', 'p0', 'div', ('n', 2)),
                                   ('if', ('cmp', 'eq', p0, ('n', 3)), [('return', None)], None)])]),
        ('f4', 'int', [], [('decli', 'k', ('n', 41)), ('call', ('assign', 'k'), 'f1', [('n', 1), ('v', 'k')]), ('return', ('v', 'k'))]),
    ]
    out = [[s] for s in atoms]
    for s0 in atoms:
        for c in (c1, c2):
            out.append([('if', c, [fr(s0)], None)])
            out.append([('if', c, [fr(s0)], [fr(s0)])])
            out.append([('while', c, [fr(s0), ('if', c1, [('break',)], None), ('if', c2, [('continue',)], [fr(s0)])])])
            out.append([('for', ('decli', 'i', ('n', 0)), ('cmp', 'lt', ('v', 'i'), ('n', 3)), ('inc', 'i', 'add', one), [fr(s0)])])
            out.append([('block', [fr(s0), ('block', [fr(s0)])]), fr(s0)])
        out.append([fr(s0), ('declb', 'q', c2), ('if', ('bv', 'q'), [('decli', 'y', x), fr(s0)], [('if', c1, [fr(s0)], None)]), ('decli', 'z', one)])
        out.append([('while', c1, [('while', c2, [fr(s0), ('break',)]), ('continue',)])])
        out.append([('for', None, None, None, [fr(s0), ('break',)])])
        out.append([('if', c1, [fr(s0), ('return', None)], None), fr(s0)])
    progs = [[('is_you', 'empty', ['a0', 'a1', 'a2'], ss)] + helpers for ss in out]
    # the same statements inside a helper (other frame layout: two parameters)
    ren = {'a0': 'p0', 'a1': 'p1', 'a2': 'p0'}

    def rn(t):
        if isinstance(t, tuple):
            if len(t) == 2 and t[0] == 'v':
                return ('v', ren.get(t[1], t[1]))
            return tuple(rn(u) for u in t)
        if isinstance(t, list):
            return [rn(u) for u in t]
        return ren.get(t, t) if isinstance(t, str) else t
    for ss in out[:len(atoms)]:
        h = ('f5', 'empty', ['p0', 'p1'], rn(ss))
        progs.append([('is_you', 'empty', ['a0', 'a1', 'a2'], [('call', None, 'f5', [x, vb])])] + helpers + [h])
    return progs


# ------------------------------------------------------------------------------------ behaviour
END_FLAGS = {'ret': ['win'], 'fault division_by_zero': ['division_by_zero', 'error'],
             'fault stack_overflow': ['stack_overflow', 'error']}
ARGV = [0, 1, 2, 3, 5, 7, -1, -2, 10, 100, 255, -128, 32767]


def behaviour(exe, rng, picks, log):
    """picks: [(k, prog, w, model_line)] -> (runs compared, skipped, [disagreement])"""
    import hidrun
    meta = []
    for (k, prog, w, mline) in picks:
        args = tuple(rng.choice(ARGV) for _ in range(3))
        sx = mline.split(' ', 3)[3]
        for stack in (STACK, rng.randint(4, 24)):
            meta.append((prog, w, stack, args, 'run %d %d 1500 (args %s) %s' % (w, stack, ' '.join(str(a) for a in args), sx)))
    outs = model_all(exe, [m[4] for m in meta])                 # the source semantics first: it selects the runs
    compared, skipped, bad, todo, ends = 0, collections.Counter(), [], [], collections.Counter()
    for m, mo in zip(meta, outs):
        if mo in ('nofuel', 'unchecked') or mo.startswith('ERROR'):
            skipped[mo.split()[0]] += 1
        else:
            todo.append((m, mo))
    runs = hidrun.run_cases([hidrun.Case(program_src(prog), tuple(str(a) for a in args), w, stack, False, 300_000)
                             for ((prog, w, stack, args, _), _) in todo])
    for ((prog, w, stack, args, _), mo), r in zip(todo, runs):
        parts = mo.split('\t')
        want = (END_FLAGS[parts[0]], bytes(int(x) for x in parts[1:]))
        ends[parts[0]] += 1
        if r.status != 'ran':
            got = (r.status + ': ' + str(r.detail)[:80], b'')
        else:
            got = ([f for f in r.flags], r.out) if r.kind == 'ABSORBED' else (r.kind, r.out)
        compared += 1
        if got != want:
            bad.append({'input': program_src(prog).strip(), 'w': w, 'model': '%s %r' % want, 'impl': '%s %r' % got,
                        'detail': {'where': 'behaviour', 'stack': stack, 'args': list(args)},
                        'original': program_src(prog).strip()[:600]})
    skipped['_ends'] = dict(ends)
    return compared, skipped, bad


# ------------------------------------------------------------------------------------ run
def run(tier, seed, workdir):
    t0 = time.time()
    rng = random.Random(seed)
    log = []
    sys.path.insert(0, REPO)
    exe = build_model(workdir, log)
    quick = tier == 'quick'
    words = [2, 4] if quick else [2, 3, 4, 8]
    nrand = 2000 if quick else 8000
    progs = directed()
    for k in range(nrand):
        progs.append(gen_program(rng, rng.choice([1, 2, 2, 3] if quick else [1, 2, 3, 3, 4])))

    dist = {'statements': collections.Counter(), 'nesting': collections.Counter(), 'word': collections.Counter(),
            'globals': collections.Counter(), 'byte_reads': collections.Counter(),
            'status': collections.Counter(), 'lines_per_program': collections.Counter(), 'functions': collections.Counter()}
    jobs, failed = [], []
    for k, ss in enumerate(progs):
        src = program_src(ss)
        for f in ss:
            count_nodes(f[3], dist['statements'])
        dist['nesting'][prog_depth(ss)] += 1
        dist['functions'][len(ss)] += 1
        for w in words:
            r = impl_run(src, w)
            dist['status'][r[0]] += 1
            if r[0] == 'ok':
                jobs.append((k, w, r))
                dist['word'][w] += 1
                if w == words[0]:                                   # what the programs do with globals (model input)
                    for key, pat in (('reads_int_global', '(glob '), ('assigns_int_global', '(assg '),
                                     ('divides_into_int_global', '(assgdiv '), ('call_result_into_int_global', '(call assigng '),
                                     ('reads_bool_global', '(bglob '), ('assigns_bool_global', '(assbg '),
                                     ('writes_low_byte_of_int_global', '(write (byte (glob '),
                                     ('negated_int_global_operand', '(un neg (glob ')):
                        if pat in r[3]:
                            dist['globals'][key] += 1
                    for key, pat in (('low_byte_of_int_local', r'\(low '), ('byte_sized_local_as_int', r'\(byte \d'),
                                     ('as_declaration_initialiser', r'\(decli \((low|byte) \d'),
                                     ('as_call_or_write_argument', r'\((writei \d|call \w+ [\d ]*\d) \((low|byte) \d'),
                                     ('under_write_is_byte', r'\(write \(byte \((low|byte) \d'),
                                     ('as_comparison_operand', r'\(cmp \w+ \((low|byte) \d'),
                                     ('as_arithmetic_operand', r'\(ar \w+ (\((i|n|glob) -?\d+\) )?\((low|byte) \d'),
                                     ('assigned_to_global', r'\(assg \d+ \((low|byte) \d'),
                                     ('byte_cast_of_global', r'\(trunc \(glob '), ('byte_cast_of_computed', r'\(trunc \((ar|un) '),
                                     ('byte_cast_into_global', r'\(assg \d+ \(trunc '), ('char_literal_as_int', r'\(c \d')):
                        if re.search(pat, r[3]):
                            dist['byte_reads'][key] += 1
                dist['lines_per_program'][min(len(r[1]) // 50 * 50, 500)] += 1
            else:
                # every generated program is in F_stmt and well typed by construction: a rejection or a
                # crash of the compiler is a difference from the model, which lowers it
                if len(log) < 20:
                    log.append('%s on %r: %s' % (r[0], src.strip()[:200], r[1]))
                failed.append((k, w, r))
    outs = model_all(exe, [r[3] for (_, _, r) in jobs])
    lines_compared, disagreements, seen_bad, samples, distinct = 0, [], set(), [], set()
    for (k, w, r), mt in zip(jobs, outs):
        n, d = compare(r, mt)
        lines_compared += n
        distinct.add(r[3].split(' ', 3)[3])
        if len(samples) < 3 and prog_depth(progs[k]) >= 2 and len(progs[k]) >= 2 and n:
            samples.append({'source': program_src(progs[k]).strip(), 'w': w, 'model_input': r[3], 'lines': n})
        if d is not None and k not in seen_bad and len(disagreements) < 8:
            seen_bad.add(k)
            small = shrink(exe, progs[k], w)
            rs = impl_run(program_src(small), w)
            n2, d2 = compare(rs, model_all(exe, [rs[3]])[0]) if rs[0] == 'ok' else (0, d)
            d2 = d2 or d
            disagreements.append({'input': program_src(small).strip(), 'w': w, 'model': d2.get('model'), 'impl': d2.get('impl'),
                                  'detail': d2, 'original': program_src(progs[k]).strip()[:600]})
        elif d is not None:
            seen_bad.add(k)
    for (k, w, r) in failed:
        if k not in seen_bad and len(disagreements) < 8:
            small = shrink_failing(progs[k], w, r[0])
            rs = impl_run(program_src(small), w)
            disagreements.append({'input': program_src(small).strip(), 'w': w, 'model': 'in F_stmt: lowered by lower_body',
                                  'impl': '%s: %s' % (rs[0], rs[1]) if rs[0] != 'ok' else '%s: %s' % (r[0], r[1]),
                                  'detail': {'where': 'compilation'}, 'original': program_src(progs[k]).strip()[:600]})
        seen_bad.add(k)
    # behaviour of a sample of the programs on the verified VM against the extracted source semantics
    nb = 300 if quick else 1500
    pool = [(k, progs[k], w, r[3]) for (k, w, r) in jobs if w in (2, 4)]
    picks = [pool[i] for i in sorted(rng.sample(range(len(pool)), min(nb, len(pool))))]
    bcomp, bskip, bbad = behaviour(exe, rng, picks, log)
    for d in bbad:
        if len(disagreements) < 8:
            disagreements.append(d)
    dist['behaviour'] = {'runs_compared': bcomp, 'endings': bskip.pop('_ends', {}), 'skipped': dict(bskip), 'disagreeing': len(bbad)}
    dist['programs_disagreeing'] = len(seen_bad) + len(bbad)
    return {
        'evaluations': len(jobs) + bcomp,
        'distinct_nontrivial': len(distinct),
        'rule': RULE,
        'samples': samples,
        'disagreements': disagreements,
        'exhaustive': False,
        'distribution': {k: (dict(v) if isinstance(v, collections.Counter) else v) for k, v in dist.items()},
        'programs': len(progs),
        'lines_compared': lines_compared,
        'word_sizes': words,
        'log': log,
        'seconds': round(time.time() - t0, 1),
    }


if __name__ == '__main__':
    ap = argparse.ArgumentParser()
    ap.add_argument('--tier', default='quick', choices=['quick', 'thorough'])
    ap.add_argument('--seed', type=int, default=0)
    ap.add_argument('--workdir', default=os.path.join(VERIF, '.work', 'lowerstmt', 'corr'))
    a = ap.parse_args()
    res = run(a.tier, a.seed, a.workdir)
    print(json.dumps(res, indent=1, default=str))
    sys.exit(1 if res['disagreements'] else 0)
