"""C15 - --unchecked changes nothing on fault-free runs."""
import random
import sweeps, hidrun, diffrun, C02
from sweeps import ALL, WS, program_units
from diffrun import Cfg

PROPS_VO = ['Props/C15.vo']
GEN_ITEMS = ['coq/Gen/GenTables.v', 'coq/Gen/GenStdlib.v']
LEVEL = 'proof'
TRUSTED = ['PARTIAL: proved = guard_is_observer for each guard shape (a passing guard ends at its continuation with memory unchanged (entry guard: completely unchanged, the sub is speculative) and Halts-equivalent); '
           'that erasing guards from the checked output gives the unchecked output is covered by the paired sweep']
ASSUMPTIONS = ['fault-free = the checked run raised no fault flag']

FAULT_FLAGS = {'stack_overflow', 'division_by_zero', 'out_of_bounds', 'nonlocal_preempt'}


def guarded_operand_units(rng, n, ws):
    """every guarded operation (string / array index, division, modulo, nested index, call on an element) as the left and right operand of
    every kind of binary operator, as a call argument next to another one, and as an index: without the guard the operation still needs
    its registers, so a neighbouring operand must still be saved"""
    atoms = ['"abcd"[i]', 'cs[j]', 'gcs[i]', '"wxyz"[2]', 'cs[1]', '([7, 8, 9, 10])[j]', 'cia[i]', 's[i]', 't[j]', 's[j]', 'ia[i]', 'ia[j]', 'ba[i]', 'ba[j]', 'ga[i]', '(x / y)', '(x % y)', '(ia[j] / y)', 'strs[k][i]', 'strs[1][j]', 'ia[ia[k]]', 's[ia[k]]',
             'idf(s[i])', 'idf(ia[j])', 'sl(t)', 's.length', 'x', '7', '(s[i] is int)', '(-ia[i])']
    batoms = ['bb[i]', 'bb[j]', '(s[i] == t[i])', '(ia[i] < s[j])', '(x / y > 1)', 'bb[ia[k]]']
    units = []
    for _ in range(n):
        lines = []
        for _ in range(8):
            c = rng.random()
            a, b, c3 = rng.choice(atoms), rng.choice(atoms), rng.choice(atoms)
            if c < 0.45:
                lines.append('write(%s %s %s); write(\' \');' % (a, rng.choice(['+', '-', '*']), b))
            elif c < 0.7:
                lines.append('write(%s %s %s);' % (a, rng.choice(['==', '!=', '<', '>', '<=', '>=']), b))
            elif c < 0.8:
                lines.append('write(%s %s %s);' % (rng.choice(batoms), rng.choice(['and', 'or', '==']), rng.choice(batoms)))
            elif c < 0.9:
                lines.append('write(two(%s, %s)); write(\' \');' % (a, b))
            else:
                lines.append('if (%s %s %s * %s) { write("y"); } else { write("n"); }' % (a, rng.choice(['<', '==', '>=']), b, c3))
        src = ('int[] ga = [3, 1, 2, 0];\nconst string gcs = "qrst";\nconst int[] cia = [5, 6, 7, 8];\nint idf(int v) { return v + 1; }\nint sl(string q) { return q.length; }\nint two(int p, int q) { return p * 10 + q; }\n'
               'empty @is_you(int i, int j, int k) {\n  string s = "abcd"; string t = "abxd"; const string cs = "mnop"; string[] strs = ["wxyz", "hijk", "lmno"]; int[] ia = [2, 0, 3, 1]; byte[] ba = [\'p\', \'q\', \'r\', \'s\'];\n'
               '  bool[] bb = [true, false, true, false]; int x = 17 + i; int y = 3 + j;\n  ' + '\n  '.join(lines) + '\n}\n')
        units.append((src, [Cfg((str(i), str(j), str(k)), w, 300, False) for (i, j, k) in ((0, 1, 2), (3, 2, 0), (1, 3, 1)) for w in ws[:2]]))
    return units


def run(ctx):
    rng = random.Random(ctx.seed)
    q = ctx.tier == 'quick'
    ws = [2, 3, 4] if q else WS
    base = program_units(rng, 150 if q else 2000, ALL + ['tt', 'faults'], ws, cfgs_per=3, seed_base=ctx.seed + 1500)
    base += C02.history_units(rng, 60 if q else 800, ws, ctx.seed + 1501, per=3)
    import genhist
    base += genhist.directed_units(ws[:2])
    base += guarded_operand_units(rng, 30 if q else 300, ws)
    units = [(src, [c for cfg in cfgs for c in (cfg, cfg._replace(unchecked=True))]) for src, cfgs in base]
    results = diffrun.run_units(units, want_ref=False)
    pairs = faultfree = 0
    distinct = set()
    for (src, _), rs in zip(units, results):
        for a, b in zip(rs[0::2], rs[1::2]):
            pairs += 1
            ta, tb = hidrun.terminal(a.run), hidrun.terminal(b.run)
            if a.run.status != 'ran' or ta[0] in ('fuel',):
                continue
            if FAULT_FLAGS & set(ta[1]) or ta[0] in ('fault', 'halt'):
                continue
            faultfree += 1
            distinct.add(hash((src, a.cfg)))
            if tb[0] == 'fuel':
                continue
            if ta != tb:
                ctx.violate('unchecked build behaves differently on a fault-free run', cls='unchecked_differs', source=src, args=list(a.cfg.args), w=a.cfg.w,
                            stack=a.cfg.stack, checked=[ta[0], ta[1], ta[2].decode('latin1')], unchecked=[tb[0], tb[1], tb[2].decode('latin1')], detail=b.run.detail)
    ctx.cov['evaluations'] += 2 * pairs
    ctx.cov['distinct_nontrivial'] = len(distinct)
    ctx.cov['rule'] = 'generated programs (all features incl. unguarded faults and try histories) compiled checked and --unchecked, same inputs; a pair is non-trivial when the checked run raised no fault flag (%d of %d pairs); outputs and flags must be identical' % (faultfree, pairs)
    ctx.cov['samples'] = [{'source': units[0][0][:800], 'configs': [list(c) for c in units[0][1][:2]]}]
