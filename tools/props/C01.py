"""C01 - compiled code computes what the source says (sequential core)."""
import random
import sweeps
from sweeps import ALL, WS, program_units, diff_sweep, halts_extra

PROPS_VO = ['Props/C01.vo', 'Props/Patterns_props.vo', 'Props/C01_lowerbool.vo', 'Props/C01_lowerstmt.vo', 'Props/C01_program.vo']
GEN_ITEMS = ['coq/Gen/GenTables.v', 'coq/Gen/GenStdlib.v', 'coq/Gen/GenLayout.v']
LEVEL = 'proof'
TRUSTED = ['PARTIAL: proved = Turing-jump metatheory + verified VM + idiom lemmas (goto/branch/guard/return) + operator tables + library routines on regenerated text + '
           'program_lowering_correct (C01 restricted to the fragment): for whole programs of int/empty functions with int parameters (recursion included), A-normal calls and checked divisions, int and bool globals (in-place assignment, shadowing, layout proved by glob_addr_layout), write(int/bool) through the proved runtime library, from ANY initial image laid out as gen_lines does: the machine never halts and its committed events are exactly the source semantics\' output followed by win (or the output prefix followed by division_by_zero/stack_overflow, error); stmts_lowering_correct: COMPILER CORRECTNESS for the statement fragment F_stmt (int/bool locals, arithmetic + - * and unary, comparisons, and/or/not, if/else, while/for with break/continue, nested blocks, write(byte), writeln()) - for every program of the fragment and every w >= 2 the emitted code (model tied textually to hidc, labels included) runs with exactly the output bytes of an independent big-step source semantics and ends representing the final store; '
           'branch_lowering_correct: for EVERY boolean expression tree over comparisons of literals/locals, bool locals, not/and/or, the lowering model (tied textually to hidc, labels included) branches to the right continuation, short-circuits left to right and changes only r0/r1; '
           'the whole-generator simulation (C01_full_statement) is not proved: programs are covered by the differential sweep',
           'tools/hidref.py reference semantics (specification, written from README + property text; consumes the checked tree of hidc\'s own front end)',
           'tools/gen.py program generator']
ASSUMPTIONS = ['reference semantics is the specification of "what the source says"; stack overflow is allowed as an outcome of the compiled program only']


def run(ctx):
    rng = random.Random(ctx.seed)
    q = ctx.tier == 'quick'
    ws = [2, 3, 4] if q else WS
    units = program_units(rng, 140 if q else 1500, ALL, ws, cfgs_per=3, seed_base=ctx.seed + 100)
    units += program_units(rng, 40 if q else 400, ['calls', 'globals'], ws, cfgs_per=3, seed_base=ctx.seed + 101, size=1.6)
    units += program_units(rng, 30 if q else 300, ALL + ['sleep'], [8] if q else WS, cfgs_per=2, seed_base=ctx.seed + 102)
    from component import run_corr
    run_corr(ctx, 'corr_lowerstmt', 'statement lowering (declarations, assignments, if/else, while/for, break/continue, nested blocks, write(byte)): hidc function text vs LowerStmt model')
    run_corr(ctx, 'corr_lowerbool', 'boolean-branch lowering: hidc instruction text vs LowerBool model (labels included)')
    run_corr(ctx, 'corr_patterns', 'every emitted j classifies as a proved idiom; programs without time travel use only goto/branch/guard/return idioms')
    diff_sweep(ctx, 'aliasing / evaluation-order corpus (global index or operand modified by the other operand, same array passed twice)', sweeps.alias_units(ws), extra=halts_extra(ctx), monitor=True)
    diff_sweep(ctx, 'sequential programs', units, extra=halts_extra(ctx), monitor=True)
    # unchecked builds of fault-free programs must behave identically (no faults feature here)
    units2 = program_units(rng, 30 if q else 300, ALL, ws, cfgs_per=2, seed_base=ctx.seed + 103, unchecked=True)
    diff_sweep(ctx, 'sequential programs, --unchecked', units2)
    import C15
    gu = C15.guarded_operand_units(rng, 12 if q else 150, ws)
    diff_sweep(ctx, 'guarded operations as operands of each other (checked)', gu, extra=halts_extra(ctx), monitor=True)
    diff_sweep(ctx, 'guarded operations as operands of each other (--unchecked)', [(src, [c._replace(unchecked=True) for c in cfgs]) for src, cfgs in gu])
    ctx.cov['rule'] = sweeps.RULE
