"""C17 - the write family prints canonically for every value."""
import random
import hidrun, diffrun
from diffrun import Cfg

PROPS_VO = ['Props/C17_stdlib.vo']
GEN_ITEMS = ['coq/Gen/GenStdlib.v']
LEVEL = 'proof'
TRUSTED = ['theorems are about the regenerated stdlib text (all 108 instructions) for every word size w >= 2; `decimal` (coq/Codegen/DecimalSpec.v) is the specification of signed decimal printing',
           'that hidc lowers write(byte)/writeln to a single yield and dispatches write(...) to the right routine by concrete array storage is covered by the sweep, not by theorem']
ASSUMPTIONS = ['write_int needs room below its frame for its digit buffer (hypothesis write_int_room); see C04 / known finding F3 for the exactly-full-stack case']


def wrap(v, w):
    M = 1 << (8 * w)
    v %= M
    return v - M if v >= M >> 1 else v


def run(ctx):
    rng = random.Random(ctx.seed)
    q = ctx.tier == 'quick'
    units, expect = [], []
    SRC_INTS = ('empty @is_you(const int[] xs) {\n  int keep = 12345; int[] arr = [11111, 22222];\n'
                '  for (int i = 0; i < xs.length; i += 1) { write(xs[i]); write(\' \'); }\n'
                '  write(keep); write(\' \'); write(arr[0]); write(\' \'); writeln(arr[1]);\n}\n')
    # all 65536 values at 16 bits (thorough) / boundaries + random (quick); boundary + random at 3, 4, 8
    def vals_for(w):
        M = 1 << (8 * w)
        b = [0, 1, -1, 9, 10, 11, 99, 100, 101, -9, -10, -11, -99, -100, 127, 128, 255, 256, (M >> 1) - 1, -(M >> 1), (M >> 1) - 2, -(M >> 1) + 1]
        b += [10 ** k for k in range(1, 20) if 10 ** k < M >> 1] + [-(10 ** k) for k in range(1, 20) if 10 ** k < M >> 1]
        b += [10 ** k - 1 for k in range(1, 20) if 10 ** k < M >> 1]
        return b + [rng.randrange(-(M >> 1), M >> 1) for _ in range(200 if q else 3000)]
    cfgs = []
    for w in (2, 3, 4, 8):
        vs = list(range(-32768, 32768)) if (w == 2 and not q) else vals_for(w)
        for i in range(0, len(vs), 256):
            chunk = vs[i:i + 256]
            cfgs.append((Cfg(tuple(str(v) for v in chunk), w, 600, False),
                         (' '.join(str(v) for v in chunk) + (' ' if chunk else '') + '12345 11111 22222\n').encode()))
    units.append((SRC_INTS, [c for c, _ in cfgs]))
    expect.append([e for _, e in cfgs])
    # bool / byte / writeln
    SRC_MISC = ('empty @is_you(const int[] xs) {\n  for (int i = 0; i < xs.length; i += 1) {\n'
                '    write(xs[i] > 0); write(xs[i] is byte); writeln(xs[i] == 0); writeln(); writeln(xs[i] is byte); writeln(xs[i]);\n  }\n}\n')
    cfgs = []
    for w in (2, 3, 4):
        chunk = [0, 1, -1, 65, 255, 256, 300, 10, -246]
        exp = b''
        for v in chunk:
            exp += (b'true' if v > 0 else b'false') + bytes([v & 255]) + (b'true' if v == 0 else b'false') + b'\n\n' + bytes([v & 255]) + b'\n' + str(v).encode() + b'\n'
        cfgs.append((Cfg(tuple(str(v) for v in chunk), w, 300, False), exp))
    units.append((SRC_MISC, [c for c, _ in cfgs]))
    expect.append([e for _, e in cfgs])
    # write(bool) of every way a bool can be produced (casts of ints/bytes/lengths, variables, elements, operators), write(byte) of casts
    SRC_BOOL = ('bool gb = false;\nbool nz(int v) { return v is bool; }\nempty @is_you(const int[] xs) {\n  bool[] ba = [false, true, false];\n  for (int i = 0; i < xs.length; i += 1) {\n'
                '    int x = xs[i]; byte b = x is byte; bool t = x is bool; gb = x is bool; ba[1] = x is bool;\n'
                '    write(x is bool); write(\' \'); writeln(x is bool); write(t); write(gb); write(ba[1]); write(nz(x)); write(b is bool); write((x is byte) is bool); write(\' \');\n'
                '    write((x + x) is bool); write(not (x is bool)); write((x is bool) and true); write((x is bool) or false); write((x * 256) is bool); write(\' \');\n'
                '    write((x is bool) is byte); write(b); write((x + 1) is byte); write((((x is bool) is int) + 48) is byte); writeln(((b is int) + 256) is byte);\n  }\n}\n')
    cfgs = []
    for w in (2, 3, 4):
        chunk = [0, 1, -1, 2, 255, 256, 512, 768, -256, 257, 65, 300, -32768 if w == 2 else -(1 << (8 * w - 1)), 32512 if w == 2 else (1 << (8 * w - 2))]
        exp = b''
        tf = lambda v: b'true' if v else b'false'
        for v in chunk:
            t = v != 0
            bb = v & 255
            M = 1 << (8 * w)
            exp += tf(t) + b' ' + tf(t) + b'\n' + tf(t) * 4 + tf(bb != 0) * 2 + b' '
            exp += tf((2 * v) % M != 0) + tf(not t) + tf(t) + tf(t) + tf((v * 256) % M != 0) + b' '
            exp += bytes([int(t), bb, (v + 1) & 255, 48 + int(t), bb]) + b'\n'
        cfgs.append((Cfg(tuple(str(v) for v in chunk), w, 300, False), exp))
    units.append((SRC_BOOL, [c for c, _ in cfgs]))
    expect.append([e for _, e in cfgs])
    # strings and byte arrays of every length 0..64: const, mutable, string-converted; caller state read back
    lens = list(range(0, 65)) if not q else [0, 1, 2, 3, 7, 8, 9, 31, 32, 33, 63, 64] + [rng.randrange(65) for _ in range(8)]
    for n in lens:
        data = bytes(rng.randrange(256) for _ in range(n))
        lit = '"' + ''.join('\\x%02x' % b for b in data) + '"'
        arr = '[' + ', '.join(str(b) for b in data) + ']'
        src = ('string gs = %s;\nempty @is_you() {\n  int keep = 321; int[] guard = [111, 222];\n  string s = %s;\n' % (lit, lit))
        exp = b''
        src += '  write(s); write(\'|\'); writeln(gs); write(s is byte[]); write(\'|\');\n'
        exp += data + b'|' + data + b'\n' + data + b'|'
        if n:
            src += '  const int[] ci = %s; write(ci[0] is byte); const bool[] cq = [%s]; if (cq[0]) { write(\'q\'); }\n' % (arr, ', '.join('true' if b else 'false' for b in data[:9]))
            exp += bytes([data[0]]) + (b'q' if data[0] else b'')
            src += '  const byte[] cb = %s; byte[] mb = %s; write(cb); write(\'|\'); write(mb); mb[0] = \'!\'; writeln(mb);\n' % (arr, arr)
            exp += data + b'|' + data + b'!' + data[1:] + b'\n'
            src += '  byte vb[%d]; for (int i = 0; i < vb.length; i += 1) { vb[i] = mb[i]; } write(vb); write(\'|\');\n' % n
            exp += b'!' + data[1:] + b'|'
        if not n:
            src += '  byte vz[keep - 321]; write(vz); write(\'|\'); byte[] ez = []; write(ez); write(\'|\'); const byte[] cz = []; write(cz); write(\'|\'); writeln(vz);\n'
            exp += b'|||\n'
        src += '  write(keep); write(guard[0]); write(guard[1]);\n}\n'
        exp += b'321111222'
        ws = [2, 4] if q else [2, 3, 4, 8]
        units.append((src, [Cfg((), w, 400, False) for w in ws]))
        expect.append([exp] * len(ws))
    import sweeps
    sweeps.fill_sweep(ctx, sweeps.FILL_BODIES[:4] + sweeps.FILL_BODIES[7:8], [2, 3, 4] if q else [2, 3, 4, 8], [10] if q else [10, 20], label='write family with the stack filled to the byte (caller arrays must survive)')
    results = diffrun.run_units(units, want_ref=False, fuel=3_000_000)
    total = 0
    distinct = set()
    for (src, cfgs_), rs, exps in zip(units, results, expect):
        for res, exp in zip(rs, exps):
            total += 1
            end, flags, out = hidrun.terminal(res.run)
            distinct.add(hash((src, res.cfg)))
            if not (end == 'win' and flags == ['win'] and out == exp):
                # find the first differing value for the replay
                ctx.violate('write family output differs from the canonical form', cls='write', source=src, args=list(res.cfg.args)[:40], w=res.cfg.w,
                            expected=exp[:300].decode('latin1'), got=[end, flags, out[:300].decode('latin1')], detail=res.run.detail)
    ctx.cov['evaluations'] += total
    ctx.cov['distinct_nontrivial'] = ctx.cov.get('distinct_nontrivial', 0) + len(distinct)
    ctx.cov['rule'] = ('write(int) of %s values at 16 bits and boundary+random values at 24/32/64 bits read from argv (nothing folded), write(bool/byte), writeln forms, '
                       'strings and byte arrays (const, mutable, VLA copy, string-converted) of lengths %s with caller locals/arrays read back afterwards; '
                       'expected output computed by the harness; distinct = distinct (program, configuration)') % ('all 65536' if not q else 'boundary+random', '0..64' if not q else 'sampled from 0..64')
    ctx.cov['samples'] = [{'source': units[0][0], 'args_head': list(units[0][1][0].args)[:12]}, {'source': units[-1][0][:600]}]
    ctx.cov['exhaustive'] = not q
