"""Shared logic for properties decided by a component (model + theorems + correspondence)."""
import importlib, os, json


def run_corr(ctx, modname, label, max_report=5):
    """Run tools/<modname>.py's correspondence and fold its result into ctx."""
    try:
        corr = importlib.import_module(modname)
        res = corr.run(ctx.tier, ctx.seed, os.path.join(ctx.work, modname))
    except Exception as e:
        ctx.oblige('correspondence: ' + label, False, 'correspondence crashed: %r' % (e,))
        return None
    dis = res.get('disagreements', [])
    detail = ''
    if dis:
        detail = json.dumps(dis[0], default=str)[:600]
    ctx.oblige('correspondence: %s (%d cases%s)' % (label, res.get('evaluations', 0), ', exhaustive' if res.get('exhaustive') else ''), not dis, detail)
    for d in dis[:max_report]:
        ctx.violate('implementation differs from the proved model (%s)' % label, cls='model_vs_impl',
                    **{k: (v if isinstance(v, (str, int, float, bool, list, dict, type(None))) else repr(v)) for k, v in d.items()})
    ctx.cov['evaluations'] += int(res.get('evaluations', 0))
    ctx.cov['distinct_nontrivial'] += int(res.get('distinct_nontrivial', 0))
    rule = res.get('rule', '')
    ctx.cov['rule'] = (ctx.cov.get('rule', '') + ' | ' if ctx.cov.get('rule') else '') + '%s: %s' % (label, rule)
    ctx.cov['samples'] = (ctx.cov.get('samples') or []) + list(res.get('samples', []))[:3]
    ctx.cov.setdefault('distribution', {})[label] = res.get('distribution', {})
    if 'exhaustive' in res:
        ctx.cov['exhaustive'] = bool(res['exhaustive']) and ctx.cov.get('exhaustive', True)
    return res
