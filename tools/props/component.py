"""Shared logic for properties decided by a component (model + theorems + correspondence)."""
import importlib, os, json


def _with_last_good_model(ctx, modname, corr):
    """The translator or the model build failed on the current tree: rebuild the LAST GOOD model
    (the committed coq/Gen files, for which the theorems hold) and run the correspondence with it,
    so that a concrete input on which the implementation now departs from the proved model is
    found (DESIGN 2.3: search for a failing input when an obligation breaks)."""
    import subprocess, sys
    regen_name = modname.replace('corr_', 'regen_')
    try:
        regen = importlib.import_module(regen_name)
    except Exception:
        return None
    from common import VERIF
    files = {}
    tracked = subprocess.run(['git', '-C', VERIF, 'ls-files', 'coq/Gen'], capture_output=True, text=True).stdout.split()
    probe = {'regen_context': ['GenContext'], 'regen_parser': ['GenGrammar'], 'regen_lexer': ['GenLexer'], 'regen_exit': ['GenExit'],
             'regen_types': ['GenTypes'], 'regen_tracker': ['GenTracker']}.get(regen_name, [])
    for rel in tracked:
        if any(rel.endswith('/%s.v' % n) for n in probe):
            files[rel] = subprocess.run(['git', '-C', VERIF, 'show', 'HEAD:' + rel], capture_output=True, text=True).stdout
    if not files:
        return None
    for rel, text in files.items():          # also on disk: some correspondences compile coq/Gen as it is
        with open(os.path.join(VERIF, rel), 'w') as f:
            f.write(text)
    orig = regen.generate
    regen.generate = lambda root, _f=files: dict(_f)
    try:
        return corr.run(ctx.tier, ctx.seed, os.path.join(ctx.work, modname + '_lastgood'))
    except Exception:
        return None
    finally:
        regen.generate = orig


def run_corr(ctx, modname, label, max_report=5):
    """Run tools/<modname>.py's correspondence and fold its result into ctx."""
    corr = None
    try:
        corr = importlib.import_module(modname)
        res = corr.run(ctx.tier, ctx.seed, os.path.join(ctx.work, modname))
    except Exception as e:
        ctx.oblige('correspondence: ' + label, False, 'correspondence could not run on the current tree: %r' % (e,))
        res = _with_last_good_model(ctx, modname, corr) if corr else None
        if res is None:
            return None
        label = label + ' [last good model]'
    dis = res.get('disagreements', [])
    detail = ''
    if dis:
        detail = json.dumps(dis[0], default=str)[:600]
    ctx.oblige('correspondence: %s (%d cases%s)' % (label, res.get('evaluations', 0), ', exhaustive' if res.get('exhaustive') else ''), not dis, detail)
    for d in dis[:max_report]:
        ctx.violate('implementation differs from the proved model (%s)' % label, cls='model_vs_impl',
                    **{k: (v if isinstance(v, (str, int, float, bool, list, dict, type(None))) else repr(v)) for k, v in d.items()})
    ctx.cov['evaluations'] += int(res.get('evaluations', 0))
    ctx.cov['distinct_nontrivial'] += int(res.get('distinct_nontrivial', 0))
    rule = res.get('rule', '')
    ctx.cov['rule'] = (ctx.cov.get('rule', '') + ' | ' if ctx.cov.get('rule') else '') + '%s: %s' % (label, rule)
    ctx.cov['samples'] = (ctx.cov.get('samples') or []) + list(res.get('samples', []))[:3]
    ctx.cov.setdefault('distribution', {})[label] = res.get('distribution', {})
    if 'exhaustive' in res:
        ctx.cov['exhaustive'] = bool(res['exhaustive']) and ctx.cov.get('exhaustive', True)
    return res
