"""C09 - operators and casts at every boundary value."""
import random
import hidrun, diffrun
from diffrun import Cfg

PROPS_VO = ['Props/C09.vo', 'Props/C01_lowerbool.vo', 'Props/C09_lowerings.vo']
GEN_ITEMS = ['coq/Gen/GenTables.v']
LEVEL = 'proof'
TRUSTED = ['theorems cover the regenerated tables (arith_map, compare_map, halt_inversion) against the machine semantics for ALL operand values and word sizes, and the index-check arithmetic; '
           'the three lowerings (value / branch / !truth_is_defeat) of whole boolean expression trees are covered by the exhaustive grid sweep and the idiom lemmas, not by a theorem over the generator']
ASSUMPTIONS = ['A-DIV: Sphinx div/mod are floor division on signed readings (matches the compile-time folder)']


def sgn(v, w):
    M = 1 << (8 * w)
    v %= M
    return v - M if v >= M >> 1 else v


BIN = ['+', '-', '*', '/', '%', '<', '>', '<=', '>=', '==', '!=', 'and', 'or']


def spec_bin(op, a, b, w):
    """-> ('int', v) | ('bool', v) | 'div0'"""
    if op == '+': return ('int', sgn(a + b, w))
    if op == '-': return ('int', sgn(a - b, w))
    if op == '*': return ('int', sgn(a * b, w))
    if op in '/%':
        if b == 0: return 'div0'
        return ('int', sgn(a // b if op == '/' else a % b, w))
    if op == 'and': return ('bool', a != 0 and b != 0)
    if op == 'or': return ('bool', a != 0 or b != 0)
    return ('bool', {'<': a < b, '>': a > b, '<=': a <= b, '>=': a >= b, '==': a == b, '!=': a != b}[op])


def grid(w, rng, extra):
    M = 1 << (8 * w)
    g = [0, 1, -1, 2, -2, 127, 128, 255, 256, -128, -129, (M >> 1) - 1, -(M >> 1), (M >> 1) - 2, -(M >> 1) + 1, 10, -10, 7]
    return g + [rng.randrange(-(M >> 1), M >> 1) for _ in range(extra)]


def run(ctx):
    from component import run_corr
    run_corr(ctx, 'corr_lowerbool', 'value and branch lowering of boolean expressions: hidc instruction text vs LowerBool model (both proved equal to the source semantics)')
    rng = random.Random(ctx.seed)
    q = ctx.tier == 'quick'
    ws = [2, 3, 4] if q else [2, 3, 4, 8]
    units, oracle = [], []
    # one program per operator evaluates it in the three positions for every (a, b) pair passed in argv
    for op in BIN:
        isbool = op not in '+-*/%'
        e = '(xs[i] %s ys[i])' % op if op not in ('and', 'or') else '((xs[i] is bool) %s (ys[i] is bool))' % op
        if isbool:
            body = ('    write(%s); write(\' \');\n    if (%s) { write(\'T\'); } else { write(\'F\'); }\n'
                    '    try { !truth_is_defeat(%s); write(\'f\'); } undo { write(\'t\'); }\n    write(\';\');\n') % (e, e, e)
        else:
            body = ('    write(%s); write(\' \');\n    if (%s) { write(\'T\'); } else { write(\'F\'); }\n'
                    '    try { !truth_is_defeat(%s is bool); write(\'f\'); } undo { write(\'t\'); }\n    write(\';\');\n') % (e, e, e)
        src = ('empty @is_you(const int[] zs) {\n  int n = zs.length / 2;\n  int xs[n]; int ys[n];\n'
               '  for (int i = 0; i < n; i += 1) { xs[i] = zs[i]; ys[i] = zs[n + i]; }\n'
               '  for (int i = 0; i < n; i += 1) {\n%s  }\n}\n') % body
        cfgs, exps = [], []
        for w in ws:
            g = grid(w, rng, 2 if q else 12)
            pairs = [(a, b) for a in g for b in g]
            if op in '/%':
                pairs = [(a, b) for a, b in pairs if b != 0]
            for i in range(0, len(pairs), 64):
                ch = pairs[i:i + 64]
                exp = b''
                for a, b in ch:
                    r = spec_bin(op, a, b, w)
                    truth = r[1] if r[0] == 'bool' else (r[1] != 0)
                    txt = (b'true' if r[1] else b'false') if r[0] == 'bool' else str(r[1]).encode()
                    exp += txt + b' ' + (b'T' if truth else b'F') + (b't' if truth else b'f') + b';'
                cfgs.append(Cfg(tuple(str(a) for a, _ in ch) + tuple(str(b) for _, b in ch), w, 800, False))
                exps.append(exp)
        units.append((src, cfgs))
        oracle.append(exps)
    # the same grid with byte-typed operands (zero extension; byte/int mixing) and with both operands the same variable
    VARIANTS = [('bx', 'ys[i]', lambda a, b: (a & 255, b)), ('xs[i]', 'by', lambda a, b: (a, b & 255)), ('bx', 'by', lambda a, b: (a & 255, b & 255)),
                ('x', 'x', lambda a, b: (a, a)), ('bx', 'bx', lambda a, b: (a & 255, a & 255)), ('x', 'bx', lambda a, b: (a, a & 255))]
    for op in BIN:
        if op in ('and', 'or'):
            continue
        for la, lb, conv in VARIANTS:
            e = '(%s %s %s)' % (la, op, lb)
            tail = '' if op not in '+-*/%' else ' is bool'
            body = ('    int x = xs[i]; byte bx = xs[i] is byte; byte by = ys[i] is byte;\n    write(%s); write(\' \');\n    if (%s) { write(\'T\'); } else { write(\'F\'); }\n'
                    '    bool keepv = %s%s; write(keepv);\n'
                    '    try { !truth_is_defeat(%s%s); write(\'f\'); } undo { write(\'t\'); }\n    write(\';\');\n') % (e, e, e, tail, e, tail)
            src = ('empty @is_you(const int[] zs) {\n  int n = zs.length / 2;\n  int xs[n]; int ys[n];\n'
                   '  for (int i = 0; i < n; i += 1) { xs[i] = zs[i]; ys[i] = zs[n + i]; }\n'
                   '  for (int i = 0; i < n; i += 1) {\n%s  }\n}\n') % body
            cfgs, exps = [], []
            for w in ws:
                g = grid(w, rng, 1 if q else 8)
                M = 1 << (8 * w)
                g += [-(M >> 1) + 200, -(M >> 1) + 255, -(M >> 1) + 256, (M >> 1) - 255, (M >> 1) - 256, 200, -200]
                pairs = [(a, b) for a in g for b in g]
                if q:
                    pairs = [pr for k, pr in enumerate(pairs) if k % 3 == (BIN.index(op) + len(la)) % 3]
                if op in '/%':
                    pairs = [(a, b) for a, b in pairs if conv(a, b)[1] != 0]
                for i in range(0, len(pairs), 64):
                    ch = pairs[i:i + 64]
                    exp = b''
                    for a, b in ch:
                        r = spec_bin(op, *conv(a, b), w)
                        truth = r[1] if r[0] == 'bool' else (r[1] != 0)
                        txt = (b'true' if r[1] else b'false') if r[0] == 'bool' else str(r[1]).encode()
                        exp += txt + b' ' + (b'T' if truth else b'F') + (b'true' if truth else b'false') + (b't' if truth else b'f') + b';'
                    cfgs.append(Cfg(tuple(str(a) for a, _ in ch) + tuple(str(b) for _, b in ch), w, 800, False))
                    exps.append(exp)
            units.append((src, cfgs))
            oracle.append(exps)
    # unary operators and casts
    SRC_UN = ('empty @is_you(const int[] xs) {\n  for (int i = 0; i < xs.length; i += 1) {\n    int x = xs[i]; byte b = x is byte; bool t = x is bool;\n'
              '    write(-x); write(\' \'); write(+x); write(\' \'); write(not x); write(\' \'); write(b is int); write(\' \'); write(t); write(\' \');\n'
              '    write((b is int) + 1); write(\' \'); write(t is int); write(\' \'); write((t is byte) is int); write(\' \'); write(b is bool); write(\' \');\n'
              '    write((x is byte) is int); write(\' \'); write(not t); write(\' \'); write((not t) is int); write(\' \'); write(-(b is int)); write(\' \');\n'
              '    int y = b; write(y); write(\' \'); if (x) { write(\'T\'); } else { write(\'F\'); } if (not x) { write(\'T\'); } else { write(\'F\'); }\n'
              '    try { !truth_is_defeat(not x); write(\'f\'); } undo { write(\'t\'); }\n'
              '    write((x is bool) == true); write((x is bool) != false); write(true == (x is bool)); write(t == true); if ((x is bool) == true) { write(\'T\'); } else { write(\'F\'); } if (false != (x is bool)) { write(\'T\'); } else { write(\'F\'); }\n'
              '    try { !truth_is_defeat((x is bool) == true); write(\'f\'); } undo { write(\'t\'); } write((b is bool) == (x is bool)); write((x is bool) == ((2 * x) is bool));\n    write(\';\');\n  }\n}\n')
    cfgs, exps = [], []
    for w in ws:
        g = grid(w, rng, 10 if q else 200)
        exp = b''
        for x in g:
            b = x & 255
            t = x != 0
            tf = lambda v: b'true' if v else b'false'
            parts = [str(sgn(-x, w)).encode(), str(x).encode(), tf(not t), str(b).encode(), tf(t), str(sgn(b + 1, w)).encode(), str(int(t)).encode(),
                     str(int(t)).encode(), tf(b != 0), str(b).encode(), tf(not t), str(int(not t)).encode(), str(sgn(-b, w)).encode(), str(b).encode()]
            exp += b' '.join(parts) + b' ' + (b'T' if t else b'F') + (b'F' if t else b'T') + (b'f' if t else b't')
            exp += tf(t) * 4 + (b'T' if t else b'F') * 2 + (b't' if t else b'f') + tf((b != 0) == t) + tf(t == (sgn(2 * x, w) != 0)) + b';'
        cfgs.append(Cfg(tuple(str(v) for v in g), w, 400, False))
        exps.append(exp)
    units.append((SRC_UN, cfgs))
    oracle.append(exps)
    # arithmetic on narrowed operands whose result is narrowed again (a cast may only be dropped where the low byte of the result cannot depend on the high bytes)
    NEST = [('((x is byte) / 2) is byte', lambda x, y, w: ((x & 255) // 2) & 255), ('((x is byte) % 7) is byte', lambda x, y, w: ((x & 255) % 7) & 255), ('((x is byte) * 3) is byte', lambda x, y, w: ((x & 255) * 3) & 255),
            ('(-(x is byte)) is byte', lambda x, y, w: (-(x & 255)) & 255), ('((x is byte) + (y is byte)) is byte', lambda x, y, w: ((x & 255) + (y & 255)) & 255), ('((x is byte) - 1) is byte', lambda x, y, w: ((x & 255) - 1) & 255),
            ('((x is byte) / ((y is byte) + 1)) is byte', lambda x, y, w: ((x & 255) // ((y & 255) + 1)) & 255), ('((x + y) is byte) / 3', lambda x, y, w: ((x + y) & 255) // 3), ('(((x is byte) / 2) is byte) is int + 1000', lambda x, y, w: sgn((((x & 255) // 2) & 255) + 1000, w)),
            ('((x is byte) % ((y is byte) + 1)) is bool', None)]
    body = '    byte h = (x is byte) / 2; write(h is int); write(\' \'); byte m = (x is byte) % 7; write(m is int); write(\' \');\n'
    for e, f in NEST:
        if f is not None:
            body += '    write((%s) is int); write(\' \');\n' % e
    SRC_NEST = ('empty @is_you(const int[] zs) {\n  int n = zs.length / 2;\n  for (int i = 0; i < n; i += 1) {\n    int x = zs[i]; int y = zs[n + i];\n' + body + "    write(';');\n  }\n}\n")
    cfgs, exps = [], []
    for w in ws:
        g = grid(w, rng, 4 if q else 40) + [266, 256, 512, 300, 511, -266]
        pairs = [(a, rng.choice(g)) for a in g]
        exp = b''
        for x, y in pairs:
            exp += str(((x & 255) // 2) & 255).encode() + b' ' + str(((x & 255) % 7) & 255).encode() + b' '
            for e, f in NEST:
                if f is not None:
                    exp += str(f(x, y, w)).encode() + b' '
            exp += b';'
        cfgs.append(Cfg(tuple(str(a) for a, _ in pairs) + tuple(str(b) for _, b in pairs), w, 400, False))
        exps.append(exp)
    units.append((SRC_NEST, cfgs))
    oracle.append(exps)
    # casts and unary operators as CONDITIONS (if / while / for / not / and / or / defeat argument): the branch lowering strips
    # some cast wrappers and must still truncate / test exactly what the value lowering does
    CONDS = [('x is byte', lambda x, w: (x & 255) != 0), ('(x is byte) is int', lambda x, w: (x & 255) != 0), ('((x is byte) is int) is bool', lambda x, w: (x & 255) != 0),
             ('b', lambda x, w: (x & 255) != 0), ('b is int', lambda x, w: (x & 255) != 0), ('t is int', lambda x, w: x != 0), ('t is byte', lambda x, w: x != 0),
             ('(t is byte) is int', lambda x, w: x != 0), ('-x', lambda x, w: x != 0), ('+x', lambda x, w: x != 0), ('-(b is int)', lambda x, w: (x & 255) != 0),
             ('(x is byte) is bool', lambda x, w: (x & 255) != 0), ('(x + x) is byte', lambda x, w: ((2 * x) & 255) != 0), ('x * 2', lambda x, w: sgn(2 * x, w) != 0),
             ('(x is bool) is byte', lambda x, w: x != 0), ('x is int', lambda x, w: x != 0), ('(b is int) * 256', lambda x, w: w > 2 and (x & 255) != 0 or w == 2 and sgn((x & 255) * 256, w) != 0)]
    body = ''
    for c, _ in CONDS:
        body += ("    if (%s) { write('T'); } else { write('F'); } if (not (%s)) { write('T'); } else { write('F'); } while (%s) { write('W'); break; } "
                 "for (int k = 0; %s; k += 1) { write('L'); break; } if ((%s) and t) { write('A'); } else { write('a'); } if ((%s) or (x == 3)) { write('O'); } else { write('o'); }\n"
                 "    try { !truth_is_defeat((%s) is bool); write('f'); } undo { write('t'); } write(((%s) is bool) is int); write(',');\n") % ((c,) * 8)
    SRC_COND = ('empty @is_you(const int[] xs) {\n  for (int i = 0; i < xs.length; i += 1) {\n    int x = xs[i]; byte b = x is byte; bool t = x is bool;\n' + body
                + "    write(';');\n  }\n}\n")
    cfgs, exps = [], []
    for w in ws:
        g = grid(w, rng, 6 if q else 100) + [256, 512, -256, 768, 65280 if w > 2 else -512, 1 << (8 * w - 2)]
        exp = b''
        for x in g:
            for c, f in CONDS:
                v = bool(f(x, w))
                t = x != 0
                exp += (b'T' if v else b'F') + (b'F' if v else b'T') + (b'W' if v else b'') + (b'L' if v else b'') + (b'A' if (v and t) else b'a') + (b'O' if (v or x == 3) else b'o')
                exp += (b't' if v else b'f') + (b'1' if v else b'0') + b','
            exp += b';'
        cfgs.append(Cfg(tuple(str(v) for v in g), w, 400, False))
        exps.append(exp)
    units.append((SRC_COND, cfgs))
    oracle.append(exps)
    # the same operators on LITERAL operands (compile-time folding path), for in-range operands only
    small = [0, 1, -1, 2, -2, 7, 10, 127, 128, 255, 256, -128]
    for op in BIN:
        parts = []
        exps = {w: b'' for w in ws}
        for a in small:
            for b in small:
                if op in '/%' and b == 0:
                    continue
                la = '(%d)' % a if a < 0 else str(a)
                lb = '(%d)' % b if b < 0 else str(b)
                e = '(%s %s %s)' % (la, op, lb) if op not in ('and', 'or') else '((%s is bool) %s (%s is bool))' % (la, op, lb)
                parts.append('write(%s); write(\';\');' % e)
                for w in ws:
                    r = spec_bin(op, a, b, w)
                    exps[w] += ((b'true' if r[1] else b'false') if r[0] == 'bool' else str(r[1]).encode()) + b';'
        units.append(('empty @is_you() {\n' + '\n'.join(parts) + '\n}\n', [Cfg((), w, 100, False) for w in ws]))
        oracle.append([exps[w] for w in ws])
    # division/modulo by zero is a fault in every position
    SRC_DZ = 'empty @is_you(int a, int b) { write(a / b); }\n'
    units.append((SRC_DZ, [Cfg(('7', '0'), w, 100, False) for w in ws]))
    oracle.append([None] * len(ws))
    results = diffrun.run_units(units, want_ref=False, fuel=3_000_000)
    total = 0
    distinct = set()
    for (src, _), rs, exps in zip(units, results, oracle):
        for res, exp in zip(rs, exps):
            total += 1
            end, flags, out = hidrun.terminal(res.run)
            distinct.add(hash((src, res.cfg)))
            ok = (end == 'error' and flags == ['division_by_zero', 'error']) if exp is None else (end == 'win' and out == exp)
            if not ok:
                first = ''
                if exp is not None:
                    got = out.split(b';')
                    want = exp.split(b';')
                    n = len(res.cfg.args) // 2
                    for k, (gk, wk) in enumerate(zip(got, want)):
                        if gk != wk:
                            first = 'operands #%d: a=%s b=%s expected %r got %r' % (k, res.cfg.args[k] if k < len(res.cfg.args) else '?', res.cfg.args[n + k] if n + k < len(res.cfg.args) else '-', wk, gk)
                            break
                ctx.violate('operator/cast result differs from the specification', cls='operator', source=src, w=res.cfg.w, first_difference=first,
                            args=list(res.cfg.args)[:130], got=[end, flags, out[:200].decode('latin1')], detail=res.run.detail)
    ctx.cov['evaluations'] += total
    ctx.cov['distinct_nontrivial'] = ctx.cov.get('distinct_nontrivial', 0) + len(distinct)
    ctx.cov['rule'] = ctx.cov.get('rule', '') + ' | ' + ('every binary operator x every pair of the boundary grid (0, +-1, +-2, 127/128, 255/256, -128/-129, min/max signed and neighbours, +-10, 7, random) x three positions '
                       '(value, if-condition, !truth_is_defeat) at word sizes %s, operands read from argv so nothing is folded; unary operators and every cast on the same grid; '
                       'expected results computed by the harness; one evaluation = one program run covering up to 64 operand pairs' % ws)
    ctx.cov['samples'] = (ctx.cov.get('samples') or []) + [{'source': units[3][0], 'args_head': list(units[3][1][0].args)[:8]}]
    ctx.cov['exhaustive'] = True
