"""C18 - builds are reproducible and options do not change meaning."""
import hashlib, json, os, random, subprocess, sys
import sweeps, hidrun, diffrun, gen, genhist
from sweeps import ALL, WS, program_units
from diffrun import Cfg
from common import REPO, VERIF

PROPS_VO = ['Props/C18.vo', 'Props/C18_lint.vo']
GEN_ITEMS = ['coq/Gen/GenLayout.v', 'coq/Gen/GenExit.v']
GEN_FROM = {'regen_exit': ['coq/Gen/GenExit.v']}
LEVEL = 'proof'
TRUSTED = ['PARTIAL: proved = --lint (unreachable_error) only ever adds the verdict "Unreachable statement" and leaves the checked tree of accepted programs unchanged (model of CodeBlock.evaluate / FuncDeclaration.evaluate, corresponded); '
           'every stack guard that passes at gap g passes at every larger gap (stack_monotone); '
           'NOT expressible in a Coq model: dependence of the emitted text on hash seeds / process state (Python runtime behaviour) - decided by experiment in fresh processes; word-size monotonicity is checked on the VM against the reference semantics\' no-wrap verdict']
ASSUMPTIONS = ['hash-seed independence is an experiment over PYTHONHASHSEED in {0, 1, 3 random} x fresh processes plus twice in one process']

# programs whose meaning depends on an ORDER the compiler must fix itself (overload declaration
# order, preferred element type of mixed array literals, label numbering, global materialisation)
ORDER_SENSITIVE = [
    '''empty show(const byte[] a) { write("bytes:"); writeln(a); }
empty show(const int[] a) { write("ints:"); for (int i = 0; i < a.length; i += 1) { write(a[i]); write(' '); } writeln(); }
empty @is_you() { byte b = 'B'; show([65, b]); writeln([65, b][0]); show([b, 66]); bool t = true; show([1, 2]); }
''',
    '''empty f(int x) { write("i"); } empty f(byte x) { write("b"); } empty f(bool x) { write("t"); } empty f(string x) { write("s"); }
empty g(byte x, int y) { write("bi"); } empty g(int x, byte y) { write("ib"); } empty g(int x, int y) { write("ii"); }
empty @is_you() { f(1); f('a'); f(true); f("x"); byte b = 1; f(b); f(b + 1); g(1, 2); g(b, 2); g(2, b); g(b, b); }
''',
    '''int ga = 1; byte gb = 'x'; bool gc = true; string gd = "s"; int[] ge = [1, 2]; const byte[] gf = ['a']; bool[] gg = [true, false];
empty @is_you() { write(gd); write(gc); write(gb); write(ga); write(gg[1]); write(gf); write(ge[1]); gg[0] = false; ge[0] = 5; ga = 2; gb = 'y'; write("x"); write("y"); write("x"); }
''',
    '''empty @is_you() { string[] ss = ["b", "a", "b", "c", "a"]; for (int i = 0; i < ss.length; i += 1) { write(ss[i]); } write([1, 'a', 2][1]); write(['a', 1][0]); write([true, false][1]); }
''',
]

# pairs that only differ if one compilation leaves something behind for the next one in the same process
LEAKY = [
    'empty write(const int[] a) { write("ints"); write(a.length); }\nempty writeln(bool[] m) { write("bools"); }\nempty sleep(string s) { write(s); }\nempty @is_you() { write([2, 7, 1]); bool[] m = [true]; writeln(m); sleep("z"); }\n',
    'empty @is_you() { write([2, 7, 1]); writeln([\'a\', \'b\']); write("s" is byte[]); sleep(1); }\n',
    'int helper(int x) { return x + 1; }\nint g = 5;\nempty @is_you() { write(helper(g)); string s = "shared"; write(s); }\n',
    'int helper(byte x) { return x - 1; }\nbyte g = \'q\';\nempty @is_you() { write(helper(g)); string s = "shared"; write(s); write("other"); }\n',
    'empty write(int[] x) { write(x.length); }\nempty @is_you() { int[] v = [1, 2]; write(v); }\n',
    'empty @is_you() { int[] v = [1, 2]; const int[] c = [3]; write(v[0]); write(c[0]); write([4, 5]); }\n',
]

WORKER = r'''
import sys, json, hashlib
sys.path.insert(0, %r)
from hidc.lexer import SourceCode
from hidc.parser import parse
from hidc.ast import Environment
from hidc.codegen import CodeGen
from hidc.errors import CompilerError
srcs = json.load(open(sys.argv[1]))
order = list(range(len(srcs)))
if len(sys.argv) > 2 and sys.argv[2] == 'reverse':
    order.reverse()
out = [None] * len(srcs)
for k in order:
    src, w, stack, unchecked = srcs[k]
    res = []
    for rep in range(2):
        try:
            env = Environment.empty()
            parse(SourceCode.from_string(src)).evaluate(env)
            lines = list(CodeGen(env, word_size=w, stack_size=stack, unchecked=unchecked).gen_lines())
            res.append(hashlib.sha256(b"\n".join(lines)).hexdigest())
        except CompilerError as e:
            res.append("ERR " + type(e).__name__)
    out[k] = res
print(json.dumps(out))
'''


def run(ctx):
    rng = random.Random(ctx.seed)
    q = ctx.tier == 'quick'
    # static audit: a new iteration over a hash-ordered collection on the compile path
    import audit_sets
    found = set(audit_sets.audit(REPO))
    new = sorted(found - audit_sets.KNOWN)
    ctx.oblige('static audit: no iteration over a set/frozenset on the compile path beyond the audited ones', not new,
               '; '.join('%s: for ... in %s' % x for x in new[:4]))
    # (a) byte-identical output across processes and hash seeds
    srcs = [[d, 2, 100, False] for d in ORDER_SENSITIVE]
    srcs += [[d, 2, 100, False] for d in LEAKY]
    for i in range(40 if q else 300):
        src = gen.gen_program(ctx.seed * 7919 + i, ALL + ['tt'])
        srcs.append([src, rng.choice([2, 3, 4, 8]), rng.choice([64, 300]), rng.random() < 0.3])
    for i in range(15 if q else 100):
        srcs.append([genhist.gen_history(ctx.seed * 31 + i), 2, 300, False])
    for f in sorted(os.listdir(os.path.join(REPO, 'examples'))):
        if f.endswith('.hid'):
            srcs.append([open(os.path.join(REPO, 'examples', f)).read(), 2, 500, False])
    path = os.path.join(ctx.work, 'c18_srcs.json')
    json.dump(srcs, open(path, 'w'))
    seeds = ['0', '1'] + [str(rng.randrange(2, 2 ** 31)) for _ in range(3)]
    outs = []
    for k, s in enumerate(seeds):
        env = dict(os.environ, PYTHONHASHSEED=s, PYTHONPATH=REPO)
        # every second process compiles the list in reverse order: state leaking from one compilation into the next one in
        # the same process (module-level tables, caches, counters) then changes what some program compiles to
        p = subprocess.run(['/venv/bin/python', '-c', WORKER % REPO, path] + (['reverse'] if k % 2 else []), stdout=subprocess.PIPE, stderr=subprocess.PIPE, env=env, timeout=1800)
        if p.returncode != 0:
            ctx.oblige('reproducibility worker ran (PYTHONHASHSEED=%s)' % s, False, p.stderr.decode()[-300:])
            return
        outs.append(json.loads(p.stdout))
    nrep = 0
    for k, item in enumerate(srcs):
        hs = {h for o in outs for h in o[k]}
        nrep += 1
        if len(hs) != 1:
            ctx.violate('the same source and options produced different assembly in different processes / hash seeds / repetitions', cls='nondeterminism',
                        source=item[0], w=item[1], stack=item[2], unchecked=item[3], hashes=sorted(hs), seeds=seeds)
    ctx.oblige('byte-identical gen_lines() for %d programs x %d hash seeds (fresh processes) x 2 repetitions' % (len(srcs), len(seeds)), not any(v.get('cls') == 'nondeterminism' for v in ctx.violations))
    # (a') the command-line tool in processes with different locale / encoding environments: a UTF-8 source must give the same file
    cli_src = 'empty @is_you() { write("h\u00e9llo \u4e16\u754c \\u{1F30E} caf\u00e9"); write(\'\u00e9\' is int); }\n// \u00fcber\n'
    cpath = os.path.join(ctx.work, 'c18_utf8.hid')
    open(cpath, 'w', encoding='utf-8').write(cli_src)
    envs = [{}, {'LC_ALL': 'C', 'PYTHONUTF8': '0'}, {'LC_ALL': 'C', 'PYTHONUTF8': '0', 'PYTHONCOERCECLOCALE': '0'}, {'LC_ALL': 'POSIX', 'PYTHONCOERCECLOCALE': '0'},
            {'PYTHONUTF8': '1'}, {'LC_ALL': 'C.utf8'}, {'LANG': 'C', 'LC_CTYPE': 'C', 'PYTHONUTF8': '0', 'PYTHONIOENCODING': 'latin-1'}]
    seen = {}
    for k, e in enumerate(envs):
        outp = os.path.join(ctx.work, 'c18_utf8_%d.s' % k)
        if os.path.exists(outp):
            os.remove(outp)
        base = {kk: vv for kk, vv in os.environ.items() if kk not in ('LC_ALL', 'LANG', 'LC_CTYPE', 'PYTHONUTF8', 'PYTHONCOERCECLOCALE', 'PYTHONIOENCODING')}
        p = subprocess.run(['/venv/bin/python', '-m', 'hidc', cpath, '-o', outp], cwd=REPO, env=dict(base, PYTHONPATH=REPO, **e), stdout=subprocess.PIPE, stderr=subprocess.PIPE, timeout=120)
        seen[json.dumps(e, sort_keys=True)] = (p.returncode, hashlib.sha256(open(outp, 'rb').read()).hexdigest()[:16] if os.path.exists(outp) else None, p.stderr.decode(errors='replace')[-160:])
    if len({(v[0], v[1]) for v in seen.values()}) != 1:
        ctx.violate('the same UTF-8 source compiled differently (or not at all) depending on the locale / encoding environment of the process', cls='env_dependence',
                    source=cli_src, outcomes=seen)
    ctx.cov['evaluations'] = ctx.cov.get('evaluations', 0) + len(envs)
    # (b) larger stacks and wider words do not change completed runs; (c) lint
    units = program_units(rng, 70 if q else 800, ALL + ['tt'], [2], cfgs_per=1, seed_base=ctx.seed + 1800, stack=40)
    big = []
    for src, cfgs in units:
        c = cfgs[0]
        S = rng.choice([12, 20, 40, 64])
        big.append((src, [Cfg(c.args, w, s, False) for w in (2, 3, 4, 8) for s in (S, S + 1, 2 * S, 10 * S)]))
    results = diffrun.run_units(big)
    total = mono_s = mono_w = 0
    distinct = set()
    for (src, _), rs in zip(big, results):
        byw = {}
        for res in rs:
            total += 1
            byw.setdefault(res.cfg.w, []).append(res)
        for w, group in byw.items():
            base = hidrun.terminal(group[0].run)
            if group[0].run.status != 'ran' or base[0] not in ('win', 'error') or 'stack_overflow' in base[1]:
                continue
            for res in group[1:]:
                mono_s += 1
                distinct.add(hash((src, res.cfg)))
                t = hidrun.terminal(res.run)
                if t != base and t[0] != 'fuel':
                    ctx.violate('a run that completed without stack overflow behaves differently at a larger stack size', cls='stack_monotone', source=src, args=list(res.cfg.args), w=w,
                                small_stack=group[0].cfg.stack, large_stack=res.cfg.stack, small=[base[0], base[1], base[2][:200].decode('latin1')], large=[t[0], t[1], t[2][:200].decode('latin1')])
        # word monotonicity: reference says no value left the narrower word
        ws = sorted(byw)
        for i, w in enumerate(ws):
            g = byw[w][-1]          # largest stack
            if not g.ref or g.ref[0] not in ('win', 'error') or (g.extra or {}).get('wrapped') or g.diff:
                continue
            tb = hidrun.terminal(g.run)
            if 'stack_overflow' in tb[1] or tb[0] == 'fuel':
                continue
            for w2 in ws[i + 1:]:
                g2 = byw[w2][-1]
                t2 = hidrun.terminal(g2.run)
                if 'stack_overflow' in t2[1] or t2[0] == 'fuel':
                    continue
                mono_w += 1
                if t2 != tb:
                    ctx.violate('a run whose values fit the narrower word behaves differently at a wider word size', cls='word_monotone', source=src, args=list(g.cfg.args),
                                narrow=w, wide=w2, at_narrow=[tb[0], tb[1], tb[2][:200].decode('latin1')], at_wide=[t2[0], t2[1], t2[2][:200].decode('latin1')])
    # lint: rejected, or identical instruction stream
    from hidc.errors import CompilerError
    nlint = 0
    for src, cfgs in units[:40 if q else 400] + [(s[0], [Cfg((), 2, 100, False)]) for s in srcs[-9:]]:
        try:
            plain = hidrun.compile_lines(src, 2, 100)
        except CompilerError:
            continue
        nlint += 1
        try:
            lint = hidrun.compile_lines(src, 2, 100, opts={'unreachable_error': True})
        except CompilerError as e:
            if 'nreachable' not in str(e):
                ctx.violate('--lint rejected a program for a reason other than an unreachable statement', cls='lint', source=src, error=str(e)[:200])
            continue
        if lint != plain:
            ctx.violate('--lint changed the generated code of an accepted program', cls='lint', source=src)
    ctx.cov['evaluations'] += total + nrep * len(seeds) * 2 + nlint
    ctx.cov['distinct_nontrivial'] = len(distinct) + nrep
    ctx.cov['rule'] = ('(a) %d programs compiled in fresh processes under PYTHONHASHSEED in %s and twice per process: sha256 of gen_lines() must coincide; '
                       '(b) %d (program, input, word size) runs completing without stack_overflow at S repeated at S+1, 2S, 10S; '
                       '(c) %d pairs (w < w\') where the reference semantics saw no value leave the w-byte word: VM output must coincide; '
                       '(d) %d programs compiled with and without unreachable_error: rejected with "Unreachable statement" or identical lines') % (nrep, seeds, mono_s, mono_w, nlint)
    ctx.cov['samples'] = [{'source': srcs[0][0][:600], 'w': srcs[0][1], 'stack': srcs[0][2], 'unchecked': srcs[0][3]}]
