"""C14 - compile-time evaluation is invisible."""
import random
import hidrun, diffrun, known
from diffrun import Cfg
from component import run_corr

PROPS_VO = ['Props/C14_fold.vo']
GEN_ITEMS = ['coq/Gen/GenTypes.v']
GEN_FROM = {'regen_types': ['coq/Gen/GenTypes.v']}
LEVEL = 'proof'
TRUSTED = ['Fold.v models simplify()/literal casts on unbounded Z as the code does; rt_op is the run-time word semantics (A-DIV: floor division)',
           'C14_full_statement is REFUTED in the model (fold_*_refuted witnesses: 40000/3, 40000 > 0, 1/65536 at w = 2): known finding F5; the folded byte cast is proved to agree with the run-time cast for all values (C14_fold_byte_cast_agrees), see known_findings.txt']
ASSUMPTIONS = ['a twin difference is attributed to F5 only if the constant evaluation has an intermediate value outside the signed word range or a byte cast outside 0..255 (tools/known.py:const_events); '
               'by Fold.fold_agrees_inrange no other constant expression may differ']

GRID = [0, 1, -1, 2, 3, 7, 10, 127, 128, 255, 256, 300, 32767, 32768, 40000, 65535, 65536, -32768, -32769, -128, -129, 100000, 8388607, 8388608, -8388608]
ARITH = ['+', '-', '*', '/', '%']
CMP = ['<', '>', '<=', '>=', '==', '!=']


def gen_tree(rng, depth, want):
    """want in int/bool/byte -> tree"""
    if want == 'int':
        c = rng.random()
        if depth <= 0 or c < 0.3:
            return ('lit', rng.choice(GRID) if rng.random() < 0.8 else rng.randrange(-70000, 70000))
        if c < 0.7:
            return ('bin', rng.choice(ARITH), gen_tree(rng, depth - 1, 'int'), gen_tree(rng, depth - 1, 'int'))
        if c < 0.78:
            return ('neg', gen_tree(rng, depth - 1, 'int'))
        if c < 0.82:
            return ('pos', gen_tree(rng, depth - 1, 'int'))
        if c < 0.92:
            return ('isint', gen_tree(rng, depth - 1, rng.choice(['byte', 'bool'])))
        return ('bin', rng.choice(ARITH), gen_tree(rng, depth - 1, 'int'), ('isint', gen_tree(rng, depth - 1, 'byte')))
    if want == 'byte':
        return ('isbyte', gen_tree(rng, depth - 1, rng.choice(['int', 'int', 'bool'])))
    c = rng.random()
    if depth <= 0 or c < 0.15:
        return ('bool', rng.random() < 0.5)
    if c < 0.55:
        return ('bin', rng.choice(CMP), gen_tree(rng, depth - 1, 'int'), gen_tree(rng, depth - 1, 'int'))
    if c < 0.75:
        return ('bin', rng.choice(['and', 'or']), gen_tree(rng, depth - 1, 'bool'), gen_tree(rng, depth - 1, 'bool'))
    if c < 0.85:
        return ('not', gen_tree(rng, depth - 1, 'bool'))
    return ('isbool', gen_tree(rng, depth - 1, 'int'))


def render(t, lits, mode):
    """mode 'const': literals in place; 'var': literal #k becomes xs[k]; 'cvar': const variables"""
    k = t[0]
    if k == 'lit':
        lits.append(t[1])
        i = len(lits) - 1
        if mode == 'const':
            return '(%d)' % t[1] if t[1] < 0 else str(t[1])
        return 'xs[%d]' % i if mode == 'var' else 'k%d' % i
    if k == 'bool':
        lits.append(int(t[1]))
        i = len(lits) - 1
        if mode == 'const':
            return 'true' if t[1] else 'false'
        return '(xs[%d] != 0)' % i if mode == 'var' else 'k%d' % i
    if k in ('neg', 'pos', 'not'):
        return '(%s%s)' % ({'neg': '-', 'pos': '+', 'not': 'not '}[k], render(t[1], lits, mode))
    if k in ('isbyte', 'isint', 'isbool'):
        return '(%s is %s)' % (render(t[1], lits, mode), k[2:])
    a = render(t[2], lits, mode)
    b = render(t[3], lits, mode)
    return '(%s %s %s)' % (a, t[1], b)


def ttype(t):
    k = t[0]
    if k in ('lit', 'neg', 'pos', 'isint'):
        return 'int'
    if k == 'isbyte':
        return 'byte'
    if k == 'bin' and t[1] in ARITH:
        return 'int'
    return 'bool'


def program(tree, mode):
    lits = []
    e = render(tree, lits, mode)
    wr = 'write(%s is int);' % e if ttype(tree) == 'byte' else 'write(%s);' % e
    if mode == 'cvar':
        decls = ''
        lits2 = []
        render(tree, lits2, 'const')
        # declare const variables with the literal values (bool literals as const bool)
        idx = [0]

        def walk(t):
            if t[0] == 'lit':
                i = idx[0]; idx[0] += 1
                return 'const int k%d = %s;\n' % (i, '(%d)' % t[1] if t[1] < 0 else t[1])
            if t[0] == 'bool':
                i = idx[0]; idx[0] += 1
                return 'const bool k%d = %s;\n' % (i, 'true' if t[1] else 'false')
            return ''.join(walk(x) for x in t[1:] if isinstance(x, tuple))
        decls = walk(tree)
        return decls + 'empty @is_you(const int[] xs) { %s }\n' % wr, lits
    return 'empty @is_you(const int[] xs) { %s }\n' % wr, lits


def run(ctx):
    run_corr(ctx, 'corr_types', 'expressions.py / operators.py elaboration and folding vs Types/Fold model')
    rng = random.Random(ctx.seed)
    q = ctx.tier == 'quick'
    # canonical witnesses of the known findings run first, so that each is reported on every run
    trees = [('bin', '/', ('lit', 40000), ('lit', 3)), ('bin', '>', ('lit', 40000), ('lit', 0)),
             ('bin', 'and', ('bin', '>', ('lit', 1), ('lit', 2)), ('bin', '>=', ('bin', '/', ('lit', 256), ('lit', 0)), ('lit', 1)))]
    # exhaustive pairs over the grid for every binary operator (depth 1), then random depth <= 3 (quick) / 5
    g = GRID if not q else GRID[:19]
    for op in ARITH + CMP:
        for a in g:
            for b in g:
                if not q or rng.random() < 0.12:
                    trees.append(('bin', op, ('lit', a), ('lit', b)))
    for v in GRID:
        trees += [('isint', ('isbyte', ('lit', v))), ('isbool', ('lit', v)), ('bin', '/', ('lit', 4), ('isint', ('isbyte', ('lit', v)))), ('neg', ('lit', v))]
    for _ in range(500 if q else 6000):
        trees.append(gen_tree(rng, rng.choice([2, 3] if q else [2, 3, 4, 5]), rng.choice(['int', 'int', 'bool', 'byte'])))
    units, meta = [], []
    ws = [2, 3, 4]
    for ti, t in enumerate(trees):
        mode = 'const' if (ti < 4 or rng.random() < 0.8) else 'cvar'
        src_c, lits = program(t, mode)
        src_v, _ = program(t, 'var')
        args = tuple(str(v) for v in lits)
        units.append((src_c, [Cfg(args, w, 100, False) for w in ws]))
        units.append((src_v, [Cfg(args, w, 100, False) for w in ws]))
        meta.append(t)
    results = diffrun.run_units(units, want_ref=False)
    total = nontriv = 0
    distinct = set()
    inclass = 0
    for k, t in enumerate(meta):
        rc, rv = results[2 * k], results[2 * k + 1]
        for a, b in zip(rc, rv):
            total += 2
            ta, tb = hidrun.terminal(a.run), hidrun.terminal(b.run)
            w = a.cfg.w
            distinct.add(hash((t, w)))
            if b.run.status != 'ran' or tb[0] == 'fuel':
                continue
            if a.run.status == 'compile_error':
                # rejected at compile time: only allowed if the run-time twin faults
                if tb[0] == 'error' and 'division_by_zero' in tb[1]:
                    nontriv += 1
                    continue
                same = False
            elif a.run.status != 'ran':
                continue
            else:
                same = ta == tb
            if same:
                nontriv += 1
                continue
            v = dict(cls='fold_twin', tree=t, w=w, constant_form=units[2 * k][0], variable_form=units[2 * k + 1][0], args=list(a.cfg.args),
                     constant_result=[ta[0], ta[1], ta[2].decode('latin1'), a.run.detail], variable_result=[tb[0], tb[1], tb[2].decode('latin1')])
            if known.const_events(t, w):
                inclass += 1
            ctx.violate('constant form and run-time twin behave differently', **v)
    ctx.cov['evaluations'] += total
    ctx.cov['distinct_nontrivial'] += len(distinct)
    ctx.cov['rule'] = (ctx.cov.get('rule', '') + ' | twins: every constant expression (all operator x grid pairs%s, casts over the grid, random trees to depth %d) is compiled as written (or over const variables) '
                       'and with every literal replaced by an argv element of the same value; both run on the verified VM at w in {2,3,4}; %d twin differences fell into the F5 class') % (
                           ' sampled' if q else '', 3 if q else 5, inclass)
    ctx.cov['samples'] = (ctx.cov.get('samples') or []) + [{'constant_form': units[0][0], 'variable_form': units[1][0], 'args': list(units[0][1][0].args)}]
