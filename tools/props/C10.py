"""C10 - the compiler is total: every input yields assembly or a located diagnostic."""
import os, random, subprocess, sys, traceback, json
from concurrent.futures import ProcessPoolExecutor
import gen, genhist, sasm
from common import REPO, VERIF

PROPS_VO = ['Props/C10.vo']
GEN_ITEMS = []
LEVEL = 'proof'
TRUSTED = ['PARTIAL - runtime behaviour outside the model: a Python exception escaping the compiler (AssertionError, KeyError, UnicodeError, RecursionError, ...) is partiality of the implementation language, '
           'which no total Gallina function exhibits.  Proved in the models: the lexer model never runs out of fuel and every reported span lies inside the text (C12 theorems), the expression parser / context / '
           'exit / type models are total functions returning OK or an error kind; decided by experiment: exception type leaving parse/evaluate/CodeGen/gen_lines on fuzzed inputs, diagnostic rendering, CLI exit status / output file, '
           'acceptance of every successful output by the strict assembler']
ASSUMPTIONS = ['nesting depth of inputs is bounded (<= 40) as the property states']

KW = ['if', 'else', 'while', 'for', 'try', 'undo', 'stop', 'preempt', 'break', 'continue', 'return', 'const', 'int', 'bool', 'byte', 'string', 'empty',
      'true', 'false', 'and', 'or', 'not', 'is', 'length']
SYM = ['+', '-', '*', '/', '%', '==', '!=', '<', '>', '<=', '>=', '??', '=', '+=', '-=', '*=', '/=', '%=', ';', ',', '.', '(', ')', '{', '}', '[', ']']
IDS = ['x', 'y', 'f', 'g', '@is_you', '@y', '!d', '!is_defeat', '!truth_is_defeat', 'write', 'writeln', 'all_is_win', 'sleep', 'a', 'b']
LITS = ['0', '1', '7', '255', '256', '65536', '0x1F', '0b101', '0o17', '1_000', "'a'", "'\\n'", "'\\x41'", '"hi"', '""', '"\\u{1F30E}"', '"a\\\\b"', "'\\\\'", '99999999999999999999']
ODD = ['"\\u{80000000}"', '"\\u{d800}"', '"\\xZZ"', "'ab'", "''", '"unterminated', "'", '0x', '0b2', '1__2', '09', '@', '!', '@if', '#', '$', '`', '\t', '\n', '//c\n', '\u00e9', '\u0663', '\u2028', '\x00',
       '1' * 4400, '"\\', '/* x */', '\\', '"\\u{}"', '"\\u{110000}"', "'\\u{ff}'", '0x_1', '1_', '_1']


def soup(rng):
    n = rng.randrange(1, 40)
    out = []
    for _ in range(n):
        c = rng.random()
        out.append(rng.choice(KW) if c < 0.3 else rng.choice(SYM) if c < 0.65 else rng.choice(IDS) if c < 0.8 else rng.choice(LITS) if c < 0.95 else rng.choice(ODD))
    return ' '.join(out)


def chars(rng):
    alpha = 'abxyif(){}[];=+-*/%<>!@"\'\\ \n\t0123456789_.,?&|#$\u00e9\u4e2d'
    return ''.join(rng.choice(alpha) for _ in range(rng.randrange(0, 80)))


def tokens_of(src):
    import re
    return re.findall(r'"(?:\\.|[^"\\])*"|\'(?:\\.|[^\'\\])*\'|[@!]?[A-Za-z_]\w*|0x[0-9a-fA-F_]+|\d[\d_]*|\?\?|[=!<>+\-*/%]=|\s+|.', src)


def mutate(rng, src):
    toks = tokens_of(src)
    if not toks:
        return src
    for _ in range(rng.randrange(1, 4)):
        k = rng.random()
        i = rng.randrange(len(toks))
        if k < 0.2:
            del toks[i]
        elif k < 0.35:
            toks.insert(i, toks[i])
        elif k < 0.5:
            j = rng.randrange(len(toks))
            toks[i], toks[j] = toks[j], toks[i]
        elif k < 0.7:
            toks[i] = rng.choice(KW + SYM + IDS + LITS)
        elif k < 0.8:
            toks.insert(i, rng.choice(KW + SYM + IDS + LITS + ODD))
        elif k < 0.9:
            toks = toks[:i]          # truncate: end-of-file diagnostics
        else:
            swaps = {'int': 'byte', 'byte': 'int', 'bool': 'int', 'string': 'int', 'const': '', '[': '(', ']': ')', 'undo': 'stop', '@': '!', '!': '@'}
            toks = [swaps.get(t, t) if rng.random() < 0.15 else t for t in toks]
        if not toks:
            break
    return ''.join(toks)


CORPUS = [
    # minimised failures found earlier (known_findings.txt); they run first
    ('empty f() {}\nempty @is_you() { write([f()].length); }\n', 'empty-typed array element'),
    ('empty @is_you() { string s = "abc"; s[0] = \'x\'; }\n', 'assignment to a string element'),
    ('empty @is_you() { string s = "abc"; s[0] += 1; }\n', 'compound assignment to a string element'),
    ('empty @is_you() { write("\\u{80000000}"); }\n', 'code point beyond chr() range'),
    ('empty @is_you() { write(' + '1' * 4400 + '); }\n', 'decimal literal longer than the int conversion limit'),
    ('empty @is_you() { write(\'\\\\\'); write("a\\\\b"); }\n', 'backslash constants'),
    ('empty @is_you(int n) { bool a[n]; write(a.length); }\n', 'bool VLA'),
]


def classify(args):
    """compile one input in-process -> (kind, detail)"""
    text, w, stack, unchecked, lint = args
    sys.setrecursionlimit(3000)
    from hidc.lexer import SourceCode
    from hidc.parser import parse
    from hidc.ast import Environment
    from hidc.codegen import CodeGen
    from hidc.errors import CompilerError
    try:
        source = SourceCode.from_string(text)
    except Exception as e:
        return ('escape', 'SourceCode.from_string: %s: %s' % (type(e).__name__, e))
    try:
        env = Environment.empty(unreachable_error=lint)
        parse(source).evaluate(env)
        cg = CodeGen(env, word_size=w, stack_size=stack, unchecked=unchecked)
        lines = list(cg.gen_lines())
    except CompilerError as e:
        # the diagnostic must be renderable and lie inside the source
        try:
            info = e.get_info(source)
        except Exception as e2:
            return ('bad_diagnostic', 'get_info raised %s: %s (for %s: %s)' % (type(e2).__name__, e2, type(e).__name__, e))
        nl = len(source.lines)
        for span in e.context:
            st = span.start
            ln = source.lines[st.line] if 0 <= st.line < nl else None
            if ln is None or not (0 <= st.col <= len(ln)):
                return ('bad_diagnostic', 'position %s outside the source (%d lines)' % (st, nl))
        return ('compile_error', type(e).__name__)
    except RecursionError:
        return ('recursion', '')
    except Exception as e:
        tb = traceback.extract_tb(sys.exc_info()[2])
        where = '%s:%d' % (os.path.basename(tb[-1].filename), tb[-1].lineno) if tb else '?'
        return ('escape', '%s at %s: %s' % (type(e).__name__, where, str(e)[:120]))
    # success: the strict assembler must accept the text
    try:
        argv = ()
        for l in lines:
            if l.startswith(b'%argv'):
                specs = l.split()[1:]
                argv = tuple('0' for s in specs if not s.startswith(b'['))
        sasm.assemble(lines, argv)
    except sasm.AsmTooBig:
        return ('ok', 'image too large to build')
    except sasm.AsmError as e:
        return ('bad_output', 'strict assembler rejects the output: %s' % e)
    return ('ok', '')


def depth_of(text):
    d = m = 0
    for ch in text:
        if ch in '([{':
            d += 1
            m = max(m, d)
        elif ch in ')]}':
            d -= 1
    return m


def cli_cases(ctx, rng):
    """python -m hidc in a subprocess: exit status, stderr, output file."""
    work = os.path.join(ctx.work, 'cli')
    os.makedirs(work, exist_ok=True)
    good = open(os.path.join(REPO, 'examples', 'hello.hid')).read()
    bad = 'empty @is_you() { int x = ; }\n'
    cases = [(good.encode(), ['-m', '16']), (good.encode(), ['-m', '24', '-s', '100']), (good.encode(), ['-m', '64', '--unchecked']), (good.encode(), ['--lint']),
             (good.encode(), ['-m', '8']), (good.encode(), ['-m', '12']), (good.encode(), ['-m', '72']), (good.encode(), ['-s', '-5']), (good.encode(), ['-s', '0']),
             (good.encode(), ['-s', '1000000']), (good.encode(), ['-s', '20000', '-m', '16']), (bad.encode(), []), (bad.encode(), ['--lint']),
             (b'empty @is_you() { write("\xff\xfe"); }\n', []), (b'\xff\xfe\x00', []), (b'', []), (b'empty @is_you() {', []),
             ('empty @is_you() { write("h\u00e9llo \\u{1F30E}"); }\n'.encode('utf-8'), []), (gen.gen_program(ctx.seed, ['arrays', 'strings', 'calls', 'tt']).encode(), ['-m', '32']),
             (genhist.gen_history(ctx.seed).encode(), ['--unchecked', '-s', '64']),
             # errors that only the code generator finds (after typechecking succeeded)
             (b'int[] weights = [1, 2];\nint total = weights[0] + weights[1];\nempty @is_you() { write(total); }\n', []),
             (b'int table[20000];\nempty @is_you() { table[0] = 1; write(table[0]); }\n', ['-m', '16']),
             (b'empty f() { }\n', []), (b'empty @is_you(bool b) { }\n', []), (b'empty @is_you() { }\nempty @is_you(int a) { }\n', []),
             (b'int @is_you() { return 1; }\n', []), (b'empty @is_you(string[] a) { }\n', []), (b'empty @is_you(const string[] a, int[] b) { }\n', []),
             (b'int g = 1;\nint h = g + 1;\nempty @is_you() { write(h); }\n', []), (b'string s = "a";\nbyte c = s[0];\nempty @is_you() { write(c); }\n', []),
             # integers beyond CPython's int <-> str digit limit: literals in every base, folded products, bounds of very wide words
             (b'empty @is_you() { write(0x' + b'f' * 4000 + b'); }\n', []), (b'empty @is_you() { int x = 0b' + b'1' * 16000 + b'; write(x); }\n', ['-m', '24']),
             (b'empty @is_you() { write(0o' + b'7' * 6000 + b' == 1); }\n', ['--unchecked']), (b'int g = 0x' + b'9' * 3600 + b';\nempty @is_you() { write(g); }\n', []),
             (b'const int[] t = [1, 0x' + b'a' * 3700 + b'];\nempty @is_you() { write(t[1]); }\n', []),
             (b'empty @is_you() { write(' + b' * '.join([b'0x' + b'f' * 64] * 80) + b'); }\n', []), (b'empty @is_you() { write(' + b'9' * 5000 + b'); }\n', []),
             (good.encode(), ['-m', '14288']), (b'empty @is_you(int a) { write(a / 3); }\n', ['-m', '16000']), (good.encode(), ['-m', '80000', '--unchecked'])]
    n = 0
    for k, (data, opts) in enumerate(cases):
        src = os.path.join(work, 'in%d.hid' % k)
        out = os.path.join(work, 'out%d.s' % k)
        with open(src, 'wb') as f:
            f.write(data)
        if os.path.exists(out):
            os.remove(out)
        p = subprocess.run(['/venv/bin/python', '-m', 'hidc', src, '-o', out] + opts, cwd=REPO, stdout=subprocess.PIPE, stderr=subprocess.PIPE, timeout=120,
                           env=dict(os.environ, PYTHONPATH=REPO))
        n += 1
        err = p.stderr.decode(errors='replace')
        desc = dict(input=(data if len(data) <= 40000 else data[:200]).decode('latin1'), options=opts, exit=p.returncode, stderr=err[-400:])
        if 'Traceback (most recent call last)' in err:
            ctx.violate('command-line tool escaped with an internal exception', cls='cli_traceback', **desc)
            continue
        if p.returncode != 0 and os.path.exists(out):
            ctx.violate('command-line tool failed but left an output file', cls='cli_partial_output', **desc)
            continue
        if p.returncode == 0:
            if not os.path.exists(out):
                ctx.violate('command-line tool exited 0 without writing the output', cls='cli_no_output', **desc)
                continue
            lines = open(out, 'rb').read().split(b'\n')
            argv = ()
            for l in lines:
                if l.startswith(b'%argv'):
                    argv = tuple('0' for sp in l.split()[1:] if not sp.startswith(b'['))
            try:
                sasm.assemble(lines, argv)
            except sasm.AsmTooBig:
                pass
            except sasm.AsmError as e:
                ctx.violate('command-line tool exited 0 but the strict assembler rejects the file: %s' % e, cls='cli_bad_output', **desc)
    return n


def run(ctx):
    rng = random.Random(ctx.seed)
    q = ctx.tier == 'quick'
    inputs = [(t, 2, 64, False, False, 'corpus: ' + why) for t, why in CORPUS]
    N = 1 if q else 10
    for _ in range(250 * N):
        inputs.append((soup(rng), 2, 64, False, rng.random() < 0.3, 'token soup'))
    for _ in range(150 * N):
        inputs.append((chars(rng), 2, 64, False, False, 'random characters'))
    bases = [gen.gen_program(ctx.seed * 13 + i, ['arrays', 'strings', 'calls', 'globals', 'overloads', 'tt']) for i in range(25 * N)]
    bases += [genhist.gen_history(ctx.seed * 17 + i) for i in range(8 * N)]
    for f in sorted(os.listdir(os.path.join(REPO, 'examples'))):
        if f.endswith('.hid'):
            bases.append(open(os.path.join(REPO, 'examples', f)).read())
    for b in bases:
        inputs.append((b, rng.choice([2, 3, 4, 8, 9]), rng.choice([0, 1, 5, 64, 500]), rng.random() < 0.3, rng.random() < 0.3, 'valid program, random options'))
        for _ in range(6):
            inputs.append((mutate(rng, b), rng.choice([2, 4]), 64, rng.random() < 0.2, rng.random() < 0.3, 'mutated program'))
    import C14
    zgrid = [0, 0, 0, 1, -1, 2, 255, 256, 65536, -32768]
    old = C14.GRID
    C14.GRID = zgrid
    try:
        for _ in range(120 * N):
            t = C14.gen_tree(rng, rng.choice([1, 2, 3]), rng.choice(['int', 'int', 'bool', 'byte']))
            lits = []
            e = C14.render(t, lits, 'const')
            form = rng.choice(['write(%s);', 'int x = %s is int;', 'if (%s) { write(1); }', 'int[] a = [%s is int, 1]; write(a[0]);', 'while (%s) { break; }', 'return; write(%s);',
                               'int v[%s is int]; write(v.length);', 'write("abc"[%s is int]);', 'const int K = %s is int; write(K %% K); write(1 / K);'])
            pre = rng.choice(['', 'const int Z = 0;\n', 'const byte B = \'\\x00\';\n'])
            if pre.startswith('const int Z') and rng.random() < 0.7:
                e = e.replace('0', 'Z', 1) if '0' in e else e
            inputs.append((pre + 'empty @is_you() { ' + (form % e) + ' }\n', 2, 64, False, rng.random() < 0.2, 'constant expression in a position'))
    finally:
        C14.GRID = old
    for src in ['empty @is_you() { write(17 %% 0); }', 'empty @is_you() { write(17 / 0); }', 'const int Z = 0;\nempty @is_you() { write(5 %% Z); write(5 / Z); }',
                'empty @is_you() { int x = \'a\' %% 0; }', 'empty @is_you() { write(1 / (1 - 1)); }', 'empty @is_you() { write(7 %% (2 - 2) is byte); }',
                'int g = 1 / 0;\nempty @is_you() { }', 'const int A = 4 %% 0;\nempty @is_you() { write(A); }']:
        inputs.append((src.replace('%%', '%') + '\n', 2, 64, False, False, 'constant expression in a position'))
    # a syntax error AT every kind of token (the diagnostic prints the offending token): literals with bytes that are not UTF-8,
    # non-ASCII text, escapes, numbers, flavoured identifiers, keywords, symbols
    TOKS = ['"\\xff\\xfe"', '"ok"', "'\\xff'", "'a'", '12', '0xFF', '1_000', 'name', '@you', '!def', 'true', 'if', 'while', '+', '??', '[', ']', '}', '"\u00e9\u4e16"', '"\\u{1F30E}"',
            '"\\0\\x80"', "'\\0'", '"\\\\"', '"\\""', 'is', 'byte', '.length', ';', ',', '"a\\x00b"', '"\\xc3"', "'\\x80'"]
    for a in TOKS:
        for form in ('empty @is_you() { write(%s %s); }', 'empty @is_you() { int x = 1 %s %s; }', 'empty @is_you() { %s %s }', '%s %s', 'empty f(int %s %s) { }', 'empty @is_you() { write(1); } %s %s',
                     'empty @is_you() { int[] a = [%s %s]; }', 'empty @is_you() { if (%s %s) { } }'):
            b = rng.choice(TOKS)
            inputs.append((form % (a, b) + '\n', 2, 64, False, False, 'syntax error at each kind of token'))
            inputs.append((form % (b, a) + '\n', 2, 64, False, False, 'syntax error at each kind of token'))
    # arithmetic whose operands become immediates only inside the code generator (.length of global arrays and of literals, incl. zero-length)
    for decl in ('int buf[0];\n', 'byte buf[0];\n', 'int[] buf = [];\n', 'int buf[3];\n', 'const int[] buf = [];\n', 'string buf = "";\n'):
        for e in ('10 / buf.length', '10 % buf.length', 'buf.length / buf.length', '[].length % buf.length', '7 / [].length', '7 % [1, 2].length', 'buf.length * 0 / buf.length', '0 / "".length',
                  '(3 + 4) / (buf.length - buf.length)', '"abc".length / ([] .length)', '5 / ("" is byte[]).length'):
            for unchecked in (False, True):
                inputs.append((decl + 'empty @is_you() { if (buf.length != 0) { write(%s); } write(1); }\n' % e, 2, 64, unchecked, False, 'generator-level constant arithmetic'))
                inputs.append((decl + 'int g = 0;\nempty @is_you() { while (g > 0) { g = %s; } write(g); }\n' % e, 4, 64, unchecked, False, 'generator-level constant arithmetic'))
    import sweeps
    for _ in range(40 * N):
        inputs.append((sweeps.label_hygiene_program(rng), rng.choice([2, 4]), 300, rng.random() < 0.3, False, 'identifiers that look like generated labels'))
    for w, st in [(1, 64), (0, 64), (2, -5), (2, 0), (2, 10 ** 6), (2, 16000), (8, 10 ** 15), (9, 64), (2, 16378), (2, 16379)]:
        inputs.append((bases[0], w, st, False, False, 'option boundary w=%s stack=%s' % (w, st)))
    for d in (5, 20, 40):
        inputs.append(('empty @is_you() { write(' + '(' * d + '1' + ')' * d + '); }\n', 2, 64, False, False, 'nesting depth %d' % d))
        inputs.append(('empty @is_you() ' + '{ ' * d + 'write(1);' + ' }' * d + '\n', 2, 64, False, False, 'block nesting depth %d' % d))
        inputs.append(('empty @is_you() { write(' + '[' * d + '1' + ']' * d + '); }\n', 2, 64, False, False, 'array nesting depth %d' % d))
    with ProcessPoolExecutor(max_workers=min(15, os.cpu_count() or 4)) as ex:
        results = list(ex.map(classify, [i[:5] for i in inputs], chunksize=8))
    hist = {}
    kinds = {}
    distinct = set()
    for inp, (kind, detail) in zip(inputs, results):
        hist[inp[5].split(':')[0]] = hist.get(inp[5].split(':')[0], 0) + 1
        kinds[kind] = kinds.get(kind, 0) + 1
        distinct.add(hash(inp[:5]))
        if kind in ('ok', 'compile_error'):
            continue
        if kind == 'recursion' and depth_of(inp[0]) > 40:
            continue
        what = {'escape': 'compiler escaped with an internal exception', 'bad_diagnostic': 'diagnostic cannot be rendered or lies outside the source',
                'bad_output': 'successful compilation produced assembly the strict assembler rejects', 'recursion': 'RecursionError on an input of bounded nesting depth'}[kind]
        ctx.violate(what, cls=kind, detail=detail, stream=inp[5], source=inp[0][:3000], w=inp[1], stack=inp[2], unchecked=inp[3], lint=inp[4])
    ncli = cli_cases(ctx, rng)
    ctx.cov['evaluations'] += len(inputs) + ncli
    ctx.cov['distinct_nontrivial'] = len(distinct)
    ctx.cov['rule'] = ('inputs: minimised failure corpus, token soups, random character strings, valid generated programs and examples under random options, 6 token-level mutants of each '
                       '(delete/duplicate/swap/replace/insert/truncate/type-swap), option boundaries, nesting depth up to 40; each compiled in-process through parse -> evaluate -> CodeGen -> gen_lines; '
                       'allowed outcomes: assembly accepted by the strict assembler, or a CompilerError whose diagnostic renders and lies inside the source; plus %d runs of `python -m hidc` (exit status, stderr, output file)' % ncli)
    ctx.cov['distribution'] = {'streams': hist, 'outcomes': kinds}
    ctx.cov['samples'] = [{'stream': i[5], 'input': i[0][:200]} for i in (inputs[10], inputs[300], inputs[-1])]
