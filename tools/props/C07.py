"""C07 - the typechecker accepts exactly the well-typed programs."""
from component import run_corr
PROPS_VO = ['Props/C07_types.vo']
GEN_ITEMS = ['coq/Gen/GenTypes.v']
GEN_FROM = {'regen_types': ['coq/Gen/GenTypes.v']}
LEVEL = 'proof'
TRUSTED = ['PARTIAL: proved = coercion lattice (finite, exhaustive over 15 types x expression classes), overload_spec for all declaration/argument lists, soundness of the listed rejections '
           '(no assignment to const / const array element / string element, no implicit narrowing of non-literals, const arrays never coerced to mutable, no nested or empty-typed arrays, returns match), '
           'arithmetic shrinkability; the completeness direction ("every program following the rules is accepted") rests on the correspondence and on the comparison with the independent rule checker wt_program',
           'coq/HiD/Types.v is a hand model of expressions.py / operators.py / statements.py / program.py, tied by correspondence on the checked TREE (casts inserted, literals folded, overload bound), not only accept/reject']
ASSUMPTIONS = ['documented typing rules as formalised in wt_program (README); departures that are design decisions of hidc (dead code is not typechecked; folded constant casts stay literal) are listed in DESIGN.md']


def run(ctx):
    run_corr(ctx, 'corr_types', 'typechecker (accept/reject, error class, checked tree) vs Types.elab model')
