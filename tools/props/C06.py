"""C06 - flavour and context rules."""
from component import run_corr
PROPS_VO = ['Props/C06_context.vo']
GEN_ITEMS = ['coq/Gen/GenContext.v']
GEN_FROM = {'regen_context': ['coq/Gen/GenContext.v']}
TRUSTED = ['tools/regen_context.py: the membership test `X in ctx` is translated as (ctx & X) == X (IntFlag semantics); routines other than the recognised sites must pass ctx through unchanged (checked syntactically)',
           'the abstract syntax of coq/HiD/Context.v keeps calls/speculation/blocks and abstracts everything else to n-ary nodes']
ASSUMPTIONS = ['Rules.well_contexted is the specification (written from the property text and the README table); a ?? nested in an operand of ?? is rejected by both']


def run(ctx):
    run_corr(ctx, 'corr_context', 'grammar.py context threading vs Context.accepts')
