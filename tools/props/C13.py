"""C13 - constant data reaches the output byte for byte."""
import os, sys, random
import hidrun, sasm, coqeval
from hidrun import Case

PROPS_VO = ['Props/C13.vo', 'Props/C13_layout.vo']
GEN_ITEMS = ['coq/Gen/GenEscape.v', 'coq/Gen/GenLayout.v']
LEVEL = 'proof'
TRUSTED = ['coq/Sphinx/AsmText.v: the strict string/char literal grammar is a model of the Sphinx assembler (a deliberately narrow one)',
           'pack_bools_spec, array_size arithmetic proved on the regenerated GenLayout.v (C13_layout.v); .word/.byte data directives and the string table layout are covered by the behavioural sweep only']
ASSUMPTIONS = ['escape theorems are about the regenerated _escape_bytes; the regenerated function is compared with the real one on every run (translator validation)']

SPECIAL = [0x5c, 0x22, 0x27, 0x0a, 0x0d]


def hid_str(bs, quote='"'):
    out = []
    for b in bs:
        if b in (0x5c, ord(quote)) or b < 0x20 or b > 0x7e:
            out.append('\\x%02x' % b)
        else:
            out.append(chr(b))
    return quote + ''.join(out) + quote


def translator_validation(ctx):
    """regenerated Coq escape_bytes == real Python _escape_bytes; Coq unescape == sasm.parse_str."""
    from hidc.codegen import asm as rasm
    rng = random.Random(ctx.seed)
    datas = [bytes([b]) for b in range(256)] + [bytes(rng.randrange(256) for _ in range(rng.randrange(0, 12))) for _ in range(200)]
    cases = []
    for q in (b'"', b"'"):
        for d in datas:
            esc = rasm._escape_bytes(d, q)
            try:
                back, rest = sasm.parse_str(esc + q, q[0])
                ok_py = (back == d and rest == b'')
            except sasm.AsmError:
                ok_py = False
            cases.append((q[0], d, esc, ok_py))
    body = ['From Coq Require Import ZArith List Bool.', 'From HidV Require Import AsmText GenEscape.', 'Import ListNotations.', 'Open Scope Z_scope.',
            'Definition leq := list_eq_dec Z.eq_dec.',
            'Definition chk (c : Z * list Z * list Z) : bool := let \'(q, d, e) := c in',
            '  (if leq (escape_bytes [q] d) e then true else false) &&',
            '  match unescape q (e ++ [q]) with Some (b, []) => if leq b d then true else false | _ => false end.',
            'Definition cases : list (Z * list Z * list Z) := [']
    body.append(';\n'.join('(%d, %s, %s)' % (q, coqeval.zlist(d), coqeval.zlist(e)) for q, d, e, _ in cases))
    body.append('].')
    body.append('Definition bad := map fst (filter (fun p => negb (chk (snd p))) (combine (map Z.of_nat (seq 0 (length cases))) cases)).')
    body.append('Eval vm_compute in bad.')
    rc, out = coqeval.coq_run('\n'.join(body), ctx.work, 'c13_cases')
    bad = coqeval.parse_zlist_result(out) if rc == 0 else None
    ok = rc == 0 and bad == []
    detail = ''
    if not ok:
        if bad:
            q, d, e, _ = cases[bad[0]]
            detail = 'model/impl differ on data=%r quote=%r impl_escape=%r' % (d, chr(q), e)
        else:
            detail = 'coq evaluation failed: ' + out[-300:]
    ctx.oblige('correspondence: Coq escape_bytes = hidc _escape_bytes and Coq unescape inverts it (%d cases)' % len(cases), ok, detail)
    pybad = [(q, d, e) for q, d, e, okp in cases if not okp]
    if pybad:
        q, d, e = pybad[0]
        ctx.violate('escaped literal does not denote its bytes under the strict assembler grammar', data=list(d), quote=chr(q), escaped=e.decode('latin1'), cls='escape')
    ctx.cov['evaluations'] += len(cases)
    return len(cases)


def programs(ctx):
    """-> list of (description, src, expected_out)"""
    rng = ctx.rng
    progs = []
    # 1. singles in strings, chars
    strs = [bytes([b]) for b in range(256)]
    pairs = [bytes([a, b]) for a in SPECIAL for b in range(256)] + [bytes([a, b]) for b in SPECIAL for a in range(256)]
    if ctx.tier == 'thorough':
        pairs += [bytes([a, b]) for a in range(256) for b in range(256) if a not in SPECIAL and b not in SPECIAL]
    else:
        pairs += [bytes([rng.randrange(256), rng.randrange(256)]) for _ in range(2000)]
    rnd = [bytes(rng.randrange(256) for _ in range(rng.randrange(0, 41))) for _ in range(300 if ctx.tier == 'quick' else 3000)]
    rnd += [bytes(rng.choice(SPECIAL + [65, 0, 255]) for _ in range(rng.randrange(1, 12))) for _ in range(200)]
    allstr = strs + pairs + rnd
    K = 24
    for i in range(0, len(allstr), K):
        grp = allstr[i:i + K]
        src = 'empty @is_you() {\n' + ''.join('  write(%s);\n' % hid_str(s) for s in grp) + '}\n'
        progs.append(('write(string) x%d' % len(grp), src, b''.join(grp), grp))
    chars = list(range(256))
    for i in range(0, 256, 32):
        grp = chars[i:i + 32]
        src = 'empty @is_you() {\n' + ''.join('  write(%s);\n' % hid_str(bytes([c]), "'") for c in grp) + '}\n'
        progs.append(('write(char) x%d' % len(grp), src, bytes(grp), [bytes([c]) for c in grp]))
    # 2. indexing + length of strings, local and global
    for n in range(120 if ctx.tier == 'quick' else 600):
        s = bytes(rng.randrange(256) for _ in range(rng.randrange(0, 41)))
        glob = rng.random() < 0.5
        decl = 'string s = %s;' % hid_str(s)
        src = (decl + '\n' if glob else '') + 'empty @is_you() {\n' + ('' if glob else '  ' + decl + '\n') + \
            '  write(s.length); write(\':\');\n  for (int i = 0; i < s.length; i += 1) { write(s[i]); }\n}\n'
        progs.append(('string index/length', src, str(len(s)).encode() + b':' + s, [s]))
    # 3. constant arrays of all element types, lengths 0..40, global/local, const/mutable
    for n in range(160 if ctx.tier == 'quick' else 1200):
        ln = rng.randrange(0, 41)
        kind = rng.choice(['byte', 'int', 'bool', 'string'])
        glob = rng.random() < 0.5
        const = rng.random() < 0.6
        if ln == 0 and kind != 'string':
            pass
        if kind == 'byte':
            vals = [rng.randrange(256) for _ in range(ln)]
            lit = '[' + ', '.join(rng.choice([str(v), hid_str(bytes([v]), "'"), '0x%02x' % v]) for v in vals) + ']'
            exp = str(ln).encode() + b':' + bytes(vals)
            body = '  write(a.length); write(\':\'); write(a);\n'
            if not vals:
                lit = '[]'
        elif kind == 'int':
            vals = [rng.choice([0, 1, -1, 255, 256, 32767, -32768, rng.randrange(-32768, 32768)]) for _ in range(ln)]
            lit = '[' + ', '.join(str(v) for v in vals) + ']'
            exp = str(ln).encode() + b':' + b''.join(str(v).encode() + b',' for v in vals)
            body = '  write(a.length); write(\':\'); for (int i = 0; i < a.length; i += 1) { write(a[i]); write(\',\'); }\n'
        elif kind == 'bool':
            vals = [rng.random() < 0.5 for _ in range(ln)]
            lit = '[' + ', '.join('true' if v else 'false' for v in vals) + ']'
            exp = str(ln).encode() + b':' + b''.join(b'T' if v else b'F' for v in vals)
            body = '  write(a.length); write(\':\'); for (int i = 0; i < a.length; i += 1) { if (a[i]) { write(\'T\'); } else { write(\'F\'); } }\n'
        else:
            ln = min(ln, 8)
            vals = [bytes(rng.randrange(256) for _ in range(rng.randrange(0, 9))) for _ in range(ln)]
            lit = '[' + ', '.join(hid_str(v) for v in vals) + ']'
            exp = str(ln).encode() + b':' + b''.join(str(len(v)).encode() + b'=' + v + b';' for v in vals)
            body = '  write(a.length); write(\':\'); for (int i = 0; i < a.length; i += 1) { write(a[i].length); write(\'=\'); write(a[i]); write(\';\'); }\n'
        decl = '%s%s[] a = %s;' % ('const ' if const else '', kind, lit)
        src = (decl + '\n' if glob else '') + 'empty @is_you() {\n' + ('' if glob else '  ' + decl + '\n') + body + '}\n'
        progs.append(('%s%s array len %d %s' % ('const ' if const else '', kind, ln, 'global' if glob else 'local'), src, exp, [kind, ln]))
    # 4. several constant arrays / strings in ONE program: equal contents, equal packed bytes with
    #    different lengths (bool arrays padded with false, byte/int arrays that are prefixes of one another)
    for n in range(120 if ctx.tier == 'quick' else 1000):
        k = rng.randrange(2, 6)
        kind = rng.choice(['bool', 'bool', 'byte', 'int', 'string'])
        base_len = rng.randrange(1, 7)
        if kind == 'bool':
            base = [rng.random() < 0.5 for _ in range(base_len)]
            variants = [base + [False] * rng.randrange(0, 9 - base_len if base_len < 8 else 1) for _ in range(k)]
            lit = lambda v: '[' + ', '.join('true' if x else 'false' for x in v) + ']'
            show = lambda name: 'write(%s.length); write(\':\'); for (int i = 0; i < %s.length; i += 1) { if (%s[i]) { write(\'1\'); } else { write(\'0\'); } } write(\';\');' % (name, name, name)
            exp1 = lambda v: str(len(v)).encode() + b':' + b''.join(b'1' if x else b'0' for x in v) + b';'
        elif kind == 'byte':
            base = [rng.randrange(256) for _ in range(base_len)]
            variants = [base[:rng.randrange(1, base_len + 1)] if rng.random() < 0.5 else list(base) for _ in range(k)]
            lit = lambda v: '[' + ', '.join(str(x) for x in v) + ']'
            show = lambda name: 'write(%s.length); write(\':\'); write(%s); write(\';\');' % (name, name)
            exp1 = lambda v: str(len(v)).encode() + b':' + bytes(v) + b';'
        elif kind == 'int':
            base = [rng.choice([0, 1, 5, 256, -1]) for _ in range(base_len)]
            variants = [base + [0] * rng.randrange(0, 3) if rng.random() < 0.5 else base[:rng.randrange(1, base_len + 1)] for _ in range(k)]
            lit = lambda v: '[' + ', '.join('(%d)' % x if x < 0 else str(x) for x in v) + ']'
            show = lambda name: 'write(%s.length); write(\':\'); for (int i = 0; i < %s.length; i += 1) { write(%s[i]); write(\',\'); } write(\';\');' % (name, name, name)
            exp1 = lambda v: str(len(v)).encode() + b':' + b''.join(str(x).encode() + b',' for x in v) + b';'
        else:
            base = bytes(rng.choice([65, 66, 0, 92, 34]) for _ in range(base_len))
            variants = [base[:rng.randrange(0, base_len + 1)] if rng.random() < 0.5 else base for _ in range(k)]
            lit = lambda v: hid_str(v)
            show = lambda name: 'write(%s.length); write(\':\'); write(%s); write(\';\');' % (name, name)
            exp1 = lambda v: str(len(v)).encode() + b':' + v + b';'
        decls, body, exp = [], [], b''
        for j, v in enumerate(variants):
            name = 'c%d' % j
            glob = rng.random() < 0.5
            ty = 'string' if kind == 'string' else 'const %s[]' % kind
            d = '%s %s = %s;' % (ty, name, lit(v))
            (decls if glob else body).append(d)
        for j, v in enumerate(variants):
            body.append(show('c%d' % j))
            exp += exp1(v)
        src = '\n'.join(decls) + '\nempty @is_you() {\n  ' + '\n  '.join(body) + '\n}\n'
        progs.append(('several %s constants in one program' % kind, src, exp, [kind, k]))
    # 6. stack-allocated literals full of zero / false values, built over stack bytes a previous call left dirty
    for n in range(40 if ctx.tier == 'quick' else 300):
        el = rng.choice(['bool', 'bool', 'byte', 'int'])
        ln = rng.choice([8, 9, 10, 16, 17, 3, 12])
        vals = [0] * ln
        for _ in range(rng.randrange(0, 3)):
            vals[rng.randrange(ln)] = 1
        if el == 'bool':
            lit = '[' + ', '.join('true' if v else 'false' for v in vals) + ']'
            pr = 'if (seen[i]) { write(\'1\'); } else { write(\'0\'); }'
        else:
            lit = '[' + ', '.join(str(v) for v in vals) + ']'
            pr = 'write(seen[i] is int);' if el == 'byte' else 'write(seen[i]);'
        one = ''.join(str(v) for v in vals).encode() + b'\n'
        src = ('empty scribble() { byte[] junk = [0xFF, 0xFF, 0xFF, 0xFF, 0xFF, 0xFF, 0xFF, 0xFF, 0xFF, 0xFF, 0xFF, 0xFF, 0xFF, 0xFF, 0xFF, 0xFF, 0xFF, 0xFF, 0xFF, 0xFF]; junk[0] = junk[1]; }\n'
               'empty show() { %s[] seen = %s; for (int i = 0; i < seen.length; i += 1) { %s } writeln(); }\n'
               'empty @is_you() { show(); scribble(); show(); scribble(); show(); }\n') % (el, lit, pr)
        progs.append(('stack %s literal of zeros over dirty stack' % el, src, one * 3, [el, ln]))
    # 5. constants of DIFFERENT element types whose literal values coincide (tables must not be shared across types)
    for n in range(40 if ctx.tier == 'quick' else 300):
        ln = rng.randrange(1, 10)
        bits = [rng.random() < 0.5 for _ in range(ln)]
        decls = ['const bool[] cb = [%s];' % ', '.join('true' if x else 'false' for x in bits),
                 'const byte[] cy = [%s];' % ', '.join('1' if x else '0' for x in bits),
                 'const int[] ci = [%s];' % ', '.join('1' if x else '0' for x in bits)]
        rng.shuffle(decls)
        glob = [d for d in decls if rng.random() < 0.5]
        loc = [d for d in decls if d not in glob]
        body = ['for (int i = 0; i < cb.length; i += 1) { if (cb[i]) { write(\'T\'); } else { write(\'F\'); } }', 'write(\';\');',
                'for (int i = 0; i < cy.length; i += 1) { write(cy[i] is int); }', 'write(\';\');', 'for (int i = 0; i < ci.length; i += 1) { write(ci[i]); }']
        exp = b''.join(b'T' if x else b'F' for x in bits) + b';' + b''.join(b'1' if x else b'0' for x in bits) + b';' + b''.join(b'1' if x else b'0' for x in bits)
        src = '\n'.join(glob) + '\nempty @is_you() {\n  ' + '\n  '.join(loc + body) + '\n}\n'
        progs.append(('constants of different element types with equal values', src, exp, ['mixed', ln]))
    # 6. every element of a constant (and a literal, and a mutable) array read with a CONSTANT index, in value contexts that depend on
    #    the exact representation (bool elements must come out as a strict 0/1, bytes zero-extended, ints whole)
    for n in range(24 if ctx.tier == 'quick' else 200):
        ln = rng.choice([3, 7, 8, 9, 12, 17])
        bits = [rng.random() < 0.6 for _ in range(ln)]
        kind = rng.choice(['const bool[] a = %s;', 'bool[] a = %s;', 'const bool[] a = %s;'])
        lit = '[' + ', '.join('true' if x else 'false' for x in bits) + ']'
        glob = rng.random() < 0.5
        decl = kind % lit
        body, exp = [], b''
        for i in range(ln):
            x = bits[i]
            body.append('write(a[%d] == true); write(a[%d] is int); write(not a[%d]); write([a[%d], false][0]); write((a[%d] is byte) is int + 1); write(a[%d] != a[0]); bool t%d = a[%d]; write(t%d is int); write(%s[%d]);'
                        % (i, i, i, i, i, i, i, i, i, lit, i))
            tf = lambda v: b'true' if v else b'false'
            exp += tf(x) + (b'1' if x else b'0') + tf(not x) + tf(x) + (b'2' if x else b'1') + tf(x != bits[0]) + (b'1' if x else b'0') + tf(x)
        src = (decl + '\n' if glob else '') + 'empty @is_you() {\n' + ('' if glob else '  ' + decl + '\n') + '  ' + '\n  '.join(body) + '\n}\n'
        progs.append(('bool array elements at constant indices in value contexts', src, exp, ['boolconst', ln]))
    return progs


def run(ctx):
    n1 = translator_validation(ctx)
    progs = programs(ctx)
    ws = [2] if ctx.tier == 'quick' else [2, 3, 4, 8]
    cases, meta = [], []
    for k, (desc, src, exp, parts) in enumerate(progs):
        w = ws[k % len(ws)] if ctx.tier == 'thorough' else (2 if k % 5 else ctx.rng.choice([2, 3, 4]))
        if 'int array' in desc and w == 2:
            pass
        cases.append(Case(src, (), w, 200, False, 600_000, None))
        meta.append((desc, src, exp, parts, w))
    runs = hidrun.run_cases(cases)
    distinct = set()
    hist = {}
    samples = []
    for (desc, src, exp, parts, w), r in zip(meta, runs):
        key = desc.split(' x')[0].split(' len')[0]
        hist[key] = hist.get(key, 0) + 1
        end, flags, out = hidrun.terminal(r)
        distinct.add(hash(src))
        if len(samples) < 3 and ctx.rng.random() < 0.01:
            samples.append({'kind': desc, 'w': w, 'source': src[:300], 'expected_out': exp[:60].decode('latin1')})
        if r.status == 'compile_error' and 'too large' in r.detail:
            continue
        if not (end == 'win' and out == exp and flags == ['win']):
            # narrow a grouped write() program down to the single literal
            culprit = None
            if desc.startswith('write(string)') or desc.startswith('write(char)'):
                q = '"' if 'string' in desc else "'"
                single = [Case('empty @is_you() { write(%s); }' % hid_str(p, q), (), w, 64, False, 100_000, None) for p in parts]
                for p, rr in zip(parts, hidrun.run_cases(single)):
                    if hidrun.terminal(rr) != ('win', ['win'], p):
                        culprit = (p, hidrun.terminal(rr), rr.detail)
                        break
            if culprit:
                p, got, det = culprit
                q = '"' if 'string' in desc else "'"
                ctx.violate('constant does not reach the output', source='empty @is_you() { write(%s); }' % hid_str(p, q), w=w,
                            expected=p.decode('latin1'), got=[got[0], got[1], got[2].decode('latin1')], detail=det, data=list(p), cls='constant')
            else:
                ctx.violate('constant data program misbehaves', kind=desc, source=src, w=w, expected=exp.decode('latin1'),
                            got=[end, flags, out.decode('latin1')], detail=r.detail, cls='constant')
    ctx.cov['evaluations'] += len(cases)
    ctx.cov['distinct_nontrivial'] = len(distinct) + n1
    ctx.cov['rule'] = ('programs printing/indexing string, char and array constants (all 256 byte values singly, pairs with the 5 special bytes, '
                       'random pairs/strings, arrays of length 0..40 of every element type, global/local, const/mutable) compiled by hidc and run on the '
                       'verified VM; expected output is the literal itself; distinct = distinct program texts; plus escape translator-validation cases')
    ctx.cov['samples'] = samples or [{'kind': meta[0][0], 'source': meta[0][1][:200]}]
    ctx.cov['distribution'] = hist
    ctx.cov['exhaustive'] = False
