"""C04 - checked builds are memory safe, even with the stack exactly full."""
import random
import sweeps, hidrun, diffrun
from sweeps import ALL, WS, program_units, halts_extra
from component import run_corr
from diffrun import Cfg

PROPS_VO = ['Props/C04_tracker.vo', 'Props/C04.vo', 'Props/C13_layout.vo']
GEN_ITEMS = ['coq/Gen/GenTracker.v', 'coq/Gen/GenLayout.v', 'coq/Gen/GenStdlib.v', 'coq/Gen/GenTables.v']
GEN_FROM = {'regen_tracker': ['coq/Gen/GenTracker.v']}
LEVEL = 'proof'
TRUSTED = ['PARTIAL: proved = Tracker finalises every guard constant with the maximum static frame size reached later in its block (all operation sequences), '
           'index check exact for all values, array_size/max_length arithmetic, write_int footprint on the regenerated stdlib (incl. the refutation that it stays inside caller-pushed slots), '
           'machine faults are distinct from halting and vm_sound reports them; not proved: the simulation tying every emitted access to a slot of the abstract frame',
           'the stack-boundary sweep compares every stack size from generous down to below the minimum with the generous run',
           'coq/Sphinx/Monitor.v defines entitlement (R1-R5) for hidc-emitted code; the VM evaluates it on every executed state incl. speculative ones (OStop = un-entitled access)']
ASSUMPTIONS = ['programs do not read uninitialised elements; stack overflow inside a try body may legitimately change which handler runs (README), so boundary sweeps use programs without time travel']

SIZES = [300, 150, 100, 80, 70, 60, 55, 50, 46, 43, 40, 38, 36, 34, 32, 30, 29, 28, 27, 26, 25, 24, 23, 22, 21, 20, 19, 18, 17, 16, 15, 14, 13, 12, 11, 10, 9, 8, 7, 6, 5, 4, 3, 2, 1]

DIRECTED = [
    # write(int) right after an array allocation: the digit buffer lies below the callee frame
    'empty @is_you(int a, int b) { int[] v = [11111, 22222, a]; write(v[2]); write(\' \'); write(v[0]); write(\' \'); write(v[1]); write(\' \'); write(v[2]); }\n',
    'empty @is_you(int a, int b) { byte[] v = [\'a\', \'b\', \'c\', \'d\', \'e\', \'f\']; write(a); write(v); write(b); write(v); }\n',
    'empty @is_you(int a, int b) { bool[] v = [true, false, true, true, false, true, false, true, true]; write(a * b); for (int i = 0; i < v.length; i += 1) { write(v[i]); } }\n',
    'int f(int x) { int[] t = [x, x + 1]; write(t[1]); return t[0] * 2; }\nempty @is_you(int a, int b) { int[] v = [f(a), f(b), f(a + b)]; write(v[0]); write(\' \'); write(v[1]); write(\' \'); write(v[2]); }\n',
    'empty @is_you(int a, int b) { int n[b]; for (int i = 0; i < n.length; i += 1) { n[i] = a + i; } int[] w = [a, b]; for (int i = 0; i < n.length; i += 1) { write(n[i]); write(\',\'); } write(w[0]); write(w[1]); }\n',
    'int r(int d, int a) { if (d <= 0) { return a; } int[] pad = [d, a]; int x = r(d - 1, a + 1); write(pad[0]); return x + pad[1]; }\nempty @is_you(int a, int b) { write(r(b, a)); }\n',
    'empty g(int[] q, int k) { q[k] = q[k] + 1000; write(q[k]); write(\' \'); }\nempty @is_you(int a, int b) { int[] v = [a, b, 3]; g(v, 0); g(v, 2); { int[] u = [7, 8, 9, 10]; g(u, 3); write(u[3]); } write(v[0]); write(v[2]); }\n',
    'empty @is_you(int a, int b) { string s = "hello"; byte[] c = [\'x\', \'y\']; write(s); write(a); write(c); write(s[1]); write(b); write(c[1]); }\n',
]


def run(ctx):
    run_corr(ctx, 'corr_tracker', 'tracker.py vs Tracker model (finalised guard constants)')
    rng = random.Random(ctx.seed)
    q = ctx.tier == 'quick'
    ws = [2, 3, 4] if q else WS
    units = []
    for src in DIRECTED:
        for w in ws:
            for args in [('12345', '3'), ('-32768', '2'), ('7', '5'), ('0', '1')]:
                units.append((src, [Cfg(args, w, s, False) for s in SIZES]))
    gen_units = program_units(rng, 60 if q else 700, ['arrays', 'strings', 'calls', 'globals', 'overloads'], ws, cfgs_per=1, seed_base=ctx.seed + 400)
    for src, cfgs in gen_units:
        c = cfgs[0]
        units.append((src, [Cfg(c.args, c.w, s, False) for s in SIZES]))
    import C05
    dyn = [u for u in C05.directed_units(rng, ws[:2], 0) if ' a[n];' in u[0] or ' a[j];' in u[0]]
    sweeps.diff_sweep(ctx, 'dynamic array lengths over the boundary grid (negative, zero, huge) and indices', dyn, extra=halts_extra(ctx), monitor=True)
    # global arrays at and beyond the largest length each element type admits: whatever the compiler accepts must stay memory safe for
    # every index an input can supply (a bool array longer than the signed range would turn the bit offset of a large index negative)
    big = []
    for w in (2,):
        M = 1 << (8 * w)
        for el, val, lens in (('bool', 'true', [(M >> 1) - 1, M >> 1, (M >> 1) + 8, M - 1, M - 8]), ('byte', "'b'", [(M >> 1) - 300, (M >> 1) - 1, M >> 1]),
                              ('int', '5', [(M >> 1) // w - 200, (M >> 1) // w, (M >> 1) // w + 1]), ('string', '"s"', [(M >> 1) // w - 200, (M >> 1) // w])):
            for n in lens:
                src = '%s g[%d];\nempty @is_you(int i, int j) { write("<"); write(j); g[i] = %s; write(g[i]); write(">"); write(j); }\n' % (el, n, val)
                big.append((src, [Cfg((str(i), '77'), w, 8, False) for i in (0, 1, n - 1, n, n + 1, -1, -8, -9, -32, -64, (M >> 1) - 1, -(M >> 1), -(M >> 1) + 7, -(M >> 2))]))
    sweeps.diff_sweep(ctx, 'global arrays at the length limits, indices from the input over the whole word', big, extra=halts_extra(ctx), monitor=True)
    mon_units = program_units(rng, 60 if q else 600, ['arrays', 'strings', 'calls', 'globals', 'overloads', 'tt', 'faults'], ws, cfgs_per=3, seed_base=ctx.seed + 401)
    sweeps.diff_sweep(ctx, 'aliasing / evaluation-order corpus (global index or operand modified by the other operand, same array passed twice)', sweeps.alias_units(ws), extra=halts_extra(ctx), monitor=True)
    sweeps.diff_sweep(ctx, 'entitlement monitor on generated programs (all features)', mon_units, extra=halts_extra(ctx), monitor=True)
    results = diffrun.run_units(units, want_ref=False, watch_labels='monitor')
    h = halts_extra(ctx)
    total = 0
    distinct = set()
    nbound = 0
    for (src, _), rs in zip(units, results):
        base = hidrun.terminal(rs[0].run)
        if rs[0].run.status != 'ran' or base[0] not in ('win', 'error') or 'stack_overflow' in base[1]:
            total += len(rs)
            continue
        thr = None
        for res in rs:
            total += 1
            h(src, res)
            t = hidrun.terminal(res.run)
            if res.run.status != 'ran':
                continue
            if t == base:
                distinct.add(hash((src, res.cfg)))
                continue
            if t[0] == 'fuel':
                continue
            if t[0] == 'error' and t[1][-2:] == ['stack_overflow', 'error'] and base[2].startswith(t[2]) and base[1][:len(t[1]) - 2] == t[1][:-2]:
                if thr is None:
                    thr = res.cfg.stack
                    nbound += 1
                distinct.add(hash((src, res.cfg)))
                continue
            ctx.violate('run at a smaller stack neither equals the generous-stack run nor ends in stack_overflow after a prefix of it (silent corruption or out-of-region access)',
                        cls='stack_boundary', source=src, args=list(res.cfg.args), w=res.cfg.w, stack=res.cfg.stack,
                        generous=[base[0], base[1], base[2][:200].decode('latin1')], got=[t[0], t[1], t[2][:200].decode('latin1')], detail=res.run.detail)
    ctx.cov['evaluations'] += total
    ctx.cov['distinct_nontrivial'] += len(distinct)
    nthr = sweeps.fill_sweep(ctx, sweeps.FILL_BODIES, [2, 3] if q else [2, 3, 4, 8], [12] if q else [12, 20, 33])
    ctx.cov['rule'] = (ctx.cov.get('rule', '') + ' | stack-boundary sweep: directed programs (write(int) next to fresh arrays, calls inside array literals, VLAs, recursion with arrays, arrays passed and mutated) and generated programs, '
                       'each run at stack sizes %s words; every run must equal the 300-word run or end in stack_overflow after a prefix of its output; %d programs had their overflow threshold inside the swept range; byte-granular fill sweep: a leading byte VLA of size n = 0..capacity+2 fills the stack to the byte before each directed body (write(int) of the most negative value, arrays, byte/bool locals deepest, calls in literals, recursion, stop handlers): %d (program, word size, stack) combinations crossed their threshold' % (SIZES, nbound, nthr))
    ctx.cov['samples'] = (ctx.cov.get('samples') or []) + [{'source': DIRECTED[0], 'stack_sizes': SIZES[:8]}]
