"""C05 - runtime faults are detected exactly, first, and terminally."""
import random
import sweeps
from sweeps import ALL, WS, program_units, diff_sweep, halts_extra
from diffrun import Cfg

PROPS_VO = ['Props/C05.vo']
GEN_ITEMS = ['coq/Gen/GenTables.v', 'coq/Gen/GenStdlib.v', 'coq/Gen/GenLayout.v']
LEVEL = 'proof'
TRUSTED = ['PARTIAL: proved = exactness of each guard idiom for all values and word sizes (division, index, VLA length, VLA space), terminality of the error stubs '
           '(committed events exactly [flag k; flag error; sleep...]) on the regenerated stdlib; "first / before any effect" for whole programs is covered by the sweep']
ASSUMPTIONS = ['a negative or over-large dynamic array length raises stack_overflow (that is the flag the code documents for it)']

GRID = [0, 1, -1, 2, 3, 4, 5, 6, 7, 8, -7, -8, 127, 128, 255, 256, 32767, -32768, 32766, -32767]


def directed_units(rng, ws, n_each):
    """every access form x element type x storage class, index / divisor / length from the input"""
    units = []
    els = {'int': ('[10, 20, 30, 40]', 'write(a[i]);'), 'byte': ("['a', 'b', 'c', 'd']", 'write(a[i]);'), 'bool': ('[true, false, true, true]', 'write(a[i]);')}
    for el, (lit, rd) in els.items():
        for storage in ('local', 'global', 'param', 'constglobal', 'vla'):
            for form in ('read', 'write', 'incr'):
                if form == 'incr' and el == 'bool':
                    continue
                if form != 'read' and storage == 'constglobal':
                    continue
                val = {'int': '7', 'byte': "'z'", 'bool': 'false'}[el]
                op = {'read': 'write(a[i]); write(\' \');', 'write': 'a[i] = %s; write("w");' % val, 'incr': 'a[i] += 1; write("p");'}[form]
                dump = 'for (int k = 0; k < a.length; k += 1) { write(a[k]); write(\' \'); }'
                if storage == 'local':
                    src = 'empty @is_you(int i, int j) {\n  %s[] a = %s;\n  write("<"); %s write(">"); %s\n}\n' % (el, lit, op, dump)
                elif storage in ('global', 'constglobal'):
                    src = '%s%s[] a = %s;\nempty @is_you(int i, int j) {\n  write("<"); %s write(">"); %s\n}\n' % ('const ' if storage == 'constglobal' else '', el, lit, op, dump)
                elif storage == 'param':
                    src = 'empty f(%s[] a, int i) {\n  write("<"); %s write(">");\n}\nempty @is_you(int i, int j) {\n  %s[] a = %s;\n  f(a, i); %s\n}\n' % (el, op, el, lit, dump)
                else:
                    src = 'empty @is_you(int i, int j) {\n  %s a[j];\n  for (int k = 0; k < a.length; k += 1) { a[k] = %s; }\n  write("<"); %s write(">"); %s\n}\n' % (el, val, op, dump)
                cfgs = []
                for idx in GRID:
                    for w in ws:
                        cfgs.append(Cfg((str(idx), str(rng.choice([4, 4, 1, 0, -1, 5, -3, 9]) if storage == 'vla' else 4)), w, 200, False))
                units.append((src, cfgs[:n_each] if n_each else cfgs))
    # strings
    for storage in ('literal', 'local', 'global'):
        s = '"hello"'
        if storage == 'literal':
            src = 'empty @is_you(int i, int j) { write("<"); write(%s[i]); write(">"); }\n' % s
        elif storage == 'local':
            src = 'empty @is_you(int i, int j) { string s = %s; write("<"); write(s[i]); write(">"); }\n' % s
        else:
            src = 'string s = %s;\nempty @is_you(int i, int j) { write("<"); write(s[i]); write(">"); }\n' % s
        units.append((src, [Cfg((str(i), '0'), w, 100, False) for i in GRID for w in ws]))
    # division and modulo, plain and compound, int and byte operands
    for op in ('/', '%'):
        for form in ('plain', 'compound', 'elem'):
            if form == 'plain':
                src = 'empty @is_you(int a, int b) { write("<"); write(a %s b); write(">"); }\n' % op
            elif form == 'compound':
                src = 'empty @is_you(int a, int b) { write("<"); a %s= b; write(a); write(">"); }\n' % op
            else:
                src = 'empty @is_you(int a, int b) { int[] v = [a, 1]; write("<"); v[0] %s= b; write(v[0]); write(">"); }\n' % op
            units.append((src, [Cfg((str(a), str(b)), w, 100, False) for a in (7, -7, 0, 32767, -32768) for b in (0, 1, -1, 2, -2, 256, -32768) for w in ws]))
    # the same divisor location holding different values at successive divisions in one function
    for decl, kind in (('int d = a;', 'local'), ('', 'global')):
        pre = 'int d = 1;\n' if kind == 'global' else ''
        body = ('%s write("<"); write(100 / d); write(\' \'); d = b; write(100 %% d); write(\' \'); d = a; write(7 / d); write(\' \'); d = d - a; write(5 / d); write(">");' % (decl if kind == 'local' else 'd = a;'))
        units.append((pre + 'empty @is_you(int a, int b) { ' + body + ' }\n', [Cfg((str(a), str(b)), w, 100, False) for a in (1, 3, -2) for b in (0, 2, 1) for w in ws]))
    units.append(('int d = 5;\nint upd(int v) { d = v; return 1; }\nempty @is_you(int a, int b) { write("<"); write(10 / d); write(upd(b) + 20 / d); write(" "); write(30 % d); write(">"); }\n', [Cfg((str(a), str(b)), w, 100, False) for a in (1,) for b in (0, 2) for w in ws]))
    # dynamic lengths
    for el in ('int', 'byte', 'bool', 'string'):
        src = 'empty @is_you(int n, int j) { write("<"); %s a[n]; write(a.length); write(">"); }\n' % el
        units.append((src, [Cfg((str(n), '0'), w, 60, False) for n in GRID + [100, 1000, 16383, 16384, -16384] for w in ws]))
        # lengths whose byte size wraps around the word to something small (element size w, or bits for bool)
        wrapc = []
        for w in ws:
            M = 1 << (8 * w)
            es = {'int': w, 'string': w, 'byte': 1, 'bool': 1}[el]
            cand = set()
            for k in range(1, es + 1):
                for r in (0, 1, 2, 3, es, 2 * es):
                    cand.update({(M * k + r) // es, (M * k + r) // es + 1})
            cand.update({(M >> 1) // es, (M >> 1) // es + 1, (M >> 1) // es - 1, (M >> 1) - 1, (M >> 1) - 8, (M >> 2), (M >> 2) + 1, (M >> 3) + 1, (M >> 4) + 1})
            if el == 'bool':
                cand.update({(M >> 1) - 7, (M >> 1) - 6, M - 7, M - 8, (M >> 1) + 1})
            wrapc += [Cfg((str(n), '0'), w, 60, False) for n in sorted(cand) if 0 < n < M]
        units.append((src.replace('write(">");', 'if (n > 3) { a[3] = a[1]; } write(">");'), wrapc))
    # stores whose right-hand side has effects or faults itself, with the index in and out of range: the index guard comes first,
    # before the right-hand side has any effect (every element type x storage class x plain / compound assignment)
    for el, ret, lit, divx in (('int', 'v * 3', '[1, 2, 3, 4]', '10 / j'), ('byte', "'n'", "['a', 'b', 'c', 'd']", '(100 / j) is byte'), ('bool', 'v > 0', '[true, false, true, false]', '(10 / j) > 1')):
        pre = 'int cnt = 0;\n%s noisy(int v) { write("N"); cnt += 1; return %s; }\n' % (el, ret)
        dump = 'write(cnt); for (int k = 0; k < a.length; k += 1) { write(a[k]); write(\' \'); }'
        ops = ['a[i] = noisy(j);', 'a[i] = %s;' % divx] + (['a[i] += noisy(j);', 'a[i] /= j;', 'a[i] %= noisy(j) - 3;'] if el == 'int' else [])
        for op in ops:
            body = 'write("<"); %s write(">"); %s' % (op, dump)
            grid5 = [Cfg((str(i), str(j)), w, 200, False) for i in (-1, 0, 3, 4, 5) for j in (0, 1, 2) for w in ws]
            units.append((pre + 'empty @is_you(int i, int j) { %s[] a = %s; %s }\n' % (el, lit, body), grid5))
            units.append((pre + '%s[] a = %s;\nempty @is_you(int i, int j) { %s }\n' % (el, lit, body), grid5))
            units.append((pre + 'empty st(%s[] a, int i, int j) { %s }\nempty @is_you(int i, int j) { %s[] q = %s; st(q, i, j); }\n' % (el, body, el, lit), grid5))
            units.append((pre + 'empty @is_you(int i, int j) { %s a[4]; for (int k = 0; k < 4; k += 1) { a[k] = noisy(k); } %s }\n' % (el, body), grid5))
    # index / length / divisor expressions that are CASTS of computed or global ints (the guard must see the narrowed value the access uses)
    gpre = 'int gi = 0;\n'
    forms = ['(i + 1) is byte', 'i is byte', '((i * 2) is byte) is int', '(gi + 0) is byte', 'gi is byte', '((i + 1) is byte) + 0', '(i is bool) is int', '((i - 1) is byte) is int']
    for el, val in (('byte', "'#'"), ('int', '7'), ('bool', 'true')):
        for f in forms:
            src = gpre + ('empty @is_you(int i, int j) { gi = i; %s buf[10]; for (int k = 0; k < 10; k += 1) { buf[k] = %s; } write("<"); buf[%s] = %s; write(buf[%s]); buf[%s] %s write(">"); }\n'
                          % (el, {'byte': "'.'", 'int': '0', 'bool': 'false'}[el], f, val, f, f, {'byte': "= 'x';", 'int': '+= 2;', 'bool': '= false;'}[el]))
            units.append((src, [Cfg((str(i), '1'), w, 200, False) for i in (0, 1, 9, 10, 255, 256, 257, 265, 600, -1, -255, -256, 511) for w in ws]))
        for f in forms[:5]:
            src = gpre + 'empty @is_you(int i, int j) { gi = i; write("<"); %s a[%s]; write(a.length); write(">"); int d = 100 / (%s); write(d); }\n' % (el, f, f)
            units.append((src, [Cfg((str(i), '1'), w, 400, False) for i in (0, 1, 9, 255, 256, 257, 600, -1, -255, -256) for w in ws]))
    # arrays of 256 and more elements indexed by byte-typed arithmetic (a 'byte-valued index cannot overflow' shortcut is wrong for c + 1, c * 2, c - 1)
    for decl, pre in (('int table[256];\nint canary = 777;\n', ''), ('byte table[300];\nint canary = 777;\n', ''), ('int canary = 777;\n', 'int table[256]; ')):
        for f in ('c + 1', 'c * 2', 'c - 1', 'c', 'c + c', '(c is int) + 200', 'c + d', '-c', '255 - c + 256'):
            src = decl + 'empty @is_you(int i, int j) { %sbyte c = i is byte; byte d = j is byte; write("<"); table[%s] = 12; write(table[%s]); write(">"); write(canary); }\n' % (pre, f, f)
            units.append((src, [Cfg((str(i), str(j)), w, 700, False) for (i, j) in ((0, 0), (1, 1), (127, 1), (128, 128), (200, 100), (255, 1), (255, 255), (150, 149)) for w in ws[:2]]))
    # dividends that fold to the constant 0 (or 1) over run-time divisors: `0 / d` must still fault when d is 0
    for dv in ('int d = j;', 'byte d = j is byte;'):
        for e in ('0 / d', '0 % d', '(3 - 3) / d', 'Z % d', 'Z / d', '(Z * 5) / d', '1 / d', '(i - i) / d', '0 / (d + 0)', '(0 / d) + (0 % d)', '0 * (5 / d)', '(5 / d) * 0'):
            src = 'const int Z = 0;\nempty @is_you(int i, int j) { %s write("<"); write(%s); write(">"); }\n' % (dv, e)
            units.append((src, [Cfg((str(i), str(j)), w, 100, False) for i in (0, 7) for j in (0, 1, 2, 256) for w in ws[:2]]))
    # nonlocal preempt at return
    src = ('empty !baba(int c) { if (c > 5) { preempt { write("p"); } } write("b"); }\n'
           'empty @is_you(int a, int b) { try { write("<"); !baba(a); !truth_is_defeat(b > 0); write(">"); } undo { write("U"); } write("."); }\n')
    units.append((src, [Cfg((str(a), str(b)), w, 100, False) for a in (0, 9) for b in (0, 1) for w in ws]))
    # compile-time constant indices and lengths (the generator may special-case immediates)
    for el, (lit, rd) in els.items():
        val = {'int': '7', 'byte': "'z'", 'bool': 'false'}[el]
        for storage in ('local', 'global', 'constglobal'):
            for idx in ('(-1)', '0', '3', '4', '5', '255', '256'):
                for form in ('read', 'write'):
                    if form == 'write' and storage == 'constglobal':
                        continue
                    op = 'write(a[%s]); write(\' \');' % idx if form == 'read' else 'a[%s] = %s; write("w");' % (idx, val)
                    decl = '%s%s[] a = %s;' % ('const ' if storage == 'constglobal' else '', el, lit)
                    guard = 'int[] canary = [1234, 5678];'
                    if storage == 'local':
                        src = 'empty @is_you() {\n  %s %s %s\n  write("<"); %s write(">"); write(canary[0]); write(canary[1]);\n}\n' % (guard, decl, guard.replace('canary', 'canary2'), op)
                    else:
                        src = 'int[] canary = [1234, 5678];\n%s\nint[] canary2 = [1234, 5678];\nempty @is_you() {\n  write("<"); %s write(">"); write(canary[0]); write(canary[1]); write(canary2[0]);\n}\n' % (decl, op)
                    units.append((src, [Cfg((), w, 100, False) for w in ws]))
    for idx in ('(-1)', '0', '4', '5', '6'):
        units.append(('empty @is_you() { write("<"); write("hello"[%s]); write(">"); }\n' % idx, [Cfg((), w, 100, False) for w in ws]))
        units.append(('const int K = %s;\nstring s = "hello";\nempty @is_you() { write("<"); write(s[K]); write(">"); }\n' % idx, [Cfg((), w, 100, False) for w in ws]))
    for n in ('(-1)', '0', '3', '(-8)', '32767', '16383', '16384'):
        for el in ('int', 'byte', 'bool'):
            units.append(('empty @is_you() { write("<"); %s a[%s]; write(a.length); write(">"); }\n' % (el, n), [Cfg((), w, 60, False) for w in ws]))
    # the only preempt of the defeat function sits in every syntactic position
    bodies = {
        'then': 'if (c > 5) { preempt { write("p"); } }',
        'else': 'if (c > 5) { write("-"); } else { preempt { write("p"); } }',
        'elseif': 'if (c > 7) { write("-"); } else if (c > 5) { preempt { write("p"); } }',
        'loop': 'for (int i = 0; i < c; i += 1) { preempt { write("p"); } }',
        'while': 'int i = c; while (i > 8) { i -= 1; preempt { write("p"); } }',
        'nested': '{ { if (c > 99) { { preempt { write("p"); } } } } }',
        'dead': 'if (false) { preempt { write("p"); } }',
        'tryless': 'preempt { if (c > 5) { write("p"); } }',
    }
    for name, body in bodies.items():
        for handler in ('undo', 'stop'):
            src = ('empty !baba(int c) { %s write("b"); }\n' % body +
                   'empty @is_you(int a, int b) { try { write("<"); !baba(a); !truth_is_defeat(b > 0); write(">"); } %s { write("H"); } write("."); }\n' % handler)
            units.append((src, [Cfg((str(a), str(b)), w, 100, False) for a in (0, 6, 9) for b in (0, 1) for w in ws]))
    return units


def fixed_expectation_check(ctx, ws):
    """Division guards over dividends that the FRONT END may fold (0 / d, Z % d, (3 - 3) / d ...): the reference semantics interprets
    the checked tree of hidc's own front end, so a wrong simplification there is invisible to the differential sweep.  Here the expected
    outcome is written down independently: the guard faults exactly when the divisor is zero."""
    import hidrun
    forms = [('0 / d', 0), ('0 % d', 0), ('(3 - 3) / d', 0), ('Z % d', 0), ('Z / d', 0), ('(Z * 5) / d', 0), ('(i - i) / d', 0), ('0 / (d + 0)', 0), ('(0 / d) + (0 % d)', 0),
             ('0 * (5 / d)', 0), ('(5 / d) * 0', 0), ('0 / d / d', 0), ('-(0 % d)', 0), ('(0 / d) is bool', 'false'), ('0 / d == 0', 'true'), ('(0 / d) is byte', '\x00')]
    cases, meta = [], []
    for decl, dval in (('int d = j;', lambda j, w: j), ('byte d = j is byte;', lambda j, w: j & 255), ('int d = j * 256;', lambda j, w: hidrun_wrap(j * 256, w))):
        for e, val in forms:
            src = 'const int Z = 0;\nempty @is_you(int i, int j) { %s write("<"); write(%s); write(">"); }\n' % (decl, e)
            for w in ws[:2]:
                for j in (0, 1, 2, 256, -256, 3):
                    cases.append(hidrun.Case(src, ('7', str(j)), w, 100, False, 400_000, None))
                    meta.append((src, e, val, dval(j, w) == 0, j, w))
    runs = hidrun.run_cases(cases)
    n = 0
    for (src, e, val, zero, j, w), r in zip(meta, runs):
        end, flags, out = hidrun.terminal(r)
        n += 1
        if zero:
            ok = end == 'error' and flags == ['division_by_zero', 'error'] and out == b'<'
            want = 'division_by_zero, error after "<"'
        else:
            ok = end == 'win' and flags == ['win'] and out == b'<' + str(val).encode('latin1').decode('unicode_escape').encode('latin1') + b'>'
            want = 'win with output <%s>' % val
        if not ok:
            ctx.violate('division guard over a foldable dividend: expected %s' % want, cls='fixed_expectation', source=src, args=['7', str(j)], w=w, got=[end, flags, out.decode('latin1')])
    ctx.cov['evaluations'] += n


def hidrun_wrap(v, w):
    M = 1 << (8 * w)
    v %= M
    return v - M if v >= M >> 1 else v


def run(ctx):
    rng = random.Random(ctx.seed)
    q = ctx.tier == 'quick'
    ws = [2, 3] if q else [2, 3, 4, 8]
    h = halts_extra(ctx)
    diff_sweep(ctx, 'directed fault grid (access form x element type x storage x boundary index/divisor/length)', directed_units(rng, ws, 0), extra=h, monitor=True)
    units = program_units(rng, 110 if q else 1500, ALL + ['faults'], [2, 3, 4] if q else WS, cfgs_per=4, seed_base=ctx.seed + 500)
    diff_sweep(ctx, 'random programs with unguarded divisors/indices/lengths', units, extra=h, monitor=True)
    fixed_expectation_check(ctx, ws)
    ctx.cov['rule'] = sweeps.RULE + '; directed grid = every access form x element type x storage class with the index/divisor/length driven by the input over the boundary grid'
