"""C11 - precedence and associativity."""
from component import run_corr
PROPS_VO = ['Props/C11_parser.vo']
GEN_ITEMS = ['coq/Gen/GenGrammar.v']
GEN_FROM = {'regen_parser': ['coq/Gen/GenGrammar.v']}
TRUSTED = ['function calls, array literals and string/char literals are outside the expression model (PUnsup); the driver runs the model parser with fuel = token count + 1 and reports exhaustion distinctly (never observed)']
ASSUMPTIONS = ['Spec.documented_levels is the README table typed in once']


def run(ctx):
    run_corr(ctx, 'corr_parser', 'hidc.parser expression trees vs ladder-parser model, and print/parse round trip on hidc')
