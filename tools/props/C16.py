"""C16 - control never runs off the end of a function."""
from component import run_corr
PROPS_VO = ['Props/C16_exit.vo']
GEN_ITEMS = ['coq/Gen/GenExit.v']
GEN_FROM = {'regen_exit': ['coq/Gen/GenExit.v']}
TRUSTED = ['abstract statement language of coq/HiD/Exit.v (expressions abstracted to plain/opaque; conditions to unknown/true/false/opaque); big-step exec is the specification of control outcomes']
ASSUMPTIONS = ['soundness for the classes the generator consults (NONE/BREAK/RETURN) is unconditional; DEFEAT/LOOP flags are refuted for two for-loop shapes (harmless: generator.py only tests NONE)']


def run(ctx):
    run_corr(ctx, 'corr_exit', 'blocks.py exit-mode analysis vs Exit.analyse')
    import c16_machine
    c16_machine.run(ctx)
