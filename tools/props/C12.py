"""C12 - lexing is exact and independent of layout."""
from component import run_corr
PROPS_VO = ['Props/C12_lexer.vo']
GEN_ITEMS = ['coq/Gen/GenLexer.v']
GEN_FROM = {'regen_lexer': ['coq/Gen/GenLexer.v']}
TRUSTED = ['Unicode classification beyond ASCII (\\w \\d \\s) is an oracle: Section variables in the theorems, tables computed with Python re for extraction',
           'regex texts of readers.py are pinned (compared by reflexivity with the texts the hand model was written against)']
ASSUMPTIONS = ['the layout theorem uses a sufficient (not minimal) separability condition; "emitted instructions unchanged under re-layout" is checked end to end by the correspondence']


def run(ctx):
    run_corr(ctx, 'corr_lexer', 'hidc.lexer.lex tokens/spans/errors vs Lexer model; re-layout invariance on hidc')
