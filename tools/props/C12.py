"""C12 - lexing is exact and independent of layout."""
import os, random, sys
from component import run_corr
from common import REPO
PROPS_VO = ['Props/C12_lexer.vo']
GEN_ITEMS = ['coq/Gen/GenLexer.v']
GEN_FROM = {'regen_lexer': ['coq/Gen/GenLexer.v']}
TRUSTED = ['Unicode classification beyond ASCII (\\w \\d \\s) is an oracle: Section variables in the theorems, tables computed with Python re for extraction',
           'regex texts of readers.py are pinned (compared by reflexivity with the texts the hand model was written against)']
ASSUMPTIONS = ['the layout theorem uses a sufficient (not minimal) separability condition; "emitted instructions unchanged under re-layout" is checked end to end by the correspondence']


def run(ctx):
    run_corr(ctx, 'corr_lexer', 'hidc.lexer.lex tokens/spans/errors vs Lexer model; re-layout invariance on hidc')
    file_path_check(ctx)


def file_path_check(ctx):
    """The command-line tool reads the source through SourceCode.from_file; the model and the correspondence above use
    from_string.  Both must produce the same lines (hence the same tokens and spans) for every text, in particular for texts
    containing characters that some Python line-splitting functions treat as line breaks (VT, FF, FS..US, NEL, LS, PS) inside
    comments and literals.  CR is excluded: reading a file translates CR and CRLF to LF by design (universal newlines)."""
    if REPO not in sys.path:
        sys.path.insert(0, REPO)
    from hidc.lexer import SourceCode, lex
    from hidc.errors import CompilerError
    rng = random.Random(ctx.seed)
    special = ['\x0b', '\x0c', '\x1c', '\x1d', '\x1e', '\x1f', '\x85', '\u2028', '\u2029', '\xa0', '\t', '\u00e9', '\u4e16', '\U0001F30E', '\ufeff', '\x00', '\x7f']
    texts = []
    for ch in special:
        texts += ['int x = 1; // a comment%sx = 2; // more\nwrite(x);\n' % ch, 'write("a%sb");\n' % ch, "write('%s');\n" % ch, 'int a%s= 3;\n' % ch,
                  '// only a comment%s\n\nint y;' % ch, 'write("x") %s ;' % ch, '%sint z;\n' % ch, 'int q = 7;%s' % ch]
    for _ in range(150):
        n = rng.randrange(1, 40)
        texts.append(''.join(rng.choice(special + list('ab1 "\'/\n\n;=(){}\\')) for _ in range(n)))
    work = os.path.join(ctx.work, 'c12_files')
    os.makedirs(work, exist_ok=True)

    def toks(src):
        try:
            return [(repr(t.token), str(t.span.start), str(t.span.end)) for t in lex(src)]
        except CompilerError as e:
            return ['ERR', type(e).__name__, str(e), [str(c.start) for c in e.context]]
    n = 0
    for k, text in enumerate(texts):
        fn = os.path.join(work, 't%d.hid' % k)
        with open(fn, 'w', encoding='utf-8', newline='') as f:
            f.write(text)
        try:
            a = SourceCode.from_file(fn)
            la = list(a.lines)
        except Exception as e:
            ctx.violate('reading a UTF-8 source file failed', cls='from_file', text=text, error='%s: %s' % (type(e).__name__, e))
            continue
        b = SourceCode.from_string(text)
        n += 1
        if la != list(b.lines) and la + [''] != list(b.lines) and la != list(b.lines) + ['']:
            ctx.violate('a source FILE is split into different lines than the same text given as a string: the rest of a comment became code, or a literal was cut',
                        cls='from_file_lines', text=text, file_lines=la[:6], string_lines=list(b.lines)[:6])
            continue
        ta, tb = toks(a), toks(b)
        if ta != tb:
            ctx.violate('lexing a source file gives different tokens/spans than lexing the same text', cls='from_file_tokens', text=text, file=ta[:8], string=tb[:8])
    ctx.cov['evaluations'] = ctx.cov.get('evaluations', 0) + n
    ctx.cov['rule'] = (ctx.cov.get('rule', '') + ' | file path: %d texts with VT/FF/FS-US/NEL/LS/PS/NBSP/BOM/NUL and non-ASCII characters in comments, literals and between tokens, '
                       'written as UTF-8 files: SourceCode.from_file must give the same lines, tokens and spans as from_string (CR excluded: universal newlines)' % n)
