"""C02 - try/undo, try/stop, preempt and ?? follow their time-travel semantics."""
import random
import sweeps, genhist
from sweeps import ALL, WS, program_units, diff_sweep, halts_extra
from diffrun import Cfg

PROPS_VO = ['Props/C02.vo', 'Props/Patterns_props.vo']
GEN_ITEMS = ['coq/Gen/GenTables.v', 'coq/Gen/GenStdlib.v']
LEVEL = 'proof'
TRUSTED = ['PARTIAL: proved = machine-level idiom theorems for undo / preempt / stop / speculation / defeat calls over arbitrary bodies (coq/Sphinx/TimeTravel.v) '
           'and the Turing-jump metatheory; that the generator emits exactly these idioms around arbitrary code is covered by the differential sweep, not by theorem',
           'tools/hidref.py SemTT: scoped backtracking with replay (specification)', 'tools/gen.py, tools/genhist.py generators']
ASSUMPTIONS = ['code outside a try never halts (C03/C06), so the scoped semantics equals the machine\'s leftmost-path semantics']


def history_units(rng, n, ws, seed_base, per=4, stack=300, unchecked=False):
    units = []
    for i in range(n):
        src = genhist.gen_history(seed_base * 1_000_003 + i)
        units.append((src, [Cfg(genhist.hist_args(rng, 3), ws[(i + k) % len(ws)], stack, unchecked) for k in range(per)]))
    return units


def nonterm_extra(ctx):
    """VM out of fuel although the reference finishes quickly without replays: the compiled
    program re-executes something the source does not (e.g. a stale handler)."""
    def extra(src, res):
        ex = res.extra or {}
        # only when the source needs (almost) no speculation: otherwise the VM's search may simply be long
        if res.run.status == 'ran' and res.run.kind == 'FUEL' and res.ref and res.ref[0] in ('win', 'error') \
                and ex.get('replays', 99) <= 6 and ex.get('ref_steps', 10 ** 9) <= 3000:
            ctx.violate('compiled program does not reach its end state within the fuel although the source terminates at once',
                        cls='nontermination', **sweeps.describe(src, res))
    return extra


def run(ctx):
    rng = random.Random(ctx.seed)
    q = ctx.tier == 'quick'
    ws = [2, 3, 4] if q else WS
    h = halts_extra(ctx)
    n = nonterm_extra(ctx)

    def both(src, res):
        h(src, res)
        n(src, res)
    from component import run_corr
    run_corr(ctx, 'corr_patterns', 'every emitted j classifies as a proved idiom (Patterns.classify)')
    diff_sweep(ctx, 'directed time-travel corpus', genhist.directed_units(ws), extra=both, monitor=True)
    diff_sweep(ctx, 'directed time-travel corpus, --unchecked', genhist.directed_units(ws[:2], unchecked=True), extra=h)
    diff_sweep(ctx, 'histories of try blocks', history_units(rng, 220 if q else 2500, ws, ctx.seed + 200), extra=both, monitor=True)
    units = program_units(rng, 120 if q else 1500, ALL + ['tt'], ws, cfgs_per=3, seed_base=ctx.seed + 201)
    diff_sweep(ctx, 'random programs with time travel', units, extra=h, monitor=True)
    diff_sweep(ctx, 'histories, --unchecked', history_units(rng, 40 if q else 400, ws, ctx.seed + 202, per=2, unchecked=True), extra=None)
    ctx.cov['rule'] = sweeps.RULE
