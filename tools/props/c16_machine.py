"""Machine side of C16: on the verified VM, a committed step from the last instruction of one
function's code range into the next function's range without a taken jump is a violation."""


def run(ctx):
    # filled in by the behavioural sweep machinery (see sweeps.py); kept separate so that the
    # component part of C16 works on its own
    try:
        import sweeps
    except ImportError:
        return
    sweeps.c16_fallthrough(ctx)
