"""Machine side of C16: on the verified VM, a committed step from the last instruction of one
function's code range into the next function's range without a taken jump is a violation."""


def run(ctx):
    # filled in by the behavioural sweep machinery (see sweeps.py); kept separate so that the
    # component part of C16 works on its own
    try:
        import sweeps
    except ImportError:
        return
    sweeps.c16_fallthrough(ctx)
    # behaviour of the directed loop shapes against the reference semantics (running off the end prints the next function's output)
    from diffrun import Cfg
    units = [(src, [Cfg((str(a), str(b)), w, 300, False) for a in (0, 1, 5, 9) for b in (0, 3, 7) for w in (2, 4)]) for src in sweeps.C16_DIRECTED]
    sweeps.diff_sweep(ctx, 'directed loop shapes (continue/break in bare nested blocks, bodies that never complete), each function followed by another', units, extra=sweeps.halts_extra(ctx))
