"""C03 - halt is defeat: a compiled program never halts."""
import random
import sweeps
from sweeps import ALL, WS, program_units, diff_sweep, halts_extra
import C02

PROPS_VO = ['Props/C03.vo', 'Props/Patterns_props.vo', 'Props/C01_program.vo']
GEN_ITEMS = ['coq/Gen/GenTables.v', 'coq/Gen/GenStdlib.v', 'coq/Gen/GenContext.v']
GEN_FROM = {'regen_context': ['coq/Gen/GenContext.v']}
LEVEL = 'proof'
TRUSTED = ['PARTIAL: proved = "halts on the committed timeline iff Halts(initial state)" (halts_cstep), absorbing win/error stubs on the regenerated stdlib, '
           'goto/branch/guard idioms preserve Halts both ways, defeat calls and preempts lie lexically in try bodies or defeat functions for every accepted program '
           '(C06 corollary), and vm_sound: every VM verdict of the sweep is a proof instance (OAbsorbed/OFault: never halts; OHalt: halts). '
           'program_never_halts: proved outright for the modelled fragment (multi-function programs over int/bool locals, loops, calls, recursion, write, checked division) from the initial image; not proved for arbitrary programs (arrays, strings, time travel): there the jump classifier and the sweep apply']
ASSUMPTIONS = ['defined behaviour only: checked builds, or unchecked builds on runs the reference semantics finds fault-free; no reads of uninitialised elements']


EXAMPLE_ARGS = {'hello': [()], 'factor': [('360',), ('97',), ('1',)], 'max': [('3', '9', '2', '9', '1'), ('5',)], 'mergesort': [('5', '3', '9', '1', '7', '2'), ('1',), ()],
                'optional_max': [('1', '5', '2'), ()], 'decimal': [('1', '7'), ('22', '7'), ('1', '0')], 'sat': [()], 'ouroboros': [()], 'sphinxfuck': [()]}


def example_units(ws):
    import os
    from common import REPO
    from diffrun import Cfg
    units = []
    for name, argl in EXAMPLE_ARGS.items():
        path = os.path.join(REPO, 'examples', name + '.hid')
        if os.path.exists(path):
            units.append((open(path).read(), [Cfg(a, w, 400, False) for a in argl for w in ws]))
    return units


def run(ctx):
    rng = random.Random(ctx.seed)
    q = ctx.tier == 'quick'
    ws = [2, 3, 4] if q else WS
    h = halts_extra(ctx)
    from component import run_corr
    import genhist
    run_corr(ctx, 'corr_patterns', 'every emitted j classifies as a proved idiom (Patterns.classify)')
    diff_sweep(ctx, 'directed time-travel corpus', genhist.directed_units(ws), extra=h, monitor=True)
    diff_sweep(ctx, 'examples/*.hid with fixed inputs', example_units(ws[:2]), extra=h, monitor=True, fuel=3_000_000)
    units = program_units(rng, 100 if q else 1200, ALL + ['tt', 'faults'], ws, cfgs_per=3, seed_base=ctx.seed + 300)
    diff_sweep(ctx, 'all constructs incl. faults', units, extra=h, monitor=True)
    diff_sweep(ctx, 'histories of try blocks', C02.history_units(rng, 150 if q else 2000, ws, ctx.seed + 301), extra=h, monitor=True)
    units = program_units(rng, 40 if q else 500, ALL + ['tt'], ws, cfgs_per=2, seed_base=ctx.seed + 302, unchecked=True)
    diff_sweep(ctx, 'unchecked builds (fault-free by construction)', units, extra=h)
    st = ctx.cov['distribution']
    verdicts = sum(v for d in st.values() if isinstance(d, dict) for k, v in d.get('outcomes(vm/ref)', {}).items() if k.split('/')[0] in ('win', 'error', 'loop'))
    ctx.cov['never_halts_proof_instances'] = verdicts
    ctx.cov['rule'] = sweeps.RULE + '; every ABSORBED/FAULT verdict is an instance of vm_sound (~Halts), a HALT verdict is a proof of the violation'
