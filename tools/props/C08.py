"""C08 - every scope exit releases exactly what the scope allocated."""
import random
import sweeps, hidrun, diffrun, C02
from sweeps import ALL, WS, program_units, halts_extra
from diffrun import Cfg

PROPS_VO = ['Props/C08.vo', 'Props/C08_restore.vo']
GEN_ITEMS = ['coq/Gen/GenLayout.v', 'coq/Gen/GenStdlib.v']
LEVEL = 'proof'
TRUSTED = ['PARTIAL: proved = machine lemmas for the restore idioms (C08_restore.v: fp rebasing around calls is the identity; call_idiom: given the callee specification the caller gets fp/ap and its frame and arrays back; return sequences; any sequence of array allocations followed by the dynamic (origin slot) or static (sub) reset restores ap exactly; stop-handler entry restores fp and ap; library routines leave ap/fp and caller memory alone) '
           'and array_size arithmetic; "what must be released" is defined by the reference semantics\' allocation stack; that the generator emits the right restore at every exit route is covered by the allocation monitor sweep',
           'allocation monitor: at every committed output byte, [ap] - stack_start on the verified VM must equal the byte size of the arrays the reference semantics has live']
ASSUMPTIONS = ['temporaries (array literals used as call arguments / lookup sources) die when their call or lookup completes, as the property says for calls']


def alloc_extra(ctx, counter):
    def extra(src, res):
        r = res.run
        if r.status != 'ran' or r.kind not in ('ABSORBED',) or not res.ref or res.ref[0] not in ('win', 'error') or res.diff:
            return
        marks = (res.extra or {}).get('alloc_marks') or []
        ss = (r.lines or {}).get('stack_start')
        if ss is None or len(marks) != len(r.out) or len(r.snaps) < len(r.out):
            return
        counter[0] += 1
        for k, (m, sn) in enumerate(zip(marks, r.snaps)):
            ap = sn[1]
            if ap - ss != m:
                ctx.violate('array stack differs from what the live arrays of the source need at output byte #%d: ap - stack_start = %d, live arrays need %d bytes (leak or early release)' % (k, ap - ss, m),
                            cls='alloc', output_so_far=r.out[:k + 1].decode('latin1')[-60:], **sweeps.describe(src, res))
                return
    return extra


DIRECTED = [
    'empty @is_you(int a, int b) {\n  for (int i = 0; i < 4; i += 1) {\n    int[] t = [i, a];\n    if (i == b) { continue; }\n    try { int[] u = [1, 2, 3]; !truth_is_defeat(i == a); write(u[0]); } stop { write("s"); }\n    write(t[0]);\n  }\n  int[] z = [9]; write(z[0]);\n}\n',
    'int f(int n) { int[] p = [n, n]; if (n > 2) { return p[0]; } { int q[n + 1]; q[0] = 5; if (n == 1) { return q[0]; } } return 0; }\nempty @is_you(int a, int b) { write(f(a)); write(f(b)); int[] z = [1]; write(z[0]); write(f(a + b)); write(z[0]); }\n',
    'empty @is_you(int a, int b) {\n  int i = 0;\n  while (i < 5) {\n    i += 1;\n    bool[] m = [true, i > a, false];\n    { byte[] inner = [\'x\', \'y\']; if (i == b) { break; } write(inner); }\n    write(m[1]);\n  }\n  string[] ss = ["a", "bc"]; write(ss[1]);\n}\n',
    'empty !d(int c) { int[] big = [1, 2, 3, 4, 5, 6]; !truth_is_defeat(c > 1); write(big[5]); }\nempty @is_you(int a, int b) {\n  int[] keep = [7, 8];\n  try { int[] x = [a]; !d(a); write(x[0]); } stop { write("S"); int[] y = [b, b]; write(y[1]); }\n  try { !d(b); write("k"); } undo { write("U"); }\n  write(keep[1]); int[] after = [3]; write(after[0]);\n}\n',
    # a try body that always leaves by break / continue / return and can only be defeated inside an expression, in a loop body owning arrays
    'int !pick(int a, int i) { !truth_is_defeat(i < a); return i * 2; }\nempty @is_you(int a, int b) {\n  int i = 0; int found = 0 - 1;\n  while (i < 5) {\n    int seen[b + 1];\n'
    '    try { int tmp[2]; tmp[0] = !pick(a, i); seen[0] = tmp[0]; found = seen[0]; break; } undo { i += 1; }\n  }\n  write(found); int[] z = [7]; write(z[0]);\n}\n',
    'int !pick(int a, int i) { !truth_is_defeat(i < a); return i * 2; }\nint @scan(int a, int b) {\n  for (int i = 0; i < 6; i += 1) {\n    int[] own = [i, a, b]; byte pad[b + 2];\n'
    '    try { int v = !pick(a, i) + own[0]; return v; } stop { write("s"); }\n  }\n  return 0 - 1;\n}\nempty @is_you(int a, int b) { write(@scan(a, b)); write(@scan(b, a)); int[] z = [9]; write(z[0]); }\n',
    'bool !ok(int a, int i) { !truth_is_defeat(i == a); return i > 1; }\nempty @is_you(int a, int b) {\n  for (int i = 0; i < 5; i += 1) {\n    bool[] m = [true, false, true]; int d[i + 1];\n'
    '    try { if (!ok(a, i)) { write("y"); } continue; } undo { write("u"); }\n    write(m[0]); d[0] = i;\n  }\n  int k = 0;\n  while (k < 4) { k += 1; string[] ss = ["p", "q"];\n'
    '    try { m2(k); bool t = !ok(b, k); write(t); break; } stop { write("S"); } write(ss[0]); }\n  write(k);\n}\nempty m2(int k) { int[] loc = [k, k]; write(loc[1]); }\n',
    # a loop as the LAST statement of a block that owns arrays, with arrays declared in the loop body that falls through (an enclosing
    # clean-up following the loop does not make the per-iteration release redundant); for loops whose initialiser declares an array
    'empty @is_you(int a, int b) {\n  int total = 0;\n  { int[] own = [a, b, 7]; int k = 0;\n    while (k < 6 + a) { int scratch[b + 2]; byte[] tag = [\'t\', \'u\']; scratch[0] = k; total += scratch[0] + own[2]; write(k); k += 1; }\n  }\n'
    '  { byte pad[a + 1]; for (int[] it = [0, 5 + b]; it[0] < it[1]; it[0] += 1) { int tmp[3]; tmp[2] = it[0]; total += tmp[2]; write(\'i\'); } }\n  write(total); int[] z = [4]; write(z[0]);\n}\n',
    'int spin(int a, int b) { bool[] m = [true, false, true]; int n = 0; while (true) { int q[a + 1]; q[0] = n; n += 1; write(\'q\'); if (n > 5 + b) { return n + q[0]; } } }\n'
    'empty @is_you(int a, int b) { write(spin(a, b)); if (a > 1) { string[] ss = ["x", "y"]; int j = 0; while (j < 4) { int w[2]; w[1] = j; j += 1 + w[1]; write(\'w\'); } write(j); } write(spin(b, a)); }\n',
    # a block that owns an array, directly contains a preempt block ending in continue / break / return, and otherwise falls off its end
    'empty @is_you(int a, int b) {\n  int total = 0;\n  try {\n    for (int i = 0; i < 8; i += 1) {\n      int sq[2 + a];\n      sq[0] = i * i;\n      if (i == b) { } else { int tmp[3]; tmp[0] = sq[0]; preempt { continue; } total += tmp[0]; write(i); }\n      write(\'.\');\n    }\n'
    '    !truth_is_defeat(total > 50 + a);\n    write(total);\n  } undo { write("U"); }\n  int[] z = [5]; write(z[0]);\n}\n',
    'int !walk(int a, int b) {\n  int n = 0;\n  while (n < 6) {\n    n += 1;\n    { byte[] pad = [\'p\', \'q\']; int big[n]; preempt { break; } write(n); }\n    { bool[] m = [true, false]; preempt { return n * 10; } write(\'m\'); }\n  }\n  !truth_is_defeat(n > a + b);\n  return n;\n}\n'
    'empty @is_you(int a, int b) { try { write(!walk(a, b)); } stop { write("S"); } try { write(!walk(b + 3, a)); } undo { write("U"); } int[] z = [6]; write(z[0]); }\n',
]


def run(ctx):
    rng = random.Random(ctx.seed)
    q = ctx.tier == 'quick'
    ws = [2, 3, 4] if q else WS
    counter = [0]
    ae = alloc_extra(ctx, counter)
    units = [(src, [Cfg((str(a), str(b)), w, 300, False) for a in (0, 1, 2, 3) for b in (0, 1, 2, 5) for w in ws[:2]]) for src in DIRECTED]
    units += program_units(rng, 110 if q else 1500, ['arrays', 'strings', 'calls', 'globals', 'overloads', 'tt'], ws, cfgs_per=3, seed_base=ctx.seed + 800)
    units += C02.history_units(rng, 80 if q else 1000, ws, ctx.seed + 801, per=3)
    import genhist
    units += genhist.directed_units(ws[:2])
    st = sweeps.Stats()
    results = diffrun.run_units(units, watch_labels='yields')
    nviol = 0
    for (src, _), rs in zip(units, results):
        st.note_features(src)
        for res in rs:
            st.feed(src, res)
            if res.diff:
                ctx.violate('compiled program disagrees with the reference semantics', cls='semantic', diff=res.diff, **sweeps.describe(src, res))
            ae(src, res)
    ctx.cov['evaluations'] += st.runs
    ctx.cov['distinct_nontrivial'] = len(st.distinct)
    ctx.cov['allocation_traces_compared'] = counter[0]
    ctx.cov['rule'] = ('programs with arrays (literal, dynamic, passed, aliased) in nested scopes, loops with break/continue, returns from nested blocks, try/stop with arrays allocated in callees, '
                       'each run on the verified VM with a watch on every yield instruction: at each committed output byte ap - stack_start must equal the reference semantics\' live array bytes '
                       '(%d traces compared); plus output comparison' % counter[0])
    ctx.cov['distribution'] = {'outcomes(vm/ref)': dict(st.outcomes), 'programs_using': dict(st.features)}
    ctx.cov['samples'] = [{'source': DIRECTED[0]}, {'source': units[len(DIRECTED) + 1][0][:800]}]
