"""Root-cause predicates of the known findings (known_findings.txt).  A failing input matches a
known record only if the record's predicate holds of it; everything else is a new violation."""


def _sgn_range(w):
    return -(1 << (8 * w - 1)), (1 << (8 * w - 1))


def const_events(tree, w):
    """Evaluate a constant expression tree the way the compiler folds it (unbounded ints)
    and report whether any intermediate value leaves the w-byte signed range -- exactly the situations in which unbounded folding and
    word arithmetic can differ (Fold.fold_agrees_inrange covers all others)."""
    lo, hi = _sgn_range(w)
    ev = [False]

    def chk(v):
        if isinstance(v, bool):
            return v
        if not (lo <= v < hi):
            ev[0] = True
        return v

    def go(t):
        k = t[0]
        if k == 'lit':
            return chk(t[1])
        if k == 'bool':
            return t[1]
        if k == 'neg':
            return chk(-int(go(t[1])))
        if k == 'pos':
            return chk(int(go(t[1])))
        if k == 'not':
            return not go(t[1])
        if k == 'isbyte':
            return int(go(t[1])) & 255      # folded like the run-time cast since /repo 'fix: a constant is-byte cast kept the whole integer'
        if k == 'isint':
            return chk(int(go(t[1])))
        if k == 'isbool':
            return bool(go(t[1]))
        if k == 'bin':
            op = t[1]
            a, b = go(t[2]), go(t[3])
            if op in ('and', 'or'):
                return (bool(a) and bool(b)) if op == 'and' else (bool(a) or bool(b))
            a, b = int(a), int(b)
            if op == '+': return chk(a + b)
            if op == '-': return chk(a - b)
            if op == '*': return chk(a * b)
            if op == '/':
                if b == 0: raise ZeroDivisionError
                return chk(a // b)
            if op == '%':
                if b == 0: raise ZeroDivisionError
                return chk(a % b)
            return {'<': a < b, '>': a > b, '<=': a <= b, '>=': a >= b, '==': a == b, '!=': a != b}[op]
        raise ValueError(k)
    try:
        go(tuple(tree) if not isinstance(tree, tuple) else tree)
    except ZeroDivisionError:
        pass
    return ev[0]


def _totuple(t):
    return tuple(_totuple(x) if isinstance(x, (list, tuple)) else x for x in t)


def fold_unbounded(v):
    """F5: compile-time evaluation on unbounded integers."""
    if v.get('cls') != 'fold_twin' or 'tree' not in v:
        return False
    return const_events(_totuple(v['tree']), v['w'])


def _has_const_zero_division(tree):
    """does the tree contain a / or % whose right operand folds (unbounded) to zero?"""
    found = [False]

    def val(t):
        k = t[0]
        if k == 'lit':
            return t[1]
        if k == 'bool':
            return t[1]
        if k == 'neg':
            return -int(val(t[1]))
        if k == 'pos':
            return int(val(t[1]))
        if k == 'not':
            return not val(t[1])
        if k == 'isbyte':
            return int(val(t[1])) & 255
        if k == 'isint':
            return int(val(t[1]))
        if k == 'isbool':
            return bool(val(t[1]))
        op = t[1]
        a = val(t[2])
        b = val(t[3])
        if op in ('and', 'or'):
            return (bool(a) and bool(b)) if op == 'and' else (bool(a) or bool(b))
        a, b = int(a), int(b)
        if op in ('/', '%'):
            if b == 0:
                found[0] = True
                return 0
            return a // b if op == '/' else a % b
        return {'+': a + b, '-': a - b, '*': a * b, '<': a < b, '>': a > b, '<=': a <= b, '>=': a >= b, '==': a == b, '!=': a != b}[op]
    val(tree)
    return found[0]


def const_div_in_dead_operand(v):
    """F11: a constant division/modulo by zero is rejected at compile time even when it sits in an
    operand that short-circuit evaluation never reaches at run time."""
    if v.get('cls') != 'fold_twin' or 'tree' not in v:
        return False
    cr = v.get('constant_result') or []
    if not cr or cr[0] != 'compile_error' or 'zero' not in (cr[3] if len(cr) > 3 else ''):
        return False
    return _has_const_zero_division(_totuple(v['tree']))
