"""History generator for the time-travel properties (C02, C03, C08): programs that execute several
try blocks one after another (and in loops), with defeat reached / avoided depending on the
inputs, preempts in try bodies and in (recursive) defeat functions, stop handlers entered from
inside calls, arrays alive across tries, break/continue/return out of tries, and ??.
All inputs are small integers so that both outcomes of every condition occur."""
import random

PRELUDE = '''int g = 0;
int[] ga = [0, 0, 0];
empty !d0() { write("d0"); !is_defeat(); }
empty !dc(int c, int k) { write("dc"); !truth_is_defeat(c > k); write("."); }
empty !dn(int c, int k) { !truth_is_defeat(not (c > k)); write("n"); }
empty !p0() { preempt { write("P"); g += 1; } write("q"); }
empty !p1(int c, int k) { preempt { write("R"); return; } !truth_is_defeat(c > k); write("r"); }
int !rec(int n, int k) {
    if (n <= 0) { !truth_is_defeat(k > 2); return 0; }
    preempt { write("^"); return 100 + n; }
    int r = !rec(n - 1, k + 1);
    return r + 1;
}
empty !pd(int c, int k) { preempt { write("D"); g += 1; } !truth_is_defeat(c > k); write("e"); }
empty !pdd(int c, int k) { preempt { write("E"); } !pd(c, k); if (c > k + 1) { !is_defeat(); } write("x"); }
empty !pe(int c, int k) { if (c > k) { write("i"); } else { preempt { write("Q"); g += 2; } } write("w"); }
empty !pl(int c, int k) { for (int i = 0; i < c; i += 1) { if (i == k) { preempt { write("L"); break; } } write("o"); } write("v"); }
empty !deep(int n, int c) { if (n > 0) { int[] pad = [n, n, n]; !deep(n - 1, c); write(pad[0]); } else { !truth_is_defeat(c > 1); } }
int f(int x) { write("f"); g += x; return x * 2; }
bool fb(int x) { write("b"); g += 1; return x > 1; }
int @you(int x) {
    try { write("y"); !truth_is_defeat(x > 2); } undo { write("Y"); return 0 - x; }
    return x;
}
'''


class H:
    def __init__(self, rng, nargs=3):
        self.r = rng
        self.nargs = nargs
        self.n = 0
        self.lines = []
        self.vars = ['v0', 'v1']
        self.arrs = []
        self.in_loop = False
        self.depth = 0
        self.helpers = []

    def x(self):
        return 'x%d' % self.r.randrange(self.nargs)

    def k(self):
        return str(self.r.choice([0, 1, 2, 3]))

    def cond(self):
        c = self.r.random()
        if c < 0.5:
            return '%s %s %s' % (self.x(), self.r.choice(['>', '<', '==', '!=', '>=', '<=']), self.k())
        if c < 0.7:
            return '%s %s %s' % (self.r.choice(self.vars + ['g']), self.r.choice(['>', '<', '==']), self.k())
        if c < 0.85:
            return '(%s > %s) %s (%s < %s)' % (self.x(), self.k(), self.r.choice(['and', 'or']), self.x(), self.k())
        return 'not (%s > %s)' % (self.x(), self.k())

    def simple(self, ind, in_try=False):
        c = self.r.random()
        p = '    ' * ind
        if c < 0.3:
            return [p + 'write("%s");' % self.r.choice('abcdefghij')]
        if c < 0.5:
            return [p + 'write(%s); write(\' \');' % self.r.choice(self.vars + ['g', 'ga[1]'])]
        if c < 0.65:
            return [p + '%s %s %s;' % (self.r.choice(self.vars + ['g']), self.r.choice(['+=', '-=', '=']), self.r.choice([self.x(), '1', '2', '7']))]
        if c < 0.75:
            return [p + 'ga[%d] %s %s;' % (self.r.randrange(3), self.r.choice(['=', '+=']), self.r.choice([self.x(), '1', '5']))]
        if c < 0.85 and self.arrs:
            a = self.r.choice(self.arrs)
            return [p + '%s[%d] += 1; write(%s[%d]);' % (a, self.r.randrange(2), a, self.r.randrange(2))]
        if c < 0.93:
            return [p + '%s = f(%s);' % (self.r.choice(self.vars), self.x())]
        return [p + 'if (%s) { write("t"); } else { write("e"); }' % self.cond()]

    def simples(self, ind, lo=0, hi=3, in_try=False):
        out = []
        for _ in range(self.r.randrange(lo, hi)):
            out += self.simple(ind, in_try)
        return out

    def defeatish(self, ind):
        p = '    ' * ind
        c = self.r.random()
        if c < 0.25:
            return [p + '!truth_is_defeat(%s);' % self.cond()]
        if c < 0.35:
            return [p + '!is_defeat();']
        if c < 0.45:
            return [p + '!d0();'] if self.r.random() < 0.3 else [p + '!dc(%s, %s);' % (self.x(), self.k())]
        if c < 0.52:
            return [p + '!dn(%s, %s);' % (self.x(), self.k())]
        if c < 0.62:
            return [p + '!p0();']
        if c < 0.68:
            return [p + '!p1(%s, %s);' % (self.x(), self.k())]
        if c < 0.74:
            return [p + '!%s(%s, %s);' % (self.r.choice(['pd', 'pd', 'pdd', 'pe', 'pe', 'pl']), self.x(), self.k())]
        if c < 0.8:
            return [p + '%s = !rec(%s, %s); write(%s); write(\' \');' % (self.vars[0], self.r.choice(['2', '3', self.x()]), self.k(), self.vars[0])]
        if c < 0.86:
            return [p + '!deep(%s, %s);' % (self.r.choice(['1', '2', '3']), self.x())]
        lines = [p + 'preempt {']
        lines += self.simples(ind + 1, 1, 3)
        if self.r.random() < 0.35:
            lines.append('    ' * (ind + 1) + self.r.choice(['return;'] + (['break;', 'continue;'] if self.in_loop else [])))
        lines.append(p + '}')
        return lines

    def try_block(self, ind):
        p = '    ' * ind
        lines = [p + 'try {']
        if self.r.random() < 0.3:
            self.n += 1
            a = 'ta%d' % self.n
            lines.append('    ' * (ind + 1) + 'int[] %s = [%s, %d];' % (a, self.x(), self.r.randrange(9)))
            self.arrs.append(a)
            local_arr = a
        else:
            local_arr = None
        for _ in range(self.r.randrange(1, 5)):
            c = self.r.random()
            if c < 0.5:
                lines += self.defeatish(ind + 1)
            elif c < 0.68:
                # a loop inside the try body, left by break / continue, with more (defeating) code after it
                self.n += 1
                j = 'j%d' % self.n
                was = self.in_loop
                self.in_loop = True
                lines.append('    ' * (ind + 1) + 'for (int %s = 0; %s < %s; %s += 1) {' % (j, j, self.r.choice(['2', '3', self.x()]), j))
                lines += self.simples(ind + 2, 0, 2, True)
                lines.append('    ' * (ind + 2) + 'if (%s %s %s) { %s }' % (j, self.r.choice(['==', '>=']), self.k(), self.r.choice(['break;', 'continue;', 'break;'])))
                if self.r.random() < 0.4:
                    lines += self.defeatish(ind + 2)
                lines += self.simples(ind + 2, 0, 2, True)
                lines.append('    ' * (ind + 1) + '}')
                self.in_loop = was
            else:
                lines += self.simples(ind + 1, 1, 2, True)
        if self.r.random() < 0.15:
            lines.append('    ' * (ind + 1) + self.r.choice(['return;'] + (['break;', 'continue;'] if self.in_loop else [])))
        if local_arr:
            self.arrs.remove(local_arr)
        kind = self.r.choice(['undo', 'stop'])
        lines.append(p + '} %s {' % kind)
        lines += self.simples(ind + 1, 1, 3)
        if self.r.random() < 0.15 and self.in_loop:
            lines.append('    ' * (ind + 1) + self.r.choice(['break;', 'continue;']))
        lines.append(p + '}')
        return lines

    def episode(self, ind):
        c = self.r.random()
        p = '    ' * ind
        if c < 0.5:
            return self.try_block(ind)
        if c < 0.7 and not self.in_loop:
            self.n += 1
            i = 'i%d' % self.n
            lines = [p + 'for (int %s = 0; %s < %s; %s += 1) {' % (i, i, self.r.choice(['2', '3', self.x()]), i)]
            self.in_loop = True
            self.vars.append(i)
            if self.r.random() < 0.5:
                # an array owned by the loop body: every way of leaving the iteration must release it
                la = 'la%d' % self.n
                lines.append(p + '    ' + self.r.choice(['int[] %s = [%s, 4];' % (la, i), 'int %s[2 + %s];' % (la, i), 'byte[] %s = [\'a\', \'b\', \'c\'];' % la, 'bool %s[9];' % la]))
                lines.append(p + '    write(%s.length);' % la)
            for _ in range(self.r.randrange(1, 3)):
                lines += self.try_block(ind + 1) if self.r.random() < 0.7 else self.simples(ind + 1, 1, 2)
            self.vars.remove(i)
            self.in_loop = False
            lines.append(p + '}')
            return lines
        if c < 0.78:
            return [p + '%s = f(%s) ?? %s; write(%s); write(\' \');' % (self.r.choice(self.vars), self.x(), self.r.choice(['0', '2', '4', self.x()]), self.vars[0])]
        if c < 0.83:
            return [p + 'if (fb(%s) ?? %s) { write("S"); }' % (self.x(), self.r.choice(['true', 'false']))]
        if c < 0.9:
            return [p + '%s = @you(%s); write(%s); write(\' \');' % (self.vars[1], self.x(), self.vars[1])]
        if c < 0.94:
            self.n += 1
            a = 'a%d' % self.n
            self.arrs.append(a)
            return [p + 'int[] %s = [%s, %d];' % (a, self.x(), self.r.randrange(9))]
        if c < 0.995 and self.depth == 0:
            # episodes moved into a further you-function (the compiler generates functions lazily in first-use order,
            # so which function first mentions a defeat function / contains the first try-stop varies)
            return [p + self.you_helper()]
        return self.simples(ind, 1, 3)

    def you_helper(self):
        self.n += 1
        name = '@ep%d' % self.n
        sub = H(self.r, self.nargs)
        sub.n, sub.depth = self.n + 100 * (1 + len(self.helpers)), 1
        body = ['    int v0 = 0;', '    int v1 = 1;']
        for _ in range(self.r.randrange(1, 4)):
            body += sub.episode(1)
        body.append('    write(\'{\'); write(v0); write(\' \'); write(v1); write(\'}\');')
        params = ', '.join('int x%d' % i for i in range(self.nargs))
        self.helpers.append((self.r.random() < 0.5, 'empty %s(%s) {\n' % (name, params) + '\n'.join(body) + '\n}\n'))
        return '%s(%s);' % (name, ', '.join(self.r.choice(['x%d' % i for i in range(self.nargs)] + ['1', '3']) for _ in range(self.nargs)))

    def program(self):
        params = ', '.join('int x%d' % i for i in range(self.nargs))
        body = ['    int v0 = 0;', '    int v1 = 1;']
        for _ in range(self.r.randrange(2, 7)):
            body += self.episode(1)
        body.append('    write(\'|\'); write(v0); write(\' \'); write(v1); write(\' \'); write(g); write(\' \');')
        body.append('    for (int z = 0; z < ga.length; z += 1) { write(ga[z]); write(\' \'); }')
        for a in self.arrs:
            body.append('    write(%s[0]); write(%s[1]);' % (a, a))
        before = ''.join(h for b, h in self.helpers if b)
        after = ''.join(h for b, h in self.helpers if not b)
        return PRELUDE + before + 'empty @is_you(%s) {\n' % params + '\n'.join(body) + '\n}\n' + after


def gen_history(seed, nargs=3):
    return H(random.Random(seed), nargs).program()


def hist_args(rng, nargs):
    return tuple(str(rng.choice([0, 1, 2, 3, 4, -1])) for _ in range(nargs))


if __name__ == '__main__':
    import sys
    print(gen_history(int(sys.argv[1]) if len(sys.argv) > 1 else 0))


# directed time-travel corpus (run by C02, C03, C15 on top of the random histories): each takes
# two small ints; both outcomes of every defeat condition are covered by the argument grid
DIRECTED_TT = [
    'empty !dd(int c) { int[] loc = [c, c]; !truth_is_defeat(c > 1); write(loc[0]); }\nint @inner(int c) { try { !dd(c); write("i"); } stop { write("I"); } return c + 1; }\n'
    'empty @is_you(int a, int b) { int x = 7; try { !dd(a); write("1"); } stop { write("A"); } x = @inner(b); try { write(x); !dd(b); write("2"); } stop { write("B"); write(x); } x = @inner(a); try { !dd(a + b); write("3"); } stop { write("C"); write(x); } write(x); }\n',
    'int twice(int v) { return v + v; }\nint @r(int c, int y) { return c ?? (y + 1); }\nempty @is_you(int a, int b) { int r = a ?? (b + 1); write(r); write(\' \'); write(a ?? (b + 1)); write(\' \'); write(twice(a) ?? (b + 1)); write(\' \'); write(a ?? b); write(\' \'); bool t = (a > 1) ?? (b > a); write(t); byte c = (a is byte) ?? ((b + 1) is byte); write(c is int); write(@r(a, b)); if ((a > 0) ?? (b + 1 > 2)) { write("y"); } }\n',
    'empty !inner(int c) { !truth_is_defeat(c > 1); write("i"); }\nint !val(int c) { !inner(c); return c + 1; }\nint @pick(int c) { try { return !val(c); } stop { write("s"); } return 0 - 1; }\nint @pick2(int c) { for (int i = 0; i < 2; i += 1) { try { if (i == 1) { return !val(c) + i; } write(i); } stop { write("S"); } } return 7; }\nempty @is_you(int a, int b) { write(@pick(a)); write(@pick(b)); write(@pick2(a)); write(@pick2(b)); }\n',
    'int g = 13;\nbool gb = true;\nint f(int v) { g += v; return g; }\nempty @is_you(int a, int b) { g = (g + a) ?? b; write(g); write(\' \'); g = f(a) ?? (g + b); write(g); write(\' \'); gb = (g > 14) ?? gb; write(gb); g = (g * 2) ?? (g + g); write(g); }\n',
    'empty !pd(int c) { preempt { write("D"); } !truth_is_defeat(c > 1); write("e"); }\n'
    'empty @is_you(int a, int b) { try { write("<"); !pd(a); write(">"); } stop { write("S"); } try { !pd(b); write("k"); } undo { write("U"); } write("."); }\n',
    'int g = 0;\nempty !pr(int n, int c) { if (n > 0) { preempt { write("^"); g += 1; } !pr(n - 1, c); write(n); } else { !truth_is_defeat(c > g); } }\n'
    'empty @is_you(int a, int b) { try { !pr(a, b); write("ok"); } stop { write("S"); write(g); } try { !pr(b, a); write("ok2"); } undo { write("U"); write(g); } }\n',
    'empty @is_you(int a, int b) { for (int i = 0; i < 3; i += 1) { try { for (int j = 0; j < 3; j += 1) { if (j == a) { break; } if (j == b) { continue; } write(j); } !truth_is_defeat(i == b); write("t"); } stop { write("S"); } } write("."); }\n',
    'empty @is_you(int a, int b) { int x = a; try { preempt { x = 5; write("p"); } preempt { x += 1; write("q"); } !truth_is_defeat(x < b); write(x); } undo { write("U"); } try { preempt { x = 9; } !truth_is_defeat(x < b + 4); write(x); } stop { write("S"); write(x); } }\n',
    'int f(int v) { write("f"); return v; }\nempty @is_you(int a, int b) { int r = f(a) ?? b; write(r); bool t = (f(a) > 1) ?? (b > 1); write(t); r = (f(a) + 1) ?? (b + 1); write(r); }\n',
    'empty !w(int c) { while (c > 0) { c -= 1; preempt { write("w"); return; } } !is_defeat(); }\n'
    'empty @is_you(int a, int b) { try { !w(a); write("r"); !truth_is_defeat(b > 1); write("k"); } undo { write("U"); } try { !w(b); write("r2"); } stop { write("S"); } }\n',
    'empty !inner(int c) { !truth_is_defeat(c > 2); write("i"); }\nint !val(int c) { !inner(c); return c + 1; }\n'
    'int @pick(int c) { try { int y = !val(c); return y; } undo { write("u"); } return 0 - 1; }\nempty @is_you(int a, int b) { write(@pick(a)); write(@pick(b)); }\n',
    # function-generation order: a defeat function first mentioned from a try/undo (or from another defeat function) and only
    # later called under a try/stop that lives in a different you-function, declared before or after
    'empty !check(int x) { !truth_is_defeat(x == 2); write("c"); write(x); }\nempty @guarded(int x) { try { !check(x); } stop { write("S"); write(x); } }\n'
    'empty @is_you(int a, int b) { try { !check(a); } undo { write("U"); } @guarded(b); @guarded(a); write("."); }\n',
    'empty !leaf(int x) { !truth_is_defeat(x > 1); write("l"); }\nempty !mid(int x) { write("m"); !leaf(x); }\n'
    'empty @is_you(int a, int b) { try { !mid(a); write("1"); } undo { write("U"); } @late(b); @late(a); @later(a + b); }\n'
    'empty @late(int x) { try { !leaf(x); write("2"); } stop { write("S"); } write(","); }\nint @later(int x) { try { !mid(x); return 1; } stop { write("T"); } return 0; }\n',
    'int !v(int x) { if (x > 2) { !is_defeat(); } return x + 1; }\nint @a1(int x) { try { return !v(x); } undo { write("u"); } return 0 - 1; }\n'
    'int @a2(int x) { try { return !v(x) * 2; } stop { write("s"); } return 0 - 2; }\nempty @is_you(int a, int b) { write(@a1(a)); write(@a1(b + 1)); write(@a2(a)); write(@a2(b + 1)); write(@a1(a + b)); }\n',
    # the only defeat source of a try body is a defeat call inside an if / while / for condition (or a for continuation); the handler leaves differently
    'bool !small(int n) { !truth_is_defeat(n > 2); return n < 2; }\nint @cls(int n) { try { if (!small(n)) { return 1; } return 2; } stop { write("big"); } return 3; }\n'
    'int @cls2(int n) { try { while (!small(n)) { return 4; } return 5; } undo { write("u"); } return 6; }\nint @cls3(int n) { for (int i = 0; i < 3; i += 1) { try { for (int j = n; !small(j); j += 1) { return 7; } return 8; } stop { write("s"); } write(i); } return 9; }\n'
    'int @cls4(int n) { while (true) { try { if (!small(n)) { return 10; } return 11; } stop { break; } } write("after"); return 12; }\n'
    'empty @is_you(int a, int b) { write(@cls(a)); write(@cls(b)); write(@cls2(a)); write(@cls2(b)); write(@cls3(a)); write(@cls3(b)); write(@cls4(a)); write(@cls4(b)); write("."); }\n',
]


def directed_units(ws, stack=300, unchecked=False):
    from diffrun import Cfg
    units = []
    for src in DIRECTED_TT:
        cfgs = [Cfg((str(a), str(b)), w, stack, unchecked) for a in (0, 1, 2, 3) for b in (0, 2, 3) for w in ws]
        units.append((src, cfgs))
    return units
