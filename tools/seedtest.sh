#!/bin/bash
# tools/seedtest.sh <Cxx> <worktree> [more check ids...] : run checks against a (mutated) copy of the repository
pid=$1; wt=$2; shift 2
for c in $pid "$@"; do
  HIDC_REPO=$wt ./check $c 2>&1 | grep -v "^KNOWN-FINDING" | tail -2
done
git -C /verif checkout -q -- evidence coq/Gen 2>/dev/null
