"""Correspondence for the `types` component: the executable models coq/HiD/Types.v + Fold.v
(extracted, ocaml/hidtypes) against hidc's typechecker (`evaluate`, `cast`, `coercible`,
`coerce`) on the same inputs.  Compared: accept/reject, the error class (with the types it
names) and the checked tree (casts inserted, literals folded with their flags, overload bound,
exit modes).

    python tools/corr_types.py --tier quick --seed 0
"""
import argparse
import collections
import itertools
import json
import os
import random
import subprocess
import sys
import time

sys.path.insert(0, os.path.dirname(os.path.abspath(__file__)))
from common import VERIF, REPO, sha, write_if_changed  # noqa: E402

if REPO not in sys.path:
    sys.path.insert(0, REPO)
import treeser  # noqa: E402
from treeser import sx, canon  # noqa: E402

COQ = os.path.join(VERIF, 'coq')
OCAML = os.path.join(VERIF, 'ocaml')
BIN = os.path.join(OCAML, 'hidtypes')
COQ_FILES = ['Gen/GenTypes.v', 'HiD/Fold.v', 'HiD/Types.v', 'Extract/ExtractTypes.v']

DT = ['int', 'bool', 'byte', 'string', 'empty']
ALL_TYPES = DT + [('arr', d) for d in DT] + [('carr', d) for d in DT]
GRID = [0, 1, -1, 127, 128, 255, 256, 32767, 32768, 40000, 65535, 65536, -32768, -32769]
ARITH2 = ['Add', 'Sub', 'Mul', 'Div', 'Mod']
CMP = ['Lt', 'Gt', 'Le', 'Ge', 'Eq', 'Ne']
LOGIC2 = ['And', 'Or']


# ------------------------------------------------------------------------------------------
# the model binary

def ensure_model(force=False):
    """regenerate Gen/GenTypes.v from the repository and rebuild the extracted driver when any
    input is newer than the binary"""
    import regen_types
    changed = False
    for rel, text in regen_types.generate(REPO).items():
        changed |= write_if_changed(os.path.join(VERIF, rel), text)
    srcs = [os.path.join(COQ, f) for f in COQ_FILES] + [os.path.join(OCAML, 'hidtypes.ml')]
    if not force and not changed and os.path.exists(BIN) and \
            all(os.path.getmtime(BIN) >= os.path.getmtime(s) for s in srcs):
        return
    for f in COQ_FILES:
        p = subprocess.run(['timeout', '600', 'coqc', '-Q', '.', 'HidV', f], cwd=COQ,
                           stdout=subprocess.PIPE, stderr=subprocess.STDOUT)
        if p.returncode != 0:
            raise RuntimeError('coqc %s failed:\n%s' % (f, p.stdout.decode()[-2000:]))
    p = subprocess.run(['timeout', '300', 'ocamlfind', 'ocamlopt', '-w', '-a', 'hidtypes_core.mli',
                        'hidtypes_core.ml', 'hidtypes.ml', '-o', 'hidtypes'], cwd=OCAML,
                       stdout=subprocess.PIPE, stderr=subprocess.STDOUT)
    if p.returncode != 0:
        raise RuntimeError('ocaml build failed:\n%s' % p.stdout.decode()[-2000:])


def run_model(cmds):
    if not cmds:
        return []
    data = ('\n'.join(cmds) + '\n').encode()
    p = subprocess.run(['bash', '-c', 'ulimit -s unlimited 2>/dev/null; exec "%s"' % BIN], input=data,
                       stdout=subprocess.PIPE, stderr=subprocess.PIPE, timeout=900)
    out = p.stdout.decode().splitlines()
    if p.returncode != 0 or len(out) != len(cmds):
        raise RuntimeError('hidtypes failed rc=%s %d/%d: %s' % (p.returncode, len(out), len(cmds), p.stderr.decode()[-500:]))
    return out


# ------------------------------------------------------------------------------------------
# implementation side

def _hidc():
    import hidc.ast as A
    from hidc.lexer import Span, Cursor
    from hidc.lexer.tokens import Ident, Flavor, DataType
    return A, Span, Cursor, Ident, Flavor, DataType


def mk_type(t):
    A, _, _, _, _, DataType = _hidc()
    if isinstance(t, tuple):
        return A.ArrayType(DataType(t[1]), const=(t[0] == 'carr'))
    return DataType(t)


def mk_ident(name):
    _, _, _, Ident, Flavor, _ = _hidc()
    if name[0] == '@':
        return Ident(name[1:], Flavor.YOU)
    if name[0] == '!':
        return Ident(name[1:], Flavor.DEFEAT)
    return Ident(name)


def mk_hidc(t):
    """checked-expression tuple (treeser TEXPR syntax) -> hidc object"""
    A, Span, Cursor, _, _, _ = _hidc()
    C = Cursor(0, 0)
    SP = Span(C, C)
    k = t[0]
    if k == 'IntValue':
        return A.IntValue(t[1], SP, t[2], t[3])
    if k == 'ByteValue':
        return A.ByteValue(t[1], SP, t[2], t[3])
    if k == 'BoolValue':
        return A.BoolValue(t[1], SP)
    if k == 'StringValue':
        return A.StringValue(b'' if t[1] == '-' else bytes.fromhex(t[1]), SP)
    if k == 'Parameter':
        return A.Parameter(A.Variable(t[1], mk_type(t[2]), t[3]), SP)
    if k == 'VariableLookup':
        return A.VariableLookup(A.Variable(t[1], mk_type(t[2]), t[3]), SP)
    if k == 'ArrayLiteral':
        return A.ArrayLiteral(tuple(mk_hidc(v) for v in t[3:]), SP, mk_type(t[1]), t[2])
    if k == 'ArrayLookup':
        return A.ArrayLookup(mk_hidc(t[1]), mk_hidc(t[2]), C)
    if k == 'LengthLookup':
        return A.LengthLookup(mk_hidc(t[1]), C)
    if k == 'FuncCall':
        return A.FuncCall(mk_ident(t[1]), tuple(mk_hidc(a) for a in t[4:]), SP, mk_type(t[3]))
    if k in treeser.CASTS:
        return getattr(A, k)(mk_hidc(t[1]))
    if k == 'Volatile':
        return A.Volatile(mk_hidc(t[1]))
    if k == 'Speculation':
        return A.Speculation(SP, mk_hidc(t[1]), mk_hidc(t[2]))
    if k in ('Add', 'Sub', 'Mul', 'Div', 'Mod'):
        return getattr(A, k)(SP, mk_hidc(t[2]), mk_hidc(t[3]), shrinkable=t[1])
    if k in ('Pos', 'Neg'):
        return getattr(A, k)(SP, mk_hidc(t[2]), shrinkable=t[1])
    if k in CMP + LOGIC2:
        return getattr(A, k)(SP, mk_hidc(t[1]), mk_hidc(t[2]))
    if k == 'Not':
        return A.Not(SP, mk_hidc(t[1]))
    if k == 'ArrayInitializer':
        return A.ArrayInitializer(mk_type(t[1]), mk_hidc(t[2]))
    raise ValueError(k)


def impl_api(kind, te, ty):
    obj = mk_hidc(te)
    try:
        if kind == 'coercible':
            return treeser.B(bool(obj.coercible(mk_type(ty))))
        r = getattr(obj, kind)(mk_type(ty))
        return treeser.ser_expr(r)
    except Exception as e:  # noqa: BLE001
        return treeser.ser_error(e)


# ------------------------------------------------------------------------------------------
# tier (i): cast / coercible / coerce on every type pair x expression class (direct API)

def class_reps():
    """representative checked expressions of every node class, (label, tuple)"""
    reps = []
    for t in ALL_TYPES:
        tn = sx(t).replace(' ', '_')
        const = isinstance(t, tuple)
        reps.append(('plain:Parameter:' + tn, ('Parameter', 'p', t, const)))
        reps.append(('plain:VariableLookup:' + tn, ('VariableLookup', 'v', t, const)))
        reps.append(('plain:FuncCall:' + tn, ('FuncCall', 'f', ('sig',), t)))
        if isinstance(t, tuple) and t[0] == 'arr':
            reps.append(('volatile:' + tn, ('Volatile', ('Parameter', 'p', t, True))))
    I = ('Parameter', 'i', 'int', False)
    Bt = ('Parameter', 'b', 'byte', False)
    L = ('Parameter', 'l', 'bool', False)
    S = ('Parameter', 's', 'string', False)
    AI = ('Parameter', 'a', ('arr', 'int'), True)
    for d in (0, 5, 255, 256, 300, -1):
        for shr in (True, False):
            for ic in (True, False):
                reps.append(('intlit', ('IntValue', d, shr, ic)))
                reps.append(('bytelit', ('ByteValue', d, shr, ic)))
    reps += [('boollit', ('BoolValue', True)), ('boollit', ('BoolValue', False)),
             ('strlit', ('StringValue', '-')), ('strlit', ('StringValue', '6162'))]
    lits = {'i1': ('IntValue', 1, True, False), 'n1': ('IntValue', 1, False, False),
            'c': ('ByteValue', 97, True, True), 't': ('BoolValue', True), 's': ('StringValue', '61'),
            'I': I, 'B': Bt, 'L': L, 'S': S, 'E': ('FuncCall', 'e', ('sig',), 'empty')}
    elts = {'i1': 'int', 'n1': 'int', 'c': 'byte', 't': 'bool', 's': 'string', 'I': 'int', 'B': 'byte',
            'L': 'bool', 'S': 'string', 'E': 'empty'}
    combos = [[]] + [[k] for k in lits] + [['i1', 'c'], ['c', 'i1'], ['i1', 'B'], ['B', 'i1'], ['I', 'B'],
                                            ['n1', 'c'], ['B', 'c'], ['i1', 'i1', 'I']]
    for cb in combos:
        vals = tuple(lits[k] for k in cb)
        # the preferred type computed as ArrayLiteral.evaluate does is checked at program level;
        # here every element type of the combination is tried as the literal's own type
        for el in sorted({elts[k] for k in cb} | ({'empty'} if not cb else set())):
            reps.append(('arrlit', ('ArrayLiteral', ('carr', el), False) + vals))
    for el in DT:
        for c in ('arr', 'carr'):
            reps.append(('arrlit-locked', ('ArrayLiteral', (c, el), True)))
    reps += [('arrlit-locked', ('ArrayLiteral', ('carr', 'int'), True, lits['n1'])),
             ('arrlit-locked', ('ArrayLiteral', ('arr', 'byte'), True, lits['c'])),
             ('arrlit-locked', ('ArrayLiteral', ('arr', 'int'), True, I, I))]
    for op in ARITH2:
        for shr in (True, False):
            reps.append(('arith', (op, shr, I, ('ByteToInt', Bt))))
    for op in ('Pos', 'Neg'):
        for shr in (True, False):
            reps.append(('arith', (op, shr, ('ByteToInt', Bt))))
    for op in CMP:
        reps.append(('boolop', (op, I, I)))
    reps += [('boolop', ('And', L, L)), ('boolop', ('Or', L, L)), ('boolop', ('Not', L))]
    reps += [('cast', ('ByteToInt', Bt)), ('cast', ('IntToByte', I)), ('cast', ('IntToBool', I)),
             ('cast', ('BoolToByte', L)), ('cast', ('StringToByteArray', S))]
    reps += [('lookup', ('ArrayLookup', AI, I)), ('lookup', ('ArrayLookup', S, I)), ('lookup', ('LengthLookup', S)),
             ('lookup', ('LengthLookup', AI)),
             ('lookup', ('ArrayLookup', ('Parameter', 'k', ('carr', 'string'), True), I)),
             ('spec', ('Speculation', I, I)), ('spec', ('Speculation', Bt, Bt)), ('spec', ('Speculation', L, L)),
             ('arrinit', ('ArrayInitializer', ('arr', 'int'), I))]
    return reps


def tier_api(hist):
    reps = class_reps()
    cases = []
    for label, te in reps:
        for ty in ALL_TYPES:
            for kind in ('coercible', 'cast', 'coerce'):
                cases.append((label, kind, te, ty))
    outs = run_model([sx((k, te, ty)) for _, k, te, ty in cases])
    dis = []
    for (label, kind, te, ty), mo in zip(cases, outs):
        hist['api:' + label.split(':')[0] + ':' + kind] += 1
        io = impl_api(kind, te, ty)
        if canon(mo) != canon(io):
            dis.append({'input': sx((kind, te, ty)), 'model': mo, 'impl': io, 'category': 'api'})
    return len(cases), dis, [sx((k, te, ty)) for _, k, te, ty in cases[:3]]


# ------------------------------------------------------------------------------------------
# program-level comparison

class Runner:
    def __init__(self):
        self.cache = {}
        self.evals = 0
        self.unparsable = 0
        self.spec_dis = {}
        self.distinct = set()

    def spec_check(self, p, src, io, wt):
        """hidc against the documented rules (Types.wt_program): reported, never a failure of
        the correspondence.  Control-flow rejections belong to C16."""
        oc = outcome_class(io)
        if oc in ('MissingReturnStatement', 'Unreachable', 'Unparsable', 'Impl', 'Crash'):
            return
        accepted = oc == 'accept'
        if accepted != (wt == 'T'):
            kind = 'accepted-but-breaks-rules' if accepted else 'rejected-but-follows-rules:' + oc
            self.spec_dis.setdefault(kind, []).append((src, p))

    def spec_summary(self, per_kind=25):
        """shrink a sample of the rule disagreements and group them by minimal program"""
        out = {}
        for kind, items in sorted(self.spec_dis.items()):
            groups = collections.Counter()
            for src, p in sorted(items, key=lambda x: len(x[0]))[:per_kind]:
                q = shrink_program(p, self, budget=250, disagrees=spec_disagrees)
                groups[treeser.program_src(q)] += 1
            out[kind] = {'count': len(items), 'minimal': dict(groups.most_common())}
        return out

    def impl(self, prog):
        src = treeser.program_src(prog)
        try:
            return treeser.check_source(src, **({'unreachable_error': True} if prog[1] else {})), src
        except RecursionError:
            return '(Impl RecursionError)', src
        except Exception as e:  # lexer/parser error: generator bug, not a result
            self.unparsable += 1
            return '(Unparsable %s)' % type(e).__name__, src

    def compare(self, progs, category, hist, dis, shrink=True):
        """progs: list of generator program tuples"""
        cmds = [treeser.program_model(p) for p in progs]
        outs = run_model(cmds)
        wts = run_model(['(wt' + c[len('(elab'):] for c in cmds])
        for p, cmd, mo, wt in zip(progs, cmds, outs, wts):
            self.evals += 1
            io, src = self.impl(p)
            self.spec_check(p, src, io, wt)
            hist['outcome:' + outcome_class(io)] += 1
            if not io.startswith(('(Unparsable', '(Impl')):
                self.distinct.add(sha(cmd))
            if io.startswith('(Unparsable'):
                dis.append({'input': src, 'model': mo, 'impl': io, 'category': category + ':unparsable'})
                continue
            if canon(mo) != canon(io):
                q = shrink_program(p, self) if shrink else p
                mo2 = run_model([treeser.program_model(q)])[0]
                io2, src2 = self.impl(q)
                dis.append({'input': src2, 'model_input': treeser.program_model(q), 'model': mo2, 'impl': io2,
                            'category': category})


def outcome_class(s):
    if s.startswith('(Error '):
        return s[1:-1].split(' ')[1]
    if s.startswith('(Program'):
        return 'accept'
    return s[1:].split(' ')[0]


def disagrees(p, runner):
    try:
        mo = run_model([treeser.program_model(p)])[0]
    except Exception:  # noqa: BLE001
        return False
    io, _ = runner.impl(p)
    if io.startswith('(Unparsable') or io.startswith('(Impl'):
        return False
    return canon(mo) != canon(io)


EXPR_HEADS = {'Int', 'Char', 'Bool', 'Str', 'Var', 'Arr', 'Index', 'Len', 'Call', 'Un', 'Bin', 'Is', 'Spec'}
STMT_HEADS = {'Decl', 'Assign', 'IncAssign', 'Return', 'Break', 'Continue', 'Expr', 'Block', 'If', 'While',
              'For', 'Try', 'Preempt'}


def _variants(t):
    """smaller trees obtained by one local change (generic over the tuple syntax)"""
    if not isinstance(t, tuple) or not t:
        return
    head = t[0]
    # delete one element of a list-like node
    if head in ('vars', 'funcs', 'Block', 'Arr'):
        for i in range(1, len(t)):
            yield t[:i] + t[i + 1:]
    if head == 'Func':
        for i in range(4, len(t)):
            yield t[:i] + t[i + 1:]
    if head == 'Call':
        for i in range(2, len(t)):
            yield t[:i] + t[i + 1:]
    # replace an expression by a sub-expression or a literal
    if head in EXPR_HEADS:
        for c in t[1:]:
            if isinstance(c, tuple) and c and c[0] in EXPR_HEADS:
                yield c
        if head not in ('Int', 'Bool'):
            yield ('Int', 0)
    if head in STMT_HEADS:
        for c in t[1:]:
            if isinstance(c, tuple) and c and c[0] in STMT_HEADS:
                yield c
    # recurse
    for i, c in enumerate(t):
        if isinstance(c, tuple):
            for v in _variants(c):
                yield t[:i] + (v,) + t[i + 1:]


def spec_disagrees(p, runner):
    """hidc accepts/rejects differently from the documented rules (Types.wt_program)"""
    try:
        wt = run_model(['(wt' + treeser.program_model(p)[len('(elab'):]])[0]
    except Exception:  # noqa: BLE001
        return False
    io, _ = runner.impl(p)
    oc = outcome_class(io)
    if oc in ('MissingReturnStatement', 'Unreachable', 'Unparsable', 'Impl', 'Crash'):
        return False
    return (oc == 'accept') != (wt == 'T')


def shrink_program(p, runner, budget=400, disagrees=None):
    disagrees = disagrees or globals()['disagrees']
    cur = p
    improved = True
    while improved and budget > 0:
        improved = False
        for cand in _variants(cur):
            budget -= 1
            if budget <= 0:
                break
            try:
                if disagrees(cand, runner):
                    cur = cand
                    improved = True
                    break
            except Exception:  # noqa: BLE001
                continue
    return cur


# ------------------------------------------------------------------------------------------
# program templates

SCALARS = ['int', 'byte', 'bool', 'string']
ARRS = [(c, d) for d in SCALARS for c in ('arr', 'carr')]
VALUE_TYPES = SCALARS + ARRS


def tn(t):
    return (t[0][0] + '_' + t[1]) if isinstance(t, tuple) else t


HELPERS = tuple(
    [('Func', 'empty', 'e', ('params',))]
    + [('Func', d, 'r_' + d, ('params',), ('Return', {'int': ('Var', 'gi'), 'byte': ('Var', 'gb'),
                                                        'bool': ('Var', 'gl'), 'string': ('Var', 'gs')}[d]))
       for d in SCALARS]
    + [('Func', 'empty', 'g_' + tn(t), ('params', ('x', t, isinstance(t, tuple)))) for t in VALUE_TYPES])

GLOBALS = (
    ('Decl', 'gi', 'int', False, ('Int', 7)), ('Decl', 'gb', 'byte', False, ('Char', 98)),
    ('Decl', 'gl', 'bool', False, ('Bool', True)), ('Decl', 'gs', 'string', False, ('Str', '6768')),
    ('Decl', 'kgi', 'int', True, ('Int', 9)),
)

# parameters of the test function: one non-const value of every type
PARAMS = tuple(('p' + tn(t), t, isinstance(t, tuple)) for t in VALUE_TYPES)
# locals: const scalars with non-literal initialisers (stay variables), const scalars with literal
# initialisers (substituted), mutable locals
LOCALS = (
    ('Decl', 'cvi', 'int', True, ('Var', 'pint')), ('Decl', 'cvb', 'byte', True, ('Var', 'pbyte')),
    ('Decl', 'cvl', 'bool', True, ('Var', 'pbool')), ('Decl', 'cvs', 'string', True, ('Var', 'pstring')),
    ('Decl', 'ki', 'int', True, ('Int', 5)), ('Decl', 'kb', 'byte', True, ('Int', 6)),
    ('Decl', 'kl', 'bool', True, ('Bool', False)), ('Decl', 'ks', 'string', True, ('Str', '6b')),
    ('Decl', 'kbig', 'int', True, ('Int', 300)),
    ('Decl', 'vi', 'int', False, ('Int', 1)), ('Decl', 'vb', 'byte', False, ('Int', 2)),
    ('Decl', 'vl', 'bool', False, ('Bool', True)), ('Decl', 'vs', 'string', False, ('Str', '76')),
)


def source_catalogue():
    """(label, expression) : one entry per interesting typing situation"""
    V = lambda n: ('Var', n)  # noqa: E731
    cat = [
        ('lit:int', ('Int', 5)), ('lit:int300', ('Int', 300)), ('lit:char', ('Char', 97)),
        ('lit:bool', ('Bool', True)), ('lit:str', ('Str', '6869')), ('lit:str0', ('Str', '-')),
        ('lit:neg', ('Un', 'Neg', ('Int', 1))),
    ]
    for t in VALUE_TYPES:
        cat.append(('var:' + tn(t), V('p' + tn(t))))
    cat += [('constvar:int', V('cvi')), ('constvar:byte', V('cvb')), ('constvar:bool', V('cvl')),
            ('constvar:string', V('cvs')),
            ('subst:int', V('ki')), ('subst:byte', V('kb')), ('subst:bool', V('kl')), ('subst:string', V('ks')),
            ('subst:int300', V('kbig')), ('subst:global', V('kgi')), ('global:int', V('gi')),
            ('undeclared', V('nope'))]
    cat += [('arrlit:empty', ('Arr',)), ('arrlit:int', ('Arr', ('Int', 1), ('Int', 2))),
            ('arrlit:char', ('Arr', ('Char', 97))), ('arrlit:mixed', ('Arr', ('Int', 1), ('Char', 97))),
            ('arrlit:mixed2', ('Arr', ('Char', 97), ('Int', 1))),
            ('arrlit:bytevar', ('Arr', V('pbyte'), ('Int', 1))), ('arrlit:intvar', ('Arr', V('pint'), ('Char', 97))),
            ('arrlit:intbyte', ('Arr', V('pint'), V('pbyte'))), ('arrlit:str', ('Arr', V('pstring'), ('Str', '61'))),
            ('arrlit:bool', ('Arr', ('Bool', True))), ('arrlit:subst', ('Arr', V('ki'))),
            ('arrlit:emptycall', ('Arr', ('Call', 'e'))), ('arrlit:nested', ('Arr', ('Arr', ('Int', 1)))),
            ('arrlit:nestedvar', ('Arr', V('pa_int'))), ('arrlit:unresolvable', ('Arr', ('Int', 1), ('Bool', True))),
            ('arrlit:nested2', ('Arr', ('Int', 1), ('Arr', ('Int', 2))))]
    cat += [('call:' + d, ('Call', 'r_' + d)) for d in SCALARS] + [('call:empty', ('Call', 'e'))]
    cat += [('arith:byte+lit', ('Bin', 'Add', V('pbyte'), ('Int', 1))),
            ('arith:int+lit', ('Bin', 'Add', V('pint'), ('Int', 1))),
            ('arith:lit+lit', ('Bin', 'Add', ('Int', 1), ('Int', 1))),
            ('arith:byte*byte', ('Bin', 'Mul', V('pbyte'), V('cvb'))),
            ('arith:negbyte', ('Un', 'Neg', V('pbyte'))), ('arith:negint', ('Un', 'Neg', V('pint'))),
            ('arith:big', ('Bin', 'Add', ('Int', 128), ('Int', 128))),
            ('arith:subst+lit', ('Bin', 'Add', V('ki'), ('Int', 1))),
            ('arith:substbyte+lit', ('Bin', 'Add', V('kb'), ('Int', 1))),
            ('arith:nested', ('Bin', 'Add', ('Bin', 'Mul', V('pbyte'), ('Int', 3)), ('Bin', 'Mul', V('pint'), ('Int', 5)))),
            ('arith:div0', ('Bin', 'Div', ('Int', 1), ('Int', 0))), ('arith:mod0', ('Bin', 'Mod', V('ki'), ('Int', 0))),
            ('arith:divvar0', ('Bin', 'Div', V('pint'), ('Int', 0))),
            ('arith:bool', ('Bin', 'Add', V('pbool'), ('Int', 1))), ('arith:str', ('Bin', 'Add', V('pstring'), ('Int', 1)))]
    cat += [('cmp:lit', ('Bin', 'Lt', ('Int', 1), ('Int', 2))), ('cmp:var', ('Bin', 'Le', V('pint'), V('pbyte'))),
            ('cmp:bool', ('Bin', 'Lt', V('pbool'), ('Int', 1))),
            ('eq:bools', ('Bin', 'Eq', V('pbool'), ('Bool', True))), ('eq:boollits', ('Bin', 'Ne', ('Bool', True), ('Bool', False))),
            ('eq:ints', ('Bin', 'Eq', V('pint'), V('pbyte'))), ('eq:mixed', ('Bin', 'Eq', V('pbool'), ('Int', 1))),
            ('eq:strs', ('Bin', 'Eq', V('pstring'), V('pstring'))),
            ('logic:vars', ('Bin', 'And', V('pbool'), V('pint'))), ('logic:lits', ('Bin', 'Or', ('Bool', False), ('Int', 3))),
            ('logic:strarr', ('Bin', 'And', V('pstring'), V('pa_int'))), ('logic:not', ('Un', 'Not', V('pstring'))),
            ('logic:notlit', ('Un', 'Not', ('Str', '-'))), ('logic:empty', ('Un', 'Not', ('Call', 'e')))]
    for t in SCALARS + [('carr', d) for d in SCALARS]:
        for lbl, e in (('int', V('pint')), ('byte', V('pbyte')), ('bool', V('pbool')), ('string', V('pstring')),
                       ('a_int', V('pa_int')), ('c_byte', V('pc_byte')), ('a_byte', V('pa_byte')),
                       ('lit', ('Int', 300)), ('char', ('Char', 97)), ('true', ('Bool', True)),
                       ('strlit', ('Str', '6162')), ('arrlit', ('Arr', ('Int', 1), ('Char', 97))),
                       ('emptyarr', ('Arr',)), ('call_empty', ('Call', 'e'))):
            cat.append(('is:%s->%s' % (lbl, tn(t)), ('Is', e, t)))
    cat += [('is:hetero-lit', ('Is', ('Arr', ('Int', 2), V('pstring')), ('carr', 'bool'))),
            ('is:hetero-lit2', ('Is', ('Arr', V('pbool'), ('Int', 2)), ('carr', 'byte'))),
            ('is:boolfold', ('Is', ('Bin', 'Lt', ('Int', 1), ('Int', 2)), 'int')),
            ('is:boolsubst', ('Is', V('kl'), 'int')),
            ('is:chain', ('Is', ('Is', ('Int', 300), 'byte'), 'int')),
            ('is:chain2', ('Is', ('Is', ('Int', 1), 'int'), 'byte')),
            ('is:volatile-index', ('Index', ('Is', V('pa_int'), ('carr', 'int')), ('Int', 0)))]
    cat += [('index:arr', ('Index', V('pa_int'), ('Int', 0))), ('index:carr', ('Index', V('pc_string'), V('pbyte'))),
            ('index:str', ('Index', V('pstring'), ('Int', 0))), ('index:lit', ('Index', ('Arr', ('Int', 1), ('Char', 2)), ('Int', 0))),
            ('index:emptylit', ('Index', ('Arr',), ('Int', 0))), ('index:int', ('Index', V('pint'), ('Int', 0))),
            ('index:badidx', ('Index', V('pa_int'), ('Str', '61'))), ('index:boolidx', ('Index', V('pa_int'), ('Bool', True))),
            ('index:strlit', ('Index', ('Str', '6162'), ('Int', 1))),
            ('len:arr', ('Len', V('pa_bool'))), ('len:str', ('Len', V('pstring'))), ('len:lit', ('Len', ('Arr', ('Int', 1)))),
            ('len:emptylit', ('Len', ('Arr',))), ('len:int', ('Len', V('pint'))), ('len:emptycalllit', ('Len', ('Arr', ('Call', 'e'))))]
    return cat


def _names(t, acc):
    if isinstance(t, (tuple, list)) and t:
        if t[0] == 'Var':
            acc.add(t[1])
        elif t[0] in ('Call', 'Decl'):
            acc.add(t[1])
        for c in t:
            _names(c, acc)
    return acc


def test_program(stmts, ret='empty', name='t', extra_funcs=(), unreach=False, locals_=LOCALS, params=PARAMS,
                 globals_=GLOBALS, helpers=HELPERS, prune=True, pos=None):
    """the test function `name` with the given statements; with prune, only the helpers, globals,
    parameters and locals that the statements mention (transitively) are kept"""
    if prune:
        used = _names(tuple(stmts), set()) | _names(tuple(extra_funcs), set())
        keep_locals = [d for d in locals_ if d[1] in used]
        used |= _names(tuple(keep_locals), set())
        keep_helpers = [h for h in helpers if h[2] in used]
        used |= _names(tuple(keep_helpers), set())
        params = [q for q in params if q[0] in used]
        globals_ = [g for g in globals_ if g[1] in used]
        locals_, helpers = keep_locals, keep_helpers
    f = ('Func', ret, name, ('params',) + tuple(params)) + tuple(locals_) + tuple(stmts)
    extra_funcs = tuple(extra_funcs)
    if pos is not None:   # the caller declared between (or before) the other functions
        return ('Program', unreach, ('vars',) + tuple(globals_), ('funcs',) + tuple(helpers) + extra_funcs[:pos] + (f,) + extra_funcs[pos:])
    return ('Program', unreach, ('vars',) + tuple(globals_), ('funcs',) + tuple(helpers) + extra_funcs + (f,))


def positions(src):
    """(position label, statements, kwargs for test_program)"""
    V = lambda n: ('Var', n)  # noqa: E731
    out = []
    for t in SCALARS:
        out.append(('decl:' + t, [('Decl', 'x', t, False, src)], {}))
        out.append(('constdecl:' + t, [('Decl', 'x', t, True, src), ('Decl', 'y', t, False, V('x'))], {}))
        out.append(('assign:' + t, [('Assign', V('v' + t[0] if t != 'bool' else 'vl'), src)], {}))
        out.append(('return:' + t, [('Return', src)], {'ret': t}))
        out.append(('elemassign:' + t, [('Assign', ('Index', V('pa_' + t), ('Int', 0)), src)], {}))
    for t in ARRS:
        out.append(('decl:' + tn(t), [('Decl', 'x', t, True, src)], {}))
    for t in VALUE_TYPES:
        out.append(('arg:' + tn(t), [('Expr', ('Call', 'g_' + tn(t), src))], {}))
    out.append(('arg:write', [('Expr', ('Call', 'write', src))], {}))
    out.append(('return:empty', [('Return', src)], {'ret': 'empty'}))
    for op in ARITH2:
        out.append(('incassign:int:' + op, [('IncAssign', op, V('vi'), src)], {}))
    out.append(('incassign:byte', [('IncAssign', 'Add', V('vb'), src)], {}))
    out.append(('incassign:bool', [('IncAssign', 'Add', V('vl'), src)], {}))
    out.append(('incassign:string', [('IncAssign', 'Add', V('vs'), src)], {}))
    out.append(('incassign:elem', [('IncAssign', 'Mul', ('Index', V('pa_byte'), ('Int', 0)), src)], {}))
    out.append(('incassign:strelem', [('IncAssign', 'Add', ('Index', V('vs'), ('Int', 0)), src)], {}))
    out.append(('elem:int[]', [('Decl', 'x', ('arr', 'int'), True, ('Arr', src, ('Int', 1)))], {}))
    out.append(('elem:byte[]', [('Decl', 'x', ('carr', 'byte'), True, ('Arr', ('Char', 97), src))], {}))
    out.append(('elem:stmt', [('Expr', ('Arr', src, src))], {}))
    out.append(('index', [('Expr', ('Index', V('pa_int'), src))], {}))
    out.append(('arrinit', [('Decl', 'x', ('arr', 'int'), True, ('ArrInit', ('arr', 'int'), src))], {}))
    out.append(('cond:if', [('If', src, ('Block',), None)], {}))
    out.append(('cond:while', [('While', src, ('Block', ('Break',)))], {}))
    out.append(('stmt', [('Expr', src)], {}))
    out.append(('operand:add', [('Expr', ('Bin', 'Add', src, ('Int', 1)))], {}))
    out.append(('operand:addr', [('Decl', 'x', 'byte', False, ('Bin', 'Sub', ('Int', 1), src))], {}))
    out.append(('operand:neg', [('Decl', 'x', 'byte', False, ('Un', 'Neg', src))], {}))
    out.append(('operand:lt', [('Expr', ('Bin', 'Lt', src, V('pint')))], {}))
    out.append(('operand:eq', [('Expr', ('Bin', 'Eq', src, src))], {}))
    out.append(('operand:and', [('Expr', ('Bin', 'And', src, V('pbool')))], {}))
    out.append(('operand:not', [('Expr', ('Un', 'Not', src))], {}))
    out.append(('operand:len', [('Expr', ('Len', src))], {}))
    out.append(('operand:index', [('Expr', ('Index', src, ('Int', 0)))], {}))
    out.append(('operand:spec', [('Decl', 'x', 'int', False, ('Spec', src, ('Int', 1)))], {'name': '@t'}))
    out.append(('operand:specr', [('Decl', 'x', 'byte', False, ('Spec', V('pbyte'), src))], {'name': '@t'}))
    return out


def tier_rules(runner, hist, dis, rng, sample=None):
    cat = source_catalogue()
    progs, labels = [], []
    for lbl, src in cat:
        for plbl, stmts, kw in positions(src):
            progs.append(test_program(stmts, **kw))
            labels.append((lbl, plbl))
    idx = list(range(len(progs)))
    if sample is not None and sample < len(idx):
        idx = sorted(rng.sample(idx, sample))
    for i in idx:
        hist['rule:' + labels[i][0].split(':')[0]] += 1
        hist['position:' + labels[i][1].split(':')[0]] += 1
    runner.compare([progs[i] for i in idx], 'rule-x-position', hist, dis)
    return len(idx), len(progs)


# ---- assignment / declaration / shadowing rules ------------------------------------------------

def tier_statements(runner, hist, dis):
    V = lambda n: ('Var', n)  # noqa: E731
    progs = []
    # assignment targets: every variable kind
    targets = ['pint', 'cvi', 'ki', 'gi', 'kgi', 'pa_int', 'pc_int', 'nope', 'vs', 'pstring']
    for tgt in targets:
        progs.append(test_program([('Assign', V(tgt), ('Int', 1))]))
        progs.append(test_program([('IncAssign', 'Add', V(tgt), ('Int', 1))]))
    for arr in ['pa_' + d for d in SCALARS] + ['pc_' + d for d in SCALARS] + ['pstring', 'vs', 'ks', 'cvs', 'gs', 'pint']:
        for rhs in (('Int', 1), ('Char', 99), ('Bool', True), ('Str', '61'), V('pint')):
            progs.append(test_program([('Assign', ('Index', V(arr), ('Int', 0)), rhs)]))
        progs.append(test_program([('IncAssign', 'Add', ('Index', V(arr), ('Int', 0)), ('Int', 1))]))
    progs.append(test_program([('Assign', ('Index', ('Is', V('pa_int'), ('carr', 'int')), ('Int', 0)), ('Int', 1))]))
    progs.append(test_program([('Assign', ('Index', ('Arr', ('Int', 1)), ('Int', 0)), ('Int', 1))]))
    # array initialisers
    for t in ARRS:
        for ln in (('Int', 3), V('pbyte'), V('pbool'), ('Str', '61'), ('Un', 'Neg', ('Int', 1))):
            progs.append(test_program([('Decl', 'x', t, True, ('ArrInit', ('arr', t[1]), ln))]))
    # const array binding
    for src_t in ARRS:
        for dst_t in ARRS:
            progs.append(test_program([('Decl', 'x', dst_t, True, V('p' + tn(src_t)))]))
            progs.append(test_program([('Decl', 'x', dst_t, True, ('Is', V('p' + tn(src_t)), ('carr', src_t[1])))]))
    # redeclaration / shadowing
    D = lambda n, v=1: ('Decl', n, 'int', False, ('Int', v))  # noqa: E731
    shadow = [
        [D('x'), D('x', 2)], [D('x'), ('Block', D('x', 2))], [D('x'), ('If', ('Bool', True), ('Block', D('x')), None)],
        [('Block', D('x')), D('x')], [('Block', D('x')), ('Block', D('x'))], [D('gi')], [D('gi'), D('gi')],
        [D('gi'), ('Block', D('gi'))], [('Block', D('gi')), D('gi')], [D('pint')], [('Block', D('pint'))],
        [('For', D('i', 0), ('Bin', 'Lt', V('i'), ('Int', 3)), ('IncAssign', 'Add', V('i'), ('Int', 1)), ('Block',)), D('i')],
        [D('i'), ('For', D('i', 0), None, None, ('Block', ('Break',)))],
        [('For', D('i', 0), None, None, ('Block', D('i'), ('Break',)))],
        [('While', ('Bool', True), ('Block', D('w'), ('Break',))), D('w')],
        [D('x'), ('Assign', V('x'), V('y')), D('y')], [('Decl', 'x', 'int', False, V('x'))],
        [('Decl', 'gi', 'int', False, V('gi'))], [('Decl', 'gi', 'byte', False, ('Int', 1)), ('Decl', 'z', 'byte', False, V('gi'))],
    ]
    for st in shadow:
        progs.append(test_program(st))
    # global scope
    gl = [
        (D('a'), D('a', 2)), (D('a'), ('Decl', 'b', 'int', False, V('a'))), (('Decl', 'b', 'int', False, V('a')), D('a')),
        (D('a'), ('Decl', 'b', 'byte', False, V('a'))), (('Decl', 'a', 'byte', False, ('Int', 7)), ('Decl', 'b', 'byte', False, V('a'))),
        (('Decl', 'a', ('arr', 'int'), True, ('Arr', ('Int', 1))), ('Decl', 'b', ('carr', 'int'), True, V('a'))),
        (('Decl', 'a', ('carr', 'int'), True, ('Arr', ('Int', 1))), ('Decl', 'b', ('carr', 'int'), True, V('a'))),
        (('Decl', 'a', ('carr', 'int'), True, ('Arr', ('Int', 1))), ('Decl', 'b', ('arr', 'int'), True, V('a'))),
        (('Decl', 'a', ('arr', 'int'), True, ('ArrInit', ('arr', 'int'), ('Int', 4))),),
        (('Decl', 'a', ('carr', 'int'), True, ('ArrInit', ('arr', 'int'), ('Int', 4))),),
        (('Decl', 'a', 'string', False, ('Str', '61')), ('Decl', 'b', ('carr', 'byte'), True, V('a'))),
        (('Decl', 'a', 'int', False, ('Bin', 'Add', ('Int', 1), ('Int', 2))), ('Decl', 'b', 'byte', False, ('Bin', 'Add', V('a'), ('Int', 1)))),
        (('Decl', 'a', 'bool', False, ('Bin', 'Lt', ('Int', 1), ('Int', 2))), ('Decl', 'b', 'int', False, ('Is', V('a'), 'int')),
         ('Decl', 'c', 'byte', False, V('b'))),
    ]
    for g in gl:
        body = [('Expr', ('Call', 'write', V(g[-1][1])))] if not isinstance(g[-1][2], tuple) else []
        progs.append(('Program', False, ('vars',) + tuple(g),
                      ('funcs', ('Func', 'empty', 'f', ('params',)) + tuple(body),
                       ('Func', 'empty', 'h', ('params', (g[0][1], 'int', False))))))
    # parameters
    for ps in ([('x', 'int', False), ('x', 'int', False)], [('x', 'int', False), ('x', 'byte', False)],
               [('gi', 'byte', False)], [('x', ('arr', 'int'), True), ('y', ('carr', 'int'), True)],
               [('x', 'int', True)]):
        progs.append(('Program', False, ('vars',) + GLOBALS,
                      ('funcs', ('Func', 'empty', 'f', ('params',) + tuple(ps), ('Block', ('Decl', 'x', 'int', False, ('Int', 1)))))))
        progs.append(('Program', False, ('vars',) + GLOBALS,
                      ('funcs', ('Func', 'empty', 'f', ('params',) + tuple(ps), ('Assign', V(ps[0][0]), ('Int', 1))))))
    # returns and exit modes
    R = lambda *a: ('Return',) + a  # noqa: E731
    bodies = [
        [], [R()], [R(('Int', 1))], [R(), ('Expr', ('Call', 'write', ('Bool', True)))],
        [R(('Int', 1)), ('Decl', 'bad', 'bool', False, ('Int', 1))],
        [('If', V('pbool'), ('Block', R(('Int', 1))), ('Block', R(('Int', 2))))],
        [('If', V('pbool'), ('Block', R(('Int', 1))), None)],
        [('While', ('Bool', True), ('Block',))], [('While', ('Int', 1), ('Block',))],
        [('While', ('Bool', True), ('Block', ('Break',)))], [('While', ('Bool', True), ('Block', R(('Int', 1))))],
        [('While', V('pbool'), ('Block', R(('Int', 1))))], [('For', None, None, None, ('Block',))],
        [('For', None, None, None, ('Block', ('Break',)))],
        [('While', ('Bool', True), ('Block', ('If', V('pbool'), ('Block', ('Break',)), None), R(('Int', 1))))],
        [('While', ('Bool', True), ('Block', ('Continue',), ('Decl', 'bad', 'bool', False, ('Int', 1))))],
        [('Expr', ('Call', 'all_is_win'))], [('Expr', ('Call', 'all_is_broken')), ('Decl', 'bad', 'bool', False, ('Int', 1))],
        [('Block', R(('Int', 1))), ('Expr', ('Call', 'e'))], [('If', ('Bool', True), ('Block', R(('Int', 1))), None)],
    ]
    for b in bodies:
        for ret in ('empty', 'int', 'byte'):
            for unreach in (False, True):
                progs.append(test_program(b, ret=ret, unreach=unreach))
    # try / undo / stop / preempt
    tries = [
        [('Try', ('Block', ('Expr', ('Call', '!is_defeat'))), 'U', ('Block', R(('Int', 5))))],
        [('Try', ('Block', ('Preempt', ('Block', ('Expr', ('Call', '!is_defeat')))), ('Expr', ('Call', '!is_defeat'))), 'U', ('Block', R(('Int', 5))))],
        [('Try', ('Block', ('Preempt', ('Block', ('Expr', ('Call', '!is_defeat'))))), 'U', ('Block', R(('Int', 5))))],
        [('Try', ('Block', ('Expr', ('Call', '!truth_is_defeat', V('pint')))), 'S', ('Block',)), R(('Int', 1))],
        [('Try', ('Block', R(('Int', 1))), 'S', ('Block', R(('Str', '61'))))],
        [('Try', ('Block', ('Expr', ('Call', '!d', V('pbyte'))), R(('Int', 1))), 'U', ('Block', R(V('pbyte'))))],
    ]
    for l_, r_ in ((('Int', 5), ('Int', 5)), (V('pbyte'), ('Int', 5)), (V('pint'), ('Int', 5)), (('Char', 1), ('Int', 300)),
                   (('Bool', True), ('Int', 1)), (V('pstring'), V('pstring')), (('Int', 1), ('Call', 'r_byte')),
                   (('Bin', 'Add', V('pbyte'), ('Int', 1)), ('Int', 5))):
        for t_ in ('byte', 'int', 'bool'):
            progs.append(test_program([('Decl', 'x', t_, False, ('Spec', l_, r_))], name='@t'))
    dfn = ('Func', 'empty', '!d', ('params', ('x', 'int', False)), ('Preempt', ('Block', ('Return',))), ('Expr', ('Call', '!is_defeat')))
    for b in tries:
        for ret in ('int', 'empty'):
            progs.append(test_program(b, ret=ret, name='@t', extra_funcs=(dfn,)))
    for p in progs:
        hist['statements'] += 1
    runner.compare(progs, 'statements', hist, dis)
    return len(progs)


# ---- overload resolution ------------------------------------------------------------------------

def tier_overloads(runner, hist, dis, rng, n_sets):
    V = lambda n: ('Var', n)  # noqa: E731
    args_cat = [('Int', 1), ('Int', 300), ('Char', 97), ('Bool', True), ('Str', '61'), ('Arr',), ('Arr', ('Int', 1)),
                ('Arr', ('Char', 97)), ('Arr', ('Int', 1), ('Char', 97)), ('Arr', V('pbyte'), ('Int', 1)),
                ('Arr', ('Str', '61')), ('Is', ('Arr', ('Char', 97)), ('carr', 'byte')),
                ('Is', ('Arr', ('Char', 97)), ('carr', 'int')), ('Is', V('pa_int'), ('carr', 'int')),
                ('Bin', 'Add', V('pbyte'), ('Int', 1)), ('Bin', 'Add', V('pint'), ('Int', 1)), V('ki'), V('kb'),
                ('Call', 'e'), ('Is', ('Int', 1), 'int'), ('Is', ('Bool', True), 'int')] + \
               [V('p' + tn(t)) for t in VALUE_TYPES]
    # array literals mixing element kinds in every order: the inferred element type depends on every element, not on the first of each type
    kinds = [V('pbyte'), ('Int', 0), V('pint'), ('Char', 98), ('Bin', 'Add', V('pbyte'), ('Int', 1)), ('Call', 'e'), ('Int', 300), V('kb'), V('ki')]
    mixed = [('Arr', a, b, c) for a in kinds[:5] for b in kinds[:6] for c in kinds]
    rng.shuffle(mixed)
    args_cat = args_cat + mixed[:12]
    progs = []
    for lit3 in mixed[:150]:
        progs.append(test_program([('Expr', ('Call', 'write', ('Index', lit3, ('Int', 1))))], name='!t'))
    # every builtin write/writeln overload with every argument
    for a in args_cat:
        for fn in ('write', 'writeln', 'sleep', '!truth_is_defeat', 'print', 'println'):
            progs.append(test_program([('Expr', ('Call', fn, a))], name='!t'))
    for fn in ('writeln', 'write', 'debug', 'nope', 'all_is_win', '@t', 'e'):
        progs.append(test_program([('Expr', ('Call', fn))], name='@t'))
        progs.append(test_program([('Expr', ('Call', fn, ('Int', 1), ('Int', 2)))], name='@t'))
    # user redefinitions of builtins and duplicate signatures
    for sig in ([('x', 'int', False)], [('x', 'byte', False)], [('x', ('carr', 'byte'), True)], [('x', ('arr', 'byte'), True)],
                [('x', ('carr', 'int'), True)], [], [('x', 'int', False), ('y', 'int', False)]):
        for nm in ('write', 'writeln', 'sleep', 'u'):
            f = ('Func', 'empty', nm, ('params',) + tuple(sig))
            call = ('Expr', ('Call', nm) + tuple(('Char', 97) for _ in sig))
            progs.append(('Program', False, ('vars',), ('funcs', f, ('Func', 'empty', 't', ('params',), call))))
            progs.append(('Program', False, ('vars',), ('funcs', f, f)))
    # random overload sets: 1-4 declarations, random order, distinct return types where possible
    for _ in range(n_sets):
        n = rng.randint(1, 4)
        arity = rng.choice([1, 1, 1, 2])
        sigs = []
        for _ in range(n):
            sigs.append(tuple(rng.choice(VALUE_TYPES) for _ in range(arity if rng.random() < 0.85 else rng.randint(0, 2))))
        if rng.random() < 0.8:
            sigs = list(dict.fromkeys(sigs))
        name = rng.choice(['ov', 'ov', 'write', 'writeln'])
        funcs = []
        for i, sg in enumerate(sigs):
            ret = SCALARS[i % 4]
            funcs.append(('Func', ret, name, ('params',) + tuple(('x%d' % j, t, isinstance(t, tuple)) for j, t in enumerate(sg)),
                          ('Return', {'int': ('Int', 1), 'byte': ('Char', 1), 'bool': ('Bool', True), 'string': ('Str', '-')}[ret])))
        stmts = []
        for _ in range(6):
            stmts.append(('Expr', ('Call', name) + tuple(rng.choice(args_cat) for _ in range(arity))))
        for st in stmts:
            progs.append(test_program([st], extra_funcs=tuple(funcs)))
        # declaration order must be the only thing that decides the fallback: the caller declared before / between the
        # overloads, and the same call made from inside each overload's own body
        for st in stmts[:3]:
            for pos in range(len(funcs)):
                progs.append(test_program([st], extra_funcs=tuple(funcs), pos=pos))
                hist['overload-caller-position'] += 1
            k = rng.randrange(len(funcs))
            inner = [fn[:4] + (st,) + fn[4:] if i == k else fn for i, fn in enumerate(funcs)]
            progs.append(test_program([st], extra_funcs=tuple(inner)))
            hist['overload-call-inside-overload'] += 1
        hist['overload-set:%d' % len(sigs)] += 1
    for p in progs:
        hist['overloads'] += 1
    runner.compare(progs, 'overloads', hist, dis)
    return len(progs)


# ---- constant folding ---------------------------------------------------------------------------

def lit(n):
    return ('Int', n) if n >= 0 else ('Un', 'Neg', ('Int', -n))


def fold_program(e, ty):
    return ('Program', False, ('vars',), ('funcs', ('Func', 'empty', 'f', ('params',), ('Decl', 'x', ty, False, e))))


def result_type(e):
    k = e[0]
    if k == 'Bin':
        return 'int' if e[1] in ARITH2 else 'bool'
    if k == 'Un':
        return 'bool' if e[1] == 'Not' else 'int'
    if k == 'Is':
        return e[2]
    if k == 'Bool':
        return 'bool'
    return 'int'


def rand_const_expr(rng, depth):
    if depth == 0 or rng.random() < 0.15:
        r = rng.random()
        if r < 0.8:
            return lit(rng.choice(GRID))
        if r < 0.9:
            return ('Char', rng.choice([0, 1, 97, 255]))
        return ('Bool', rng.random() < 0.5)
    r = rng.random()
    if r < 0.45:
        return ('Bin', rng.choice(ARITH2), rand_const_expr(rng, depth - 1), rand_const_expr(rng, depth - 1))
    if r < 0.6:
        return ('Bin', rng.choice(CMP), rand_const_expr(rng, depth - 1), rand_const_expr(rng, depth - 1))
    if r < 0.7:
        return ('Bin', rng.choice(LOGIC2), rand_const_expr(rng, depth - 1), rand_const_expr(rng, depth - 1))
    if r < 0.8:
        return ('Un', rng.choice(['Neg', 'Pos', 'Not']), rand_const_expr(rng, depth - 1))
    return ('Is', rand_const_expr(rng, depth - 1), rng.choice(['byte', 'int', 'bool', 'int', 'byte']))


def tier_fold(runner, hist, dis, rng, n_random, depth1_exhaustive=True):
    progs = []
    # depth 1: every operator on every pair of grid values (operands are literals or -literal)
    grid = GRID if depth1_exhaustive else rng.sample(GRID, 7)
    for a in grid:
        for op in ('Neg', 'Pos', 'Not'):
            e = ('Un', op, lit(a))
            progs.append(fold_program(e, result_type(e)))
            hist['fold:' + op] += 1
        for t in ('byte', 'int', 'bool'):
            progs.append(fold_program(('Is', lit(a), t), t))
            progs.append(fold_program(('Is', ('Is', lit(a), t), 'int'), 'int'))
            hist['fold:is'] += 2
        for b in grid:
            for op in ARITH2 + CMP + LOGIC2:
                e = ('Bin', op, lit(a), lit(b))
                progs.append(fold_program(e, result_type(e)))
                hist['fold:' + op] += 1
    n1 = len(progs)
    for _ in range(n_random):
        e = rand_const_expr(rng, rng.choice([2, 3, 3]))
        is_you = rng.random() < 0.08
        if is_you:   # ?? cannot nest (its operands are parsed outside the you context)
            e = ('Spec', e, rand_const_expr(rng, 2))
        p = fold_program(e, rng.choice(['int', 'byte', 'bool', result_type(e), result_type(e)]))
        if is_you:
            p = ('Program', False, ('vars',), ('funcs', ('Func', 'empty', '@f', ('params',)) + p[3][1][4:]))
        progs.append(p)
        hist['fold:random-depth<=3'] += 1
    runner.compare(progs, 'fold', hist, dis)
    # operator level, straight against Python's operator semantics via hidc's classes
    A = _hidc()[0]
    cases, cmds = [], []
    for a in GRID:
        for b in GRID:
            for op in ARITH2:
                cases.append((op, a, b)); cmds.append('(fold2 %s %d %d)' % (op, a, b))
            for op in CMP + LOGIC2:
                cases.append((op, a, b)); cmds.append('(foldb2 %s %d %d)' % (op, a, b))
    outs = run_model(cmds)
    from hidc.errors import TypeCheckError
    for (op, a, b), mo in zip(cases, outs):
        cls = getattr(A, op)
        try:
            inst = cls(_hidc()[1](_hidc()[2](0, 0), _hidc()[2](0, 0)), None, None)
            v = cls.operate(inst, a, b) if op in ('Div', 'Mod') else cls.operate(a, b)
            io = '(val %s)' % (int(v) if op in ARITH2 else treeser.B(bool(v)))
        except TypeCheckError as ex:
            io = '(err %s)' % str(ex).replace(' ', '_')
        except Exception:  # noqa: BLE001
            io = '(crash)'
        hist['foldop:' + op] += 1
        if mo != io:
            dis.append({'input': '%s %d %d' % (op, a, b), 'model': mo, 'impl': io, 'category': 'fold-operator'})
    return len(progs) + len(cases), n1


# ---- random programs ----------------------------------------------------------------------------

class Gen:
    def __init__(self, rng):
        self.rng = rng
        self.counter = 0

    def fresh(self):
        self.counter += 1
        return 'n%d' % self.counter

    def expr(self, scope, want, depth):
        """mostly an expression coercible to `want` (None: anything)"""
        rng = self.rng
        if want is None or rng.random() < 0.12:
            want = rng.choice(VALUE_TYPES + ['empty'])
        if depth <= 0 or rng.random() < 0.3:
            return self.leaf(scope, want)
        r = rng.random()
        if want == 'int' or want == 'byte':
            if r < 0.35:
                sub = rng.choice(['int', 'byte', want])
                return ('Bin', rng.choice(ARITH2), self.expr(scope, sub, depth - 1), self.expr(scope, sub, depth - 1))
            if r < 0.45:
                return ('Un', rng.choice(['Neg', 'Pos']), self.expr(scope, want, depth - 1))
            if r < 0.55:
                return ('Is', self.expr(scope, rng.choice(['int', 'byte', 'bool']), depth - 1), want)
            if r < 0.65:
                at = rng.choice([('arr', want), ('carr', want)] + ([('carr', 'byte')] if want == 'byte' else []))
                return ('Index', self.expr(scope, at, depth - 1), self.expr(scope, 'int', depth - 1))
            if r < 0.72 and want == 'int':
                return ('Len', self.expr(scope, rng.choice(ARRS + ['string']), depth - 1))
            if r < 0.8:
                return ('Call', 'r_' + want)
            return self.leaf(scope, want)
        if want == 'bool':
            if r < 0.3:
                return ('Bin', rng.choice(CMP), self.expr(scope, 'int', depth - 1), self.expr(scope, rng.choice(['int', 'byte']), depth - 1))
            if r < 0.5:
                return ('Bin', rng.choice(LOGIC2), self.expr(scope, None, depth - 1), self.expr(scope, 'bool', depth - 1))
            if r < 0.6:
                return ('Un', 'Not', self.expr(scope, None, depth - 1))
            if r < 0.7:
                return ('Is', self.expr(scope, None, depth - 1), 'bool')
            if r < 0.8:
                return ('Bin', rng.choice(['Eq', 'Ne']), self.expr(scope, 'bool', depth - 1), self.expr(scope, 'bool', depth - 1))
            return self.leaf(scope, want)
        if want == 'string':
            if r < 0.3:
                return ('Index', self.expr(scope, rng.choice([('arr', 'string'), ('carr', 'string')]), depth - 1), self.expr(scope, 'int', depth - 1))
            if r < 0.4:
                return ('Call', 'r_string')
            return self.leaf(scope, want)
        if isinstance(want, tuple):
            if r < 0.5:
                return ('Arr',) + tuple(self.expr(scope, want[1], depth - 1) for _ in range(rng.randint(0, 3)))
            if r < 0.6:
                return ('Is', self.expr(scope, want, depth - 1), ('carr', want[1]))
            if r < 0.65 and want == ('carr', 'byte'):
                return self.expr(scope, 'string', depth - 1)
            return self.leaf(scope, want)
        return ('Call', 'e')

    def leaf(self, scope, want):
        rng = self.rng
        cands = [n for n, t, c in scope if t == want]
        if isinstance(want, tuple) and want[0] == 'carr':
            cands += [n for n, t, c in scope if t == ('arr', want[1])]
        if want == 'int':
            cands += [n for n, t, c in scope if t == 'byte']
        if cands and rng.random() < 0.6:
            return ('Var', rng.choice(cands))
        if want == 'int':
            return lit(rng.choice(GRID + [2, 3, 10]))
        if want == 'byte':
            return rng.choice([('Int', rng.choice([0, 1, 97, 255, 256])), ('Char', rng.choice([0, 65, 255]))])
        if want == 'bool':
            return ('Bool', rng.random() < 0.5)
        if want == 'string':
            return ('Str', rng.choice(['-', '61', '6869']))
        if want == 'empty':
            return ('Call', 'e')
        return ('Arr',) + tuple(self.leaf(scope, want[1]) for _ in range(rng.randint(0, 2)))

    def stmts(self, scope, ret, depth, in_loop, n):
        out = []
        scope = list(scope)
        for _ in range(n):
            s = self.stmt(scope, ret, depth, in_loop)
            out.append(s)
            if s[0] == 'Decl':
                scope.append((s[1], s[2], s[3]))
        return out

    def stmt(self, scope, ret, depth, in_loop):
        rng = self.rng
        r = rng.random()
        if r < 0.25:
            t = rng.choice(VALUE_TYPES)
            name = self.fresh() if rng.random() < 0.9 else rng.choice([n for n, _, _ in scope] or ['q'])
            if isinstance(t, tuple) and rng.random() < 0.25:
                return ('Decl', name, t, True, ('ArrInit', ('arr', t[1]), self.expr(scope, 'int', 1)))
            return ('Decl', name, t, True if isinstance(t, tuple) else rng.random() < 0.3, self.expr(scope, t, depth))
        if r < 0.45:
            vs = [(n, t, c) for n, t, c in scope]
            if vs:
                n, t, c = rng.choice(vs)
                if isinstance(t, tuple) or (t == 'string' and rng.random() < 0.4):
                    el = t[1] if isinstance(t, tuple) else 'byte'
                    lhs = ('Index', ('Var', n), self.expr(scope, 'int', 1))
                    if rng.random() < 0.3:
                        return ('IncAssign', rng.choice(ARITH2), lhs, self.expr(scope, el, depth))
                    return ('Assign', lhs, self.expr(scope, el, depth))
                if rng.random() < 0.3:
                    return ('IncAssign', rng.choice(ARITH2), ('Var', n), self.expr(scope, t, depth))
                return ('Assign', ('Var', n), self.expr(scope, t, depth))
        if r < 0.6:
            fn = rng.choice(['write', 'writeln', 'g_' + tn(rng.choice(VALUE_TYPES)), 'sleep', 'e'])
            if fn == 'e':
                return ('Expr', ('Call', 'e'))
            want = rng.choice(VALUE_TYPES) if fn in ('write', 'writeln') else ('int' if fn == 'sleep' else None)
            if fn.startswith('g_'):
                want = [t for t in VALUE_TYPES if 'g_' + tn(t) == fn][0]
            return ('Expr', ('Call', fn, self.expr(scope, want, depth)))
        if r < 0.68 and depth > 0:
            return ('If', self.expr(scope, 'bool', depth), ('Block',) + tuple(self.stmts(scope, ret, depth - 1, in_loop, rng.randint(0, 2))),
                    ('Block',) + tuple(self.stmts(scope, ret, depth - 1, in_loop, rng.randint(0, 2))) if rng.random() < 0.5 else None)
        if r < 0.74 and depth > 0:
            return ('While', self.expr(scope, 'bool', 1), ('Block',) + tuple(self.stmts(scope, ret, depth - 1, True, rng.randint(0, 3))))
        if r < 0.79 and depth > 0:
            i = self.fresh()
            sc2 = scope + [(i, 'int', False)]
            return ('For', ('Decl', i, 'int', False, ('Int', 0)), ('Bin', 'Lt', ('Var', i), self.expr(scope, 'int', 1)),
                    ('IncAssign', 'Add', ('Var', i), ('Int', 1)),
                    ('Block',) + tuple(self.stmts(sc2, ret, depth - 1, True, rng.randint(0, 2))))
        if r < 0.84 and depth > 0:
            return ('Block',) + tuple(self.stmts(scope, ret, depth - 1, in_loop, rng.randint(0, 3)))
        if r < 0.9:
            if ret == 'empty':
                return ('Return',) if rng.random() < 0.9 else ('Return', self.expr(scope, 'int', 1))
            return ('Return', self.expr(scope, ret, depth)) if rng.random() < 0.93 else ('Return',)
        if r < 0.94 and in_loop:
            return rng.choice([('Break',), ('Continue',)])
        return ('Expr', self.expr(scope, None, depth))

    def program(self):
        rng = self.rng
        self.counter = 0
        gscope = [(d[1], d[2], d[3]) for d in GLOBALS]
        funcs = []
        for k in range(rng.randint(1, 2)):
            ret = rng.choice(['empty', 'empty', 'int', 'byte', 'bool', 'string'])
            params = [('p%d' % j, t, isinstance(t, tuple) or rng.random() < 0.2)
                      for j, t in enumerate(rng.sample(VALUE_TYPES, rng.randint(0, 5)))]
            scope = gscope + params
            body = self.stmts(scope, ret, 2, False, rng.randint(1, 6))
            if ret != 'empty' and rng.random() < 0.85:
                body.append(('Return', self.expr(scope + [(s[1], s[2], s[3]) for s in body if s[0] == 'Decl'], ret, 1)))
            funcs.append(('Func', ret, 'f%d' % k, ('params',) + tuple(params)) + tuple(body))
        return ('Program', rng.random() < 0.15, ('vars',) + GLOBALS, ('funcs',) + HELPERS + tuple(funcs))


def count_nodes(t, hist):
    if isinstance(t, tuple) and t:
        if isinstance(t[0], str) and (t[0] in EXPR_HEADS or t[0] in STMT_HEADS or t[0] == 'ArrInit'):
            hist['node:' + t[0]] += 1
        for c in t:
            count_nodes(c, hist)


def tier_random(runner, hist, dis, rng, n):
    g = Gen(rng)
    progs = [g.program() for _ in range(n)]
    for p in progs:
        count_nodes(p[3][-1], hist)
        hist['random'] += 1
    runner.compare(progs, 'random', hist, dis)
    return n


# ---- corpus: upstream tests and examples ---------------------------------------------------------

def corpus_sources():
    """(label, source, options, expected) from tests/test_typecheck.py (string arguments of
    assert_good / assert_bad, read with `ast`) and examples/*.hid"""
    import ast as pyast
    import glob
    out = []
    path = os.path.join(REPO, 'tests', 'test_typecheck.py')
    if os.path.exists(path):
        tree = pyast.parse(open(path).read())
        for node in pyast.walk(tree):
            if isinstance(node, pyast.Call) and isinstance(node.func, pyast.Name) \
                    and node.func.id in ('assert_good', 'assert_bad') and node.args \
                    and isinstance(node.args[0], pyast.Constant) and isinstance(node.args[0].value, str):
                opts = {k.arg: k.value.value for k in node.keywords if isinstance(k.value, pyast.Constant)}
                out.append(('test_typecheck:%d' % node.lineno, node.args[0].value, opts,
                            node.func.id == 'assert_good'))
    for f in sorted(glob.glob(os.path.join(REPO, 'examples', '*.hid'))):
        out.append(('example:' + os.path.basename(f), open(f, encoding='utf-8').read(), {}, True))
    return out


def tier_corpus(hist, dis):
    from hidc.lexer import SourceCode
    from hidc.parser import parse
    A = _hidc()[0]
    cases = []
    for label, src, opts, expected in corpus_sources():
        try:
            prog = parse(SourceCode.from_string(src))
        except Exception:  # noqa: BLE001
            continue
        unreach = bool(opts.get('unreachable_error', False))
        try:
            io = treeser.ser_program(prog.evaluate(A.Environment.empty(**opts)))
        except Exception as e:  # noqa: BLE001
            io = treeser.ser_error(e)
        cases.append((label, src, treeser.unchecked_program_model(prog, unreach), io, expected))
    outs = run_model([c[2] for c in cases])
    wts = run_model(['(wt' + c[2][len('(elab'):] for c in cases])
    expect_dis = []
    for (label, src, cmd, io, expected), mo, wt in zip(cases, outs, wts):
        hist['corpus:' + label.split(':')[0]] += 1
        if canon(mo) != canon(io):
            dis.append({'input': src, 'model_input': cmd, 'model': mo, 'impl': io, 'category': 'corpus:' + label})
        oc = outcome_class(io)
        if oc not in ('MissingReturnStatement', 'Unreachable') and (wt == 'T') != expected:
            expect_dis.append({'label': label, 'rules': wt, 'upstream_expects_accept': expected})
    return len(cases), expect_dis


# ------------------------------------------------------------------------------------------

def run(tier='quick', seed=0, workdir=None):
    t0 = time.time()
    ensure_model()
    rng = random.Random(seed)
    hist = collections.Counter()
    dis = []
    runner = Runner()
    samples = []
    quick = tier != 'thorough'

    n_corpus, corpus_expect = tier_corpus(hist, dis)
    n_api, d_api, s_api = tier_api(hist)
    dis += d_api
    samples += s_api
    n_rules, total_rules = tier_rules(runner, hist, dis, rng, sample=None)
    n_stmt = tier_statements(runner, hist, dis)
    n_ov = tier_overloads(runner, hist, dis, rng, 40 if quick else 600)
    n_fold, n_fold1 = tier_fold(runner, hist, dis, rng, 400 if quick else 20000)
    n_rand = tier_random(runner, hist, dis, rng, 400 if quick else 30000)

    g = Gen(random.Random(seed))
    ex = g.program()
    samples.append(treeser.program_src(ex))
    samples.append(treeser.program_src(test_program([('Decl', 'x', 'byte', False, ('Bin', 'Add', ('Var', 'kb'), ('Int', 1)))])))
    nontrivial = len(runner.distinct)
    return {
        'evaluations': n_corpus + n_api + n_rules + n_stmt + n_ov + n_fold + n_rand,
        'corpus': {'programs': n_corpus, 'documented_rules_vs_upstream_expectation': corpus_expect},
        'distinct_nontrivial': nontrivial,
        'rule': 'distinct generated programs (hash of the model input) whose source parsed and for which both '
                'sides produced a checked tree or a classified error; the direct cast/coercible/coerce and '
                'fold-operator cases are counted in evaluations only',
        'samples': samples[:6],
        'disagreements': dis,
        'exhaustive': (not quick),
        'exhaustive_parts': {
            'cast/coercible/coerce on 15 target types x %d representative expressions (direct API)' % (n_api // 45): True,
            'fold operators on the %dx%d boundary grid' % (len(GRID), len(GRID)): True,
            'rule x position grid': '%d of %d' % (n_rules, total_rules),
        },
        'distribution': dict(sorted(hist.items())),
        'unparsable_generated': runner.unparsable,
        'spec_disagreements': runner.spec_summary(),
        'seconds': round(time.time() - t0, 1),
        'tier': tier, 'seed': seed,
    }


def main():
    ap = argparse.ArgumentParser()
    ap.add_argument('--tier', default=os.environ.get('VERIF_TIER', 'quick'))
    ap.add_argument('--seed', type=int, default=int(os.environ.get('VERIF_SEED', '0')))
    ap.add_argument('--workdir', default=None)
    ap.add_argument('--json', action='store_true')
    a = ap.parse_args()
    r = run(a.tier, a.seed, a.workdir)
    if a.json:
        print(json.dumps(r, indent=1))
    else:
        print('tier=%s seed=%d evaluations=%d nontrivial=%d disagreements=%d unparsable=%d time=%ss'
              % (a.tier, a.seed, r['evaluations'], r['distinct_nontrivial'], len(r['disagreements']),
                 r['unparsable_generated'], r['seconds']))
        for k, v in r['distribution'].items():
            if k.startswith(('outcome:', 'position:', 'rule:')) or k in ('random', 'overloads', 'statements'):
                print('  %-40s %d' % (k, v))
        for d in r['disagreements'][:15]:
            print('DISAGREEMENT [%s]\n  input: %s\n  model: %s\n  impl:  %s' % (d.get('category'), d['input'], d['model'], d['impl']))
    return 1 if r['disagreements'] else 0


if __name__ == '__main__':
    sys.exit(main())
