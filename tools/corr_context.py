"""Correspondence check for the `context` component (property C06).

Programs are *generated as trees*; each tree is (a) rendered to HiD source text and given to
`hidc.parser.parse`, and (b) serialised as an abstract program (coq/HiD/Context.v `program`) and
given to the extracted `check_program` / `accepts` (ocaml/hidctx.ml).  The abstract program is
built from the generator tree, never by parsing.  Verdicts compared: accepted / rejected, and
for rejections the *kind* of the first ParserError.

Enumeration (exhaustive up to the tier's depth): every construct x every context path, where a
path is  function flavour (or global)  x  nesting of statement-level contexts  x  the position
that hosts an expression  x  nesting of expression-level contexts.  Plus directed cases and
random deep programs (context-aware, mostly valid).

    run(tier, seed, workdir) -> dict        python tools/corr_context.py --tier quick --seed 0
"""
import argparse
import itertools
import json
import multiprocessing
import os
import random
import shutil
import subprocess
import sys
import time

HERE = os.path.dirname(os.path.abspath(__file__))
sys.path.insert(0, HERE)
from common import REPO, VERIF  # noqa: E402

RULE = ('hidc.parser.parse(SourceCode.from_string(src)) succeeds  <->  '
        'Context.accepts(abstract program) = true, and on rejection the kind of the first '
        'ParserError equals Context.check_program\'s error')

# ---------------------------------------------------------------------------------------------
# trees
#   expr : ('L', text) | ('C', fl, [expr]) | ('S', l, r) | ('N', variant, [expr])
#   plain: ('PE', e) | ('PA', target, op, value) | ('PD', 'init'|'len', e)
#   item : plain | ('B',) | ('K',) | ('R', e|None) | block
#   block: ('code', [item]) | ('if', c, t, e|None) | ('while', c, b)
#          | ('for', plain|None, e|None, plain|None, b) | ('try', b, 'u'|'s', h) | ('preempt', b)
#   top  : ('G', 'init'|'len', e) | ('F', fl, [item])
#   program: [top]
# ---------------------------------------------------------------------------------------------

BLOCK_TAGS = ('code', 'if', 'while', 'for', 'try', 'preempt')
PLAIN_TAGS = ('PE', 'PA', 'PD')
CALL_NAME = {'o': 'f', 'y': '@y', 'd': '!d'}
BIN_LEVEL = {'*': 4, '/': 4, '%': 4, '+': 5, '-': 5, '<': 6, '<=': 6, '>': 6, '>=': 6, '==': 6,
             '!=': 6, 'and': 7, 'or': 8}


def L(text='1'):
    return ('L', text)


def code(items=()):
    return ('code', list(items))


def level(e):
    t = e[0]
    if t in ('L', 'C'):
        return 0
    if t == 'S':
        return 9
    v = e[1]
    if v in ('paren', 'array'):
        return 0
    if v in ('index', 'length'):
        return 1
    if v.startswith('un:'):
        return 2
    if v.startswith('is:'):
        return 3
    if v.startswith('bin:'):
        return BIN_LEVEL[v[4:]]
    raise ValueError(v)


def rx(e, maxlevel=9):
    """render an expression so that it parses at ps_expr<maxlevel> (textual parentheses only)"""
    s = _rx(e)
    return '(%s)' % s if level(e) > maxlevel else s


def _rx(e):
    t = e[0]
    if t == 'L':
        return e[1]
    if t == 'C':
        return '%s(%s)' % (CALL_NAME[e[1]], ', '.join(rx(a) for a in e[2]))
    if t == 'S':
        return '%s ?? %s' % (rx(e[1], 8), rx(e[2], 8))
    v, subs = e[1], e[2]
    if v == 'paren':
        return '(%s)' % rx(subs[0])
    if v == 'array':
        return '[%s]' % ', '.join(rx(a) for a in subs)
    if v == 'index':
        return '%s[%s]' % (rx(subs[0], 1), rx(subs[1]))
    if v == 'length':
        return '%s.length' % rx(subs[0], 1)
    if v.startswith('un:'):
        op = v[3:]
        return '%s%s%s' % (op, ' ' if op == 'not' else '', rx(subs[0], 2))
    if v.startswith('is:'):
        return '%s is %s' % (rx(subs[0], 2), v[3:])
    if v.startswith('bin:'):
        op = v[4:]
        k = BIN_LEVEL[op]
        return '%s %s %s' % (rx(subs[0], k), op, rx(subs[1], k - 1))
    raise ValueError(v)


def rplain(p, names):
    t = p[0]
    if t == 'PE':
        return rx(p[1])
    if t == 'PA':
        return '%s %s %s' % (rx(p[1]), p[2], rx(p[3]))
    if t == 'PD':
        names[0] += 1
        if p[1] == 'init':
            return 'int v%d = %s' % (names[0], rx(p[2]))
        return 'int v%d[%s]' % (names[0], rx(p[2]))
    raise ValueError(t)


def ritem(it, names, ind):
    t = it[0]
    pad = '    ' * ind
    if t in PLAIN_TAGS:
        return pad + rplain(it, names) + ';'
    if t == 'B':
        return pad + 'break;'
    if t == 'K':
        return pad + 'continue;'
    if t == 'R':
        return pad + ('return;' if it[1] is None else 'return %s;' % rx(it[1]))
    return pad + rblock(it, names, ind)


def rblock(b, names, ind):
    t = b[0]
    if t == 'code':
        if not b[1]:
            return '{}'
        pad = '    ' * ind
        return '{\n' + '\n'.join(ritem(i, names, ind + 1) for i in b[1]) + '\n' + pad + '}'
    if t == 'if':
        s = 'if (%s) %s' % (rx(b[1]), rblock(b[2], names, ind))
        if b[3] is not None:
            s += ' else %s' % rblock(b[3], names, ind)
        return s
    if t == 'while':
        return 'while (%s) %s' % (rx(b[1]), rblock(b[2], names, ind))
    if t == 'for':
        i = '' if b[1] is None else rplain(b[1], names)
        c = '' if b[2] is None else rx(b[2])
        k = '' if b[3] is None else rplain(b[3], names)
        return 'for (%s; %s; %s) %s' % (i, c, k, rblock(b[4], names, ind))
    if t == 'try':
        return 'try %s %s %s' % (rblock(b[1], names, ind), 'undo' if b[2] == 'u' else 'stop',
                                 rblock(b[3], names, ind))
    if t == 'preempt':
        return 'preempt %s' % rblock(b[1], names, ind)
    raise ValueError(t)


FUNC_HEAD = {'o': 'int fn%d()', 'y': 'empty @you%d()', 'd': 'int !def%d()'}


def render(prog):
    names = [0]
    out = []
    for n, top in enumerate(prog):
        if top[0] == 'G':
            if top[1] == 'init':
                out.append('int g%d = %s;' % (n, rx(top[2])))
            else:
                out.append('int g%d[%s];' % (n, rx(top[2])))
        else:
            head = top[3] if len(top) > 3 else FUNC_HEAD[top[1]] % n
            out.append(head + ' ' + rblock(code(top[2]), names, 0))
    return '\n'.join(out) + '\n'


# abstract program (S-expression read by ocaml/hidctx.ml)
def sx_expr(e):
    t = e[0]
    if t == 'L':
        return 'L'
    if t == 'C':
        return '(C %s%s)' % (e[1], ''.join(' ' + sx_expr(a) for a in e[2]))
    if t == 'S':
        return '(S %s %s)' % (sx_expr(e[1]), sx_expr(e[2]))
    return '(N%s)' % ''.join(' ' + sx_expr(a) for a in e[2])


def sx_plain(p):
    if p[0] == 'PE':
        return '(PE %s)' % sx_expr(p[1])
    if p[0] == 'PA':
        return '(PA %s %s)' % (sx_expr(p[1]), sx_expr(p[3]))
    return '(PD %s)' % sx_expr(p[2])


def sx_item(it):
    t = it[0]
    if t in PLAIN_TAGS:
        return sx_plain(it)
    if t == 'B':
        return 'B'
    if t == 'K':
        return 'K'
    if t == 'R':
        return '(R)' if it[1] is None else '(R %s)' % sx_expr(it[1])
    return sx_block(it)


def sx_block(b):
    t = b[0]
    if t == 'code':
        return '(code%s)' % ''.join(' ' + sx_item(i) for i in b[1])
    if t == 'if':
        return '(if %s %s %s)' % (sx_expr(b[1]), sx_block(b[2]),
                                  sx_block(b[3]) if b[3] is not None else '(code)')
    if t == 'while':
        return '(while %s %s)' % (sx_expr(b[1]), sx_block(b[2]))
    if t == 'for':
        return '(for %s %s %s %s)' % ('_' if b[1] is None else sx_plain(b[1]),
                                      '_' if b[2] is None else sx_expr(b[2]),
                                      '_' if b[3] is None else sx_plain(b[3]), sx_block(b[4]))
    if t == 'try':
        return '(try %s %s %s)' % (sx_block(b[1]), b[2], sx_block(b[3]))
    return '(preempt %s)' % sx_block(b[1])


def sx_program(prog):
    parts = []
    for top in prog:
        if top[0] == 'G':
            parts.append('(G %s)' % sx_expr(top[2]))
        else:
            parts.append('(F %s%s)' % (top[1], ''.join(' ' + sx_item(i) for i in top[2])))
    return '(prog%s)' % ''.join(' ' + p for p in parts)


# `if (a) if (b) X else Y`: the else belongs to the inner if.  Trees in which an if WITH else has
# a then-branch ending in an if WITHOUT else are normalised by bracing the then-branch.
def open_tail(b):
    t = b[0]
    if t == 'if':
        return b[3] is None or open_tail(b[3])
    if t == 'while':
        return open_tail(b[2])
    if t == 'for':
        return open_tail(b[4])
    if t == 'preempt':
        return open_tail(b[1])
    if t == 'try':
        return open_tail(b[3])
    return False


def norm_block(b):
    t = b[0]
    if t == 'code':
        return ('code', [norm_item(i) for i in b[1]])
    if t == 'if':
        th = norm_block(b[2])
        el = None if b[3] is None else norm_block(b[3])
        if el is not None and open_tail(th):
            th = code([th])
        return ('if', b[1], th, el)
    if t == 'while':
        return ('while', b[1], norm_block(b[2]))
    if t == 'for':
        return ('for', b[1], b[2], b[3], norm_block(b[4]))
    if t == 'try':
        return ('try', norm_block(b[1]), b[2], norm_block(b[3]))
    return ('preempt', norm_block(b[1]))


def norm_item(it):
    return norm_block(it) if it[0] in BLOCK_TAGS else it


def norm_program(prog):
    return [top if top[0] == 'G' else ('F', top[1], [norm_item(i) for i in top[2]]) + tuple(top[3:])
            for top in prog]


# ---------------------------------------------------------------------------------------------
# contexts and constructs of the exhaustive enumeration
# ---------------------------------------------------------------------------------------------

ITEM_WRAP = {
    'while-body': lambda it: ('while', L('true'), code([it])),
    'for-body': lambda it: ('for', None, None, None, code([it])),
    'try-body(undo)': lambda it: ('try', code([it]), 'u', code()),
    'try-body(stop)': lambda it: ('try', code([it]), 's', code()),
    'undo-handler': lambda it: ('try', code(), 'u', code([it])),
    'stop-handler': lambda it: ('try', code(), 's', code([it])),
    'preempt-body': lambda it: ('preempt', code([it])),
    'if-then': lambda it: ('if', L('true'), code([it]), None),
    'if-else': lambda it: ('if', L('true'), code(), code([it])),
    'block': lambda it: code([it]),
}
BRIDGE = {
    'expr-stmt': lambda e: ('PE', e),
    'assign-value': lambda e: ('PA', L('x'), '=', e),
    'assign-index': lambda e: ('PA', ('N', 'index', [L('a'), e]), '=', L('1')),
    'decl-init': lambda e: ('PD', 'init', e),
    'decl-length': lambda e: ('PD', 'len', e),
    'return-value': lambda e: ('R', e),
    'if-cond': lambda e: ('if', e, code(), None),
    'while-cond': lambda e: ('while', e, code()),
    'for-init': lambda e: ('for', ('PA', L('x'), '=', e), None, None, code()),
    'for-cond': lambda e: ('for', None, e, None, code()),
    'for-cont': lambda e: ('for', None, None, ('PE', e), code()),
}
EXPR_WRAP = {
    '??-left': lambda e: ('S', e, L('0')),
    '??-right': lambda e: ('S', L('0'), e),
    'paren': lambda e: ('N', 'paren', [e]),
    'index': lambda e: ('N', 'index', [L('a'), e]),
    'array-literal': lambda e: ('N', 'array', [L('1'), e]),
    'arg-ordinary': lambda e: ('C', 'o', [e]),
    'arg-you': lambda e: ('C', 'y', [L('1'), e]),
    'arg-defeat': lambda e: ('C', 'd', [e]),
}
EXPR_CONSTRUCT = {
    'ordinary-call': ('C', 'o', []),
    'you-call': ('C', 'y', []),
    'defeat-call': ('C', 'd', []),
    '??': ('S', L('1'), L('2')),
    'leaf': L('x'),
}
ITEM_CONSTRUCT = {
    'try/undo': ('try', code(), 'u', code()),
    'try/stop': ('try', code(), 's', code()),
    'preempt': ('preempt', code()),
    'break': ('B',),
    'continue': ('K',),
    'return': ('R', None),
    'while': ('while', L('true'), code()),
    'for': ('for', None, None, None, code()),
    'if/else': ('if', L('true'), code(), code()),
}
GLOBAL_BRIDGE = {'global-init': 'init', 'global-length': 'len'}
FLAVOURS = {'ordinary-fn': 'o', 'you-fn': 'y', 'defeat-fn': 'd'}

# the functions that the generated calls refer to, declared with the right flavours
DECLS = [('F', 'o', [('R', L('1'))], 'int f()'), ('F', 'y', [('R', L('1'))], 'int @y()'),
         ('F', 'd', [('R', L('1'))], 'int !d()')]


def load_sigils():
    """flavour prefixes as written in hidc/lexer/tokens.py (read with ast by the translator)"""
    try:
        import ast
        import regen_context
        with open(os.path.join(REPO, regen_context.TOKENS)) as f:
            sig = dict(regen_context.read_flavors(ast.parse(f.read())))
        y, d = sig['YOU'], sig['DEFEAT']
    except Exception:
        return
    CALL_NAME.update({'o': 'f', 'y': y + 'y', 'd': d + 'd'})
    FUNC_HEAD.update({'o': 'int fn%d()', 'y': 'empty ' + y + 'you%d()', 'd': 'int ' + d + 'def%d()'})
    DECLS[:] = [('F', 'o', [('R', L('1'))], 'int f()'), ('F', 'y', [('R', L('1'))], 'int %sy()' % y),
                ('F', 'd', [('R', L('1'))], 'int %sd()' % d)]


def called(e, acc):
    """flavours of the calls in a tree (any node)"""
    if isinstance(e, tuple):
        if e and e[0] == 'C':
            acc.add(e[1])
        for x in e:
            called(x, acc)
    elif isinstance(e, list):
        for x in e:
            called(x, acc)
    return acc


def with_decls(tops):
    fl = called(tops, set())
    return [d for d in DECLS if d[1] in fl] + tops


def enumerate_cases(depth):
    """yield (label dict, program tree)"""
    iw, br, ew = list(ITEM_WRAP), list(BRIDGE), list(EXPR_WRAP)
    # statement-level constructs
    for fname, fl in FLAVOURS.items():
        for k in range(depth + 1):
            for path in itertools.product(iw, repeat=k):
                for cname, c in ITEM_CONSTRUCT.items():
                    it = c
                    for w in reversed(path):
                        it = ITEM_WRAP[w](it)
                    yield ({'construct': cname, 'where': fname, 'path': path},
                           with_decls([('F', fl, [it])]))
    # expression-level constructs inside functions
    for fname, fl in FLAVOURS.items():
        for a in range(depth + 1):
            for b in range(depth + 1 - a):
                for spath in itertools.product(iw, repeat=a):
                    for bridge in br:
                        for epath in itertools.product(ew, repeat=b):
                            for cname, c in EXPR_CONSTRUCT.items():
                                e = c
                                for w in reversed(epath):
                                    e = EXPR_WRAP[w](e)
                                it = BRIDGE[bridge](e)
                                for w in reversed(spath):
                                    it = ITEM_WRAP[w](it)
                                yield ({'construct': cname, 'where': fname,
                                        'path': spath + (bridge,) + epath},
                                       with_decls([('F', fl, [it])]))
    # global initialisers
    for gname, variant in GLOBAL_BRIDGE.items():
        for b in range(depth + 1):
            for epath in itertools.product(ew, repeat=b):
                for cname, c in EXPR_CONSTRUCT.items():
                    e = c
                    for w in reversed(epath):
                        e = EXPR_WRAP[w](e)
                    yield ({'construct': cname, 'where': 'global', 'path': (gname,) + epath},
                           with_decls([('G', variant, e)]))


# directed cases for the subtle points (run first)
def directed_cases():
    y = lambda items: [('F', 'y', items)]
    tr = lambda body, h='u', handler=(): ('try', code(body), h, code(handler))
    spec = lambda l, r: ('S', l, r)
    co, cy, cd = ('C', 'o', []), ('C', 'y', []), ('C', 'd', [])
    out = {
        'try in loop keeps LOOP': y([('while', L('true'), code([tr([('B',)], 'u', [('K',)])]))]),
        'break after loop in try': y([tr([('while', L('true'), code()), ('B',)])]),
        'handler is you again': y([tr([('PE', cd)], 's', [('PE', cy), tr([], 'u', []),
                                                         ('PE', spec(co, co))])]),
        'defeat call in handler': y([tr([], 'u', [('PE', cd)])]),
        'preempt in handler': y([tr([], 's', [('preempt', code())])]),
        'nested try': y([tr([tr([])])]),
        'you call in try': y([tr([('PE', cy)])]),
        '?? in try': y([tr([('PE', spec(L('1'), L('2')))])]),
        '?? in ?? left': y([('PE', spec(spec(L('1'), L('2')), L('3')))]),
        '?? in ?? right': y([('PE', spec(L('1'), spec(L('2'), L('3'))))]),
        '?? in ?? via call arg': y([('PE', spec(('C', 'o', [spec(L('1'), L('2'))]), L('3')))]),
        'you call in ?? left': y([('PE', spec(cy, L('1')))]),
        'you call in ?? right': y([('PE', spec(L('1'), cy))]),
        'defeat call in ?? right (ordinary fn)': [('F', 'o', [('PE', spec(L('1'), cd))])],
        'defeat call in ?? left (ordinary fn)': [('F', 'o', [('PE', spec(cd, L('1')))])],
        'you call in ?? left (defeat fn)': [('F', 'd', [('PE', spec(cy, L('1')))])],
        '?? of ordinary calls in loop': y([('while', spec(co, ('C', 'o', [co])), code([('B',)]))]),
        'preempt in preempt in defeat fn': [('F', 'd', [('preempt', ('preempt', code([('PE', cd)])))])],
        'preempt in try in loop': y([('for', None, None, None, tr([('preempt', code([('B',)]))]))]),
        'try in defeat fn': [('F', 'd', [tr([])])],
        'try in ordinary fn': [('F', 'o', [tr([])])],
        'call in global': [('G', 'init', co)],
        'call in global array': [('G', 'init', ('N', 'array', [L('1'), co]))],
        'call in global length': [('G', 'len', ('N', 'bin:+', [L('1'), co]))],
        'you call in global': [('G', 'init', cy)],
        'defeat call in global': [('G', 'init', cd)],
        '?? in global': [('G', 'init', spec(L('1'), L('2')))],
        'break in for header try': y([('for', ('PD', 'init', spec(L('1'), L('2'))), cy, ('PE', cy),
                                       tr([('B',)], 's', [('K',)]))]),
        'unbraced nesting': y([('while', L('true'), ('if', L('true'), ('try', ('preempt', code([('K',)])),
                                                                        'u', ('if', cy, code(), None)), None))]),
        'dangling else': y([('if', L('1'), ('if', L('2'), code(), None), code([('PE', cy)]))]),
        'return ?? in you': y([('R', spec(co, L('0')))]),
        'return you call in try': y([tr([('R', cy)])]),
    }
    for name, prog in out.items():
        yield ({'construct': 'directed', 'where': name, 'path': ()}, with_decls(prog))


# ---------------------------------------------------------------------------------------------
# random deep programs (context-aware so that a good share is accepted)
# ---------------------------------------------------------------------------------------------

class Gen:
    """ctx = (kind, in_loop); kind in g o y d t s (global ordinary you defeat try-body ??-operand).
    This table only BIASES generation; verdicts come from hidc and from the Coq model."""

    def __init__(self, rng, p_bad):
        self.r = rng
        self.p_bad = p_bad

    def ok(self):
        return self.r.random() >= self.p_bad

    def leaf(self):
        return L(self.r.choice(['1', '0', 'x', 'a', 'true', "'c'", '"s"', '0x1F', 'false']))

    def expr(self, ctx, d):
        r = self.r
        kind = ctx[0]
        if d <= 0 or r.random() < 0.25:
            return self.leaf()
        choices = ['node'] * 4
        strict = self.ok()
        for fl, kinds in (('o', 'oydts'), ('y', 'y'), ('d', 'dt')):
            if not strict or kind in kinds:
                choices += ['call-' + fl] * 2
        if not strict or kind == 'y':
            choices += ['spec'] * 2
        c = r.choice(choices)
        if c == 'node':
            v = r.choice(['paren', 'array', 'index', 'length', 'un:-', 'un:not', 'un:+', 'is:int',
                          'is:byte', 'bin:+', 'bin:*', 'bin:-', 'bin:/', 'bin:%', 'bin:<', 'bin:==',
                          'bin:!=', 'bin:and', 'bin:or', 'bin:>='])
            n = {'paren': 1, 'array': r.choice([0, 1, 2, 3]), 'index': 2, 'length': 1}.get(
                v, 1 if v[:2] in ('un', 'is') else 2)
            return ('N', v, [self.expr(ctx, d - 1) for _ in range(n)])
        if c.startswith('call-'):
            return ('C', c[5:], [self.expr(ctx, d - 1) for _ in range(r.choice([0, 0, 1, 1, 2]))])
        sub = ('s', ctx[1])
        return ('S', self.expr(sub, d - 1), self.expr(sub, d - 1))

    def plain(self, ctx, d, allow_decl=True):
        r = self.r
        c = r.choice(['PE', 'PE', 'PA', 'PA', 'PD'] if allow_decl else ['PE', 'PA'])
        if c == 'PE':
            return ('PE', self.expr(ctx, d))
        if c == 'PA':
            tgt = L('x') if r.random() < 0.5 else ('N', 'index', [self.expr(ctx, d - 1) if r.random() < 0.3
                                                                   else L('a'), self.expr(ctx, d - 1)])
            return ('PA', tgt, r.choice(['=', '=', '+=', '-=', '*=', '/=', '%=']), self.expr(ctx, d))
        return ('PD', r.choice(['init', 'init', 'len']), self.expr(ctx, d))

    def item(self, ctx, d):
        r = self.r
        kind, loop = ctx
        strict = self.ok()
        choices = ['plain'] * 5 + ['return'] * 1
        if d > 0:
            choices += ['block'] * 6
        if not strict or loop:
            choices += ['break', 'continue']
        c = r.choice(choices)
        if c == 'plain':
            return self.plain(ctx, min(d, 3))
        if c == 'return':
            return ('R', None if r.random() < 0.4 else self.expr(ctx, min(d, 3)))
        if c == 'break':
            return ('B',)
        if c == 'continue':
            return ('K',)
        return self.block(ctx, d, braces=False)

    def body(self, ctx, d):
        """a block used as the body of a construct: usually braces, sometimes any block"""
        if d > 0 and self.r.random() < 0.2:
            return self.block(ctx, d - 1, braces=False)
        return code([self.item(ctx, d - 1) for _ in range(self.r.choice([0, 1, 1, 2, 3]))])

    def block(self, ctx, d, braces):
        r = self.r
        kind, loop = ctx
        strict = self.ok()
        choices = ['code', 'if', 'if', 'while', 'for']
        if not strict or kind == 'y':
            choices += ['try'] * 3
        if not strict or kind in 'dt':
            choices += ['preempt'] * 2
        c = 'code' if braces else r.choice(choices)
        e = min(d, 3)
        if c == 'code':
            return code([self.item(ctx, d - 1) for _ in range(r.choice([0, 1, 2, 2, 3]))])
        if c == 'if':
            return ('if', self.expr(ctx, e), self.body(ctx, d),
                    None if r.random() < 0.4 else self.body(ctx, d))
        if c == 'while':
            return ('while', self.expr(ctx, e), self.body((kind, True), d))
        if c == 'for':
            return ('for', None if r.random() < 0.3 else self.plain(ctx, e),
                    None if r.random() < 0.3 else self.expr(ctx, e),
                    None if r.random() < 0.3 else self.plain(ctx, e, allow_decl=False),
                    self.body((kind, True), d))
        if c == 'try':
            return ('try', self.body(('t', loop), d), r.choice('us'), self.body(ctx, d))
        return ('preempt', self.body(ctx, d))

    def program(self, d):
        r = self.r
        tops = []
        for _ in range(r.choice([1, 1, 2, 3])):
            if r.random() < 0.2:
                tops.append(('G', r.choice(['init', 'len']), self.expr(('g', False), 3)))
            else:
                fl = r.choice('oyyyd')
                tops.append(('F', fl, [self.item((fl, False), d) for _ in range(r.choice([1, 2, 3]))]))
        return with_decls(tops)


# ---------------------------------------------------------------------------------------------
# the two sides
# ---------------------------------------------------------------------------------------------

def classify(msg):
    if 'identifier' in msg:
        return 'Ident'
    if 'speculation' in msg:
        return 'Spec'
    if msg.startswith('break'):
        return 'Break'
    if msg.startswith('continue'):
        return 'Continue'
    if msg.startswith('try'):
        return 'Try'
    if msg.startswith('preempt'):
        return 'Preempt'
    if msg.startswith('Expected'):
        return 'Syntax'
    return 'Other(%s)' % msg[:40]


_hidc = {}


def _load_hidc():
    if not _hidc:
        if sys.path[0] != REPO:
            sys.path.insert(0, REPO)
        from hidc.parser import parse
        from hidc.lexer import SourceCode
        from hidc.errors import ParserError
        import hidc.parser
        where = os.path.abspath(hidc.parser.__file__)
        if not where.startswith(os.path.abspath(REPO) + os.sep):
            raise RuntimeError('hidc imported from %s, expected under %s' % (where, REPO))
        _hidc.update(parse=parse, SourceCode=SourceCode, ParserError=ParserError)
    return _hidc


def impl_verdict(src):
    h = _load_hidc()
    try:
        h['parse'](h['SourceCode'].from_string(src))
        return 'ok'
    except h['ParserError'] as e:
        return 'err ' + classify(str(e))
    except RecursionError:
        return 'exc RecursionError'
    except Exception as e:    # anything else is not a verdict the model can produce
        return 'exc %s: %s' % (type(e).__name__, str(e)[:60])


def impl_verdicts(srcs, pool):
    if pool is None or len(srcs) < 64:
        return [impl_verdict(s) for s in srcs]
    return pool.map(impl_verdict, srcs, chunksize=max(16, len(srcs) // 256))


COQ_FILES = ['Gen/GenContext.v', 'HiD/Context.v', 'Extract/ExtractContext.v']


def build_model(workdir, log):
    """(re)build the extracted model and the driver; returns the path of the executable"""
    coq = os.path.join(VERIF, 'coq')
    core = os.path.join(VERIF, 'ocaml', 'hidctx_core.ml')
    srcs = [os.path.join(coq, f) for f in COQ_FILES]
    stale = (not os.path.exists(core)
             or any(os.path.getmtime(s) > os.path.getmtime(core) for s in srcs))
    if stale:
        for f in COQ_FILES:
            t = time.time()
            p = subprocess.run(['timeout', '900', 'coqc', '-Q', '.', 'HidV', f], cwd=coq,
                               stdout=subprocess.PIPE, stderr=subprocess.STDOUT)
            log.append('coqc %s: rc=%d %.1fs' % (f, p.returncode, time.time() - t))
            if p.returncode != 0:
                raise RuntimeError('coqc %s failed:\n%s' % (f, p.stdout.decode()[-2000:]))
    bdir = os.path.join(workdir, 'build')
    os.makedirs(bdir, exist_ok=True)
    for f in ('hidctx_core.ml', 'hidctx_core.mli', 'hidctx.ml'):
        shutil.copy(os.path.join(VERIF, 'ocaml', f), bdir)
    exe = os.path.join(bdir, 'hidctx')
    p = subprocess.run(['timeout', '600', 'ocamlfind', 'ocamlopt', '-w', '-a', 'hidctx_core.mli',
                        'hidctx_core.ml', 'hidctx.ml', '-o', exe], cwd=bdir,
                       stdout=subprocess.PIPE, stderr=subprocess.STDOUT)
    if p.returncode != 0:
        raise RuntimeError('ocamlopt failed:\n%s' % p.stdout.decode()[-2000:])
    return exe


def model_verdicts(exe, sxs):
    if not sxs:
        return []
    p = subprocess.run([exe], input=('\n'.join(sxs) + '\n').encode(), stdout=subprocess.PIPE,
                       stderr=subprocess.PIPE, timeout=3000)
    out = p.stdout.decode().splitlines()
    if p.returncode != 0 or len(out) != len(sxs):
        raise RuntimeError('hidctx failed rc=%s got %d/%d: %s' % (
            p.returncode, len(out), len(sxs), p.stderr.decode()[-500:]))
    return out


# ---------------------------------------------------------------------------------------------
# shrinking
# ---------------------------------------------------------------------------------------------

def sub_exprs(e):
    if e[0] == 'C':
        return e[2]
    if e[0] == 'S':
        return [e[1], e[2]]
    if e[0] == 'N':
        return e[2]
    return []


def shrink_expr(e):
    """smaller expressions"""
    if e != L('1'):
        yield L('1')
    for s in sub_exprs(e):
        yield s
    if e[0] == 'C':
        for i in range(len(e[2])):
            yield ('C', e[1], e[2][:i] + e[2][i + 1:])
            for s in shrink_expr(e[2][i]):
                yield ('C', e[1], e[2][:i] + [s] + e[2][i + 1:])
    elif e[0] == 'S':
        for s in shrink_expr(e[1]):
            yield ('S', s, e[2])
        for s in shrink_expr(e[2]):
            yield ('S', e[1], s)
    elif e[0] == 'N':
        if e[1] == 'array':
            for i in range(len(e[2])):
                yield ('N', 'array', e[2][:i] + e[2][i + 1:])
        if e[1] != 'paren':
            if len(e[2]) == 1:
                yield ('N', 'paren', e[2])
        for i in range(len(e[2])):
            for s in shrink_expr(e[2][i]):
                yield ('N', e[1], e[2][:i] + [s] + e[2][i + 1:])


def shrink_plain(p):
    if p[0] == 'PE':
        for s in shrink_expr(p[1]):
            yield ('PE', s)
    elif p[0] == 'PA':
        yield ('PE', p[3])
        yield ('PE', p[1])
        if p[1][0] != 'L':
            yield ('PA', L('x'), p[2], p[3])
            # keep the target an index node
            for s in shrink_expr(p[1][2][0]):
                yield ('PA', ('N', 'index', [s, p[1][2][1]]), p[2], p[3])
            for s in shrink_expr(p[1][2][1]):
                yield ('PA', ('N', 'index', [p[1][2][0], s]), p[2], p[3])
        if p[2] != '=':
            yield ('PA', p[1], '=', p[3])
        for s in shrink_expr(p[3]):
            yield ('PA', p[1], p[2], s)
    else:
        yield ('PE', p[2])
        for s in shrink_expr(p[2]):
            yield ('PD', p[1], s)


def shrink_items(items):
    for i in range(len(items)):
        yield items[:i] + items[i + 1:]
    for i in range(len(items)):
        it = items[i]
        if it[0] == 'code':            # splice a nested block
            yield items[:i] + it[1] + items[i + 1:]
        for s in shrink_item(it):
            yield items[:i] + [s] + items[i + 1:]


def shrink_item(it):
    t = it[0]
    if t in PLAIN_TAGS:
        for s in shrink_plain(it):
            yield s
    elif t == 'R':
        if it[1] is not None:
            yield ('R', None)
            yield ('PE', it[1])
            for s in shrink_expr(it[1]):
                yield ('R', s)
    elif t in BLOCK_TAGS:
        for s in shrink_block(it):
            yield s


def shrink_block(b):
    t = b[0]
    if t == 'code':
        for s in shrink_items(b[1]):
            yield ('code', s)
        return
    # hoist sub-blocks / hosted expressions
    if t == 'if':
        yield b[2]
        if b[3] is not None:
            yield b[3]
            yield ('if', b[1], b[2], None)
        yield code([('PE', b[1])])
        for s in shrink_expr(b[1]):
            yield ('if', s, b[2], b[3])
        for s in shrink_block(b[2]):
            yield ('if', b[1], s, b[3])
        if b[3] is not None:
            for s in shrink_block(b[3]):
                yield ('if', b[1], b[2], s)
    elif t == 'while':
        yield b[2]
        yield code([('PE', b[1])])
        for s in shrink_expr(b[1]):
            yield ('while', s, b[2])
        for s in shrink_block(b[2]):
            yield ('while', b[1], s)
    elif t == 'for':
        yield b[4]
        yield ('while', L('true'), b[4])
        for k in (1, 2, 3):
            if b[k] is not None:
                yield b[:k] + (None,) + b[k + 1:]
                yield code([b[k] if k != 2 else ('PE', b[k])])
                for s in (shrink_expr(b[k]) if k == 2 else shrink_plain(b[k])):
                    if k == 3 and s[0] == 'PD':
                        continue
                    yield b[:k] + (s,) + b[k + 1:]
        for s in shrink_block(b[4]):
            yield b[:4] + (s,)
    elif t == 'try':
        yield b[1]
        yield b[3]
        for s in shrink_block(b[1]):
            yield ('try', s, b[2], b[3])
        for s in shrink_block(b[3]):
            yield ('try', b[1], b[2], s)
    elif t == 'preempt':
        yield b[1]
        for s in shrink_block(b[1]):
            yield ('preempt', s)
    if t != 'code':
        pass


def shrink_program(prog):
    for i in range(len(prog)):
        yield prog[:i] + prog[i + 1:]
    for i in range(len(prog)):
        top = prog[i]
        if top[0] == 'G':
            for s in shrink_expr(top[2]):
                yield prog[:i] + [('G', top[1], s)] + prog[i + 1:]
        else:
            for s in shrink_items(top[2]):
                yield prog[:i] + [('F', top[1], s) + tuple(top[3:])] + prog[i + 1:]


def verdict_pair(exe, progs):
    progs = [norm_program(p) for p in progs]
    srcs = [render(p) for p in progs]
    impl = [impl_verdict(s) for s in srcs]
    model = model_verdicts(exe, [sx_program(p) for p in progs])
    return list(zip(progs, srcs, impl, model))


def shrink(exe, prog, budget=1500):
    """greedy delta debugging on the generator tree: take the first smaller tree on which the two
    sides still differ; candidates are evaluated in small batches"""
    cur = norm_program(prog)
    used = 0
    progress = True
    while progress and used < budget:
        progress = False
        seen = set()
        batch = []

        def flush():
            for p, s, i, m in verdict_pair(exe, batch):
                if i != m:
                    return p
            return None
        gen = shrink_program(cur)
        while used < budget:
            c = next(gen, None)
            if c is not None:
                key = repr(c)
                if key in seen:
                    continue
                seen.add(key)
                batch.append(c)
            if batch and (c is None or len(batch) >= 24):
                used += len(batch)
                hit = flush()
                batch = []
                if hit is not None:
                    cur = hit
                    progress = True
                    break
            if c is None:
                break
    return cur


# ---------------------------------------------------------------------------------------------
# run
# ---------------------------------------------------------------------------------------------

def features(prog):
    """constructs present in a random program (for the histogram)"""
    acc = {}

    def walk(x):
        if isinstance(x, tuple) and x:
            t = x[0]
            name = {'C': None, 'S': '??', 'B': 'break', 'K': 'continue', 'R': 'return', 'try': 'try',
                    'preempt': 'preempt', 'while': 'while', 'for': 'for', 'if': 'if',
                    'G': 'global'}.get(t)
            if t == 'C':
                name = {'o': 'ordinary-call', 'y': 'you-call', 'd': 'defeat-call'}[x[1]]
            if name:
                acc[name] = acc.get(name, 0) + 1
            for y in x[1:]:
                walk(y)
        elif isinstance(x, list):
            for y in x:
                walk(y)
    walk(prog)
    return acc


def depth_of(x):
    if isinstance(x, tuple):
        return 1 + max([depth_of(y) for y in x[1:]] + [0])
    if isinstance(x, list):
        return max([depth_of(y) for y in x] + [0])
    return 0


def run(tier='quick', seed=0, workdir=None):
    t0 = time.time()
    log = []
    own = workdir is None
    if own:
        workdir = os.path.join(VERIF, '.work', 'context', 'corr-%d' % os.getpid())
    os.makedirs(workdir, exist_ok=True)
    rng = random.Random(seed)
    depth = 2 if tier == 'quick' else 3
    n_random = 6000 if tier == 'quick' else 120000
    nproc = max(1, min(12, (os.cpu_count() or 2) - 2))
    try:
        exe = build_model(workdir, log)
        load_sigils()
        _load_hidc()
        pool = multiprocessing.Pool(nproc) if nproc > 1 else None

        labels, progs = [], []
        for lab, p in directed_cases():
            labels.append(lab)
            progs.append(norm_program(p))
        n_directed = len(progs)
        for lab, p in enumerate_cases(depth):
            labels.append(lab)
            progs.append(norm_program(p))
        n_enum = len(progs) - n_directed
        g = Gen(rng, 0.04)
        rstats = {'programs': 0, 'max_depth': 0}
        for k in range(n_random):
            g.p_bad = (0.0, 0.02, 0.05, 0.12)[k % 4]
            p = norm_program(g.program(rng.choice([2, 3, 4, 5, 6])))
            labels.append({'construct': 'random', 'where': 'random', 'path': ()})
            progs.append(p)
            rstats['programs'] += 1
        t_gen = time.time() - t0

        srcs = [render(p) for p in progs]
        sxs = [sx_program(p) for p in progs]
        t1 = time.time()
        impl = impl_verdicts(srcs, pool)
        t_impl = time.time() - t1
        t1 = time.time()
        model = model_verdicts(exe, sxs)
        t_model = time.time() - t1
        if pool is not None:
            pool.close()
            pool.join()

        # histograms
        dist_construct, dist_where, dist_inner, dist_depth, dist_verdict = {}, {}, {}, {}, {}
        dist_random_features, dist_random_verdict = {}, {}
        cell = {}
        for lab, p, i, m in zip(labels, progs, impl, model):
            c = lab['construct']
            if c == 'random':
                for k, v in features(p).items():
                    dist_random_features[k] = dist_random_features.get(k, 0) + 1
                dist_random_verdict[i] = dist_random_verdict.get(i, 0) + 1
                d = depth_of(p)
                rstats['max_depth'] = max(rstats['max_depth'], d)
                continue
            dist_construct[c] = dist_construct.get(c, 0) + 1
            w = lab['where'] if c != 'directed' else 'directed'
            dist_where[w] = dist_where.get(w, 0) + 1
            inner = lab['path'][-1] if lab['path'] else '(function body)'
            k = '%s @ %s' % (c, inner)
            dist_inner[k] = dist_inner.get(k, 0) + 1
            dist_depth[len(lab['path'])] = dist_depth.get(len(lab['path']), 0) + 1
            dist_verdict[i] = dist_verdict.get(i, 0) + 1
            if c != 'directed':
                # construct x flavour x set of contexts on the path -> (accepted, rejected)
                ck = '%s | %s | %s' % (c, lab['where'], ' > '.join(lab['path']) if len(lab['path']) <= 1
                                       else '%s > .. > %s' % (lab['path'][0], lab['path'][-1]))
                a = cell.setdefault(ck, [0, 0])
                a[0 if i == 'ok' else 1] += 1

        bad = [k for k in range(len(progs)) if impl[k] != model[k]]
        # shrink a few, one per (construct, model verdict, impl verdict) class first
        classes = {}
        for k in bad:
            classes.setdefault((labels[k]['construct'], model[k], impl[k]), []).append(k)
        chosen = [ks[0] for ks in classes.values()][:10]
        for k in bad:
            if len(chosen) >= 10:
                break
            if k not in chosen:
                chosen.append(k)
        disagreements = []
        seen_min = set()
        for k in chosen:
            small = shrink(exe, progs[k])
            (p, s, i, m), = verdict_pair(exe, [small])
            if s in seen_min:
                continue
            seen_min.add(s)
            disagreements.append({
                'input': s, 'abstract': sx_program(p), 'model': m, 'impl': i,
                'original_input': srcs[k], 'original_model': model[k], 'original_impl': impl[k],
                'label': {'construct': labels[k]['construct'], 'where': labels[k]['where'],
                          'path': list(labels[k]['path'])},
            })
        disagreement_classes = {'%s: model %s, hidc %s' % c: len(ks) for c, ks in classes.items()}
        samples = []
        for k in sorted(rng.sample(range(len(progs)), min(8, len(progs)))):
            samples.append({'input': srcs[k], 'abstract': sxs[k], 'model': model[k], 'impl': impl[k]})
        nontrivial = len({s for s, lab in zip(srcs, labels) if lab['construct'] != 'leaf'})
        return {
            'component': 'context',
            'tier': tier, 'seed': seed, 'repo': REPO,
            'rule': RULE,
            'evaluations': len(progs),
            'distinct_nontrivial': nontrivial,
            'exhaustive': True,
            'exhaustive_scope': 'every construct x every context path with <= %d nested contexts '
                                '(plus the hosting position), %d programs; random part is a sample'
                                % (depth, n_enum),
            'disagreement_count': len(bad),
            'disagreement_classes': disagreement_classes,
            'disagreements': disagreements,
            'samples': samples,
            'distribution': {
                'directed': n_directed, 'enumerated': n_enum, 'random': n_random,
                'construct': dist_construct, 'where': dist_where, 'path_length': dist_depth,
                'construct_at_innermost_context': dist_inner,
                'verdict_enumerated': dist_verdict,
                'random_programs_containing': dist_random_features,
                'verdict_random': dist_random_verdict,
                'random_stats': rstats,
                'cells_construct_flavour_path': len(cell),
                'cells_both_verdicts_seen': sum(1 for a in cell.values() if a[0] and a[1]),
            },
            'timing': {'generate': round(t_gen, 2), 'impl': round(t_impl, 2),
                       'model': round(t_model, 2), 'total': round(time.time() - t0, 2),
                       'processes': nproc},
            'log': log,
        }
    finally:
        if own:
            shutil.rmtree(workdir, ignore_errors=True)
            try:
                os.rmdir(os.path.dirname(workdir))
            except OSError:
                pass


def main():
    ap = argparse.ArgumentParser()
    ap.add_argument('--tier', default=os.environ.get('VERIF_TIER', 'quick'),
                    choices=['quick', 'thorough'])
    ap.add_argument('--seed', type=int, default=int(os.environ.get('VERIF_SEED', '0')))
    ap.add_argument('--workdir', default=None)
    ap.add_argument('--full', action='store_true', help='print the whole result as JSON')
    a = ap.parse_args()
    res = run(a.tier, a.seed, a.workdir)
    if a.full:
        print(json.dumps(res, indent=1, sort_keys=True))
    else:
        brief = dict(res)
        d = dict(brief['distribution'])
        d.pop('construct_at_innermost_context')
        brief['distribution'] = d
        brief['samples'] = brief['samples'][:2]
        print(json.dumps(brief, indent=1, sort_keys=True))
    print('context correspondence: %d evaluations, %d disagreements (%s tier, seed %d, %.1fs)' % (
        res['evaluations'], res['disagreement_count'], a.tier, a.seed, res['timing']['total']))
    return 1 if res['disagreement_count'] else 0


if __name__ == '__main__':
    sys.exit(main())
