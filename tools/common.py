"""Shared helpers for /verif tools."""
import os, sys, json, hashlib, time

VERIF = os.path.abspath(os.path.join(os.path.dirname(os.path.abspath(__file__)), '..'))
REPO = os.environ.get('HIDC_REPO', '/repo')


class CannotTranslate(Exception):
    def __init__(self, item, why=''):
        super().__init__('%s: %s' % (item, why))
        self.item = item
        self.why = why


def write_if_changed(path, text):
    os.makedirs(os.path.dirname(path), exist_ok=True)
    try:
        with open(path) as f:
            if f.read() == text:
                return False
    except FileNotFoundError:
        pass
    with open(path, 'w') as f:
        f.write(text)
    return True


def sha(x):
    if isinstance(x, str):
        x = x.encode()
    return hashlib.sha256(x).hexdigest()[:16]
