"""S-expression serialisation of hidc's checked tree, in the syntax ocaml/hidtypes prints for the
model's tree (coq/HiD/Types.v).  Only public dataclass fields / public methods are read.

  TYPE   := int | bool | byte | string | empty | (arr D) | (carr D)
  BOOL   := T | F
  TEXPR  := (IntValue n shrinkable is_char) | (ByteValue n shrinkable is_char) | (BoolValue b)
          | (StringValue HEX|-) | (VariableLookup name TYPE const) | (Parameter name TYPE const)
          | (ArrayLiteral TYPE type_locked TEXPR*) | (ArrayLookup src idx) | (LengthLookup src)
          | (FuncCall fname (sig TYPE*) RET TEXPR*) | (ByteToInt e) | (IntToByte e) | (IntToBool e)
          | (BoolToByte e) | (StringToByteArray e) | (Volatile e)
          | (Add|Sub|Mul|Div|Mod shrinkable l r) | (Pos|Neg shrinkable e)
          | (And|Or|Lt|Gt|Le|Ge|Eq|Ne l r) | (Not e) | (Speculation l r)
          | (ArrayInitializer TYPE len)
  TSTMT  := (Declaration name TYPE const TEXPR) | (Assignment l r) | (IncAssignment Op l r)
          | (ReturnStatement [e]) | (BreakStatement) | (ContinueStatement) | TEXPR
          | (CodeBlock (mode FLAG*) TSTMT*) | (IfBlock body cond else) | (LoopBlock body cond cont)
          | (TryBlock body (UndoBlock|StopBlock h)) | (PreemptBlock b)
  TPROG  := (Program (vars TSTMT*) (funcs (FuncDeclaration RET fname (params (Parameter ..)*) body)*))
  ERROR  := (Error Kind arg*)

Source programs (model input, built from the generator's tree):
  EXPR := (Int n) | (Char n) | (Bool b) | (Str HEX) | (Var x) | (Arr EXPR*) | (Index s i) | (Len s)
        | (Call fname EXPR*) | (Un Op e) | (Bin Op l r) | (Is e TYPE) | (Spec l r) | (ArrInit TYPE len)
  STMT := (Decl name TYPE const EXPR) | (Assign l r) | (IncAssign Op l r) | (Return [e]) | (Break)
        | (Continue) | (Expr e) | (Block STMT*) | (If cond body else) | (Loop body cond cont)
        | (Try body U|S handler) | (Preempt body)
  PROG := (Program unreachable_error (vars STMT*) (funcs (Func RET fname (params (name TYPE const)*) STMT*)*))
"""
import re
import dataclasses as dc


def _imports():
    import hidc.ast as A
    from hidc.errors import TypeCheckError
    return A, TypeCheckError


def B(b):
    return 'T' if b else 'F'


def hexs(data):
    return data.hex() if data else '-'


def ser_type(t):
    A, _ = _imports()
    if isinstance(t, A.ArrayType):
        return '(%s %s)' % ('carr' if t.const else 'arr', t.el_type.value)
    return t.value


def _var(v):
    return '%s %s %s' % (v.name, ser_type(v.type), B(v.const))


ARITH = ('Add', 'Sub', 'Mul', 'Div', 'Mod', 'Pos', 'Neg')
CASTS = ('ByteToInt', 'IntToByte', 'IntToBool', 'BoolToByte', 'StringToByteArray')


def _fields(obj):
    return {f.name for f in dc.fields(obj) if not f.name.startswith('_')}


def ser_expr(e):
    A, _ = _imports()
    cn = type(e).__name__
    if cn == 'IntValue' or cn == 'ByteValue':
        return '(%s %d %s %s)' % (cn, e.data, B(e.shrinkable), B(e.is_char))
    if cn == 'BoolValue':
        return '(BoolValue %s)' % B(e.data)
    if cn == 'StringValue':
        return '(StringValue %s)' % hexs(e.data)
    if cn == 'VariableLookup':
        if not isinstance(e.var, A.Variable):
            return '(VariableLookup-unresolved %s)' % e.var.name
        return '(VariableLookup %s)' % _var(e.var)
    if cn == 'Parameter':
        return '(Parameter %s)' % _var(e.var)
    if cn == 'ArrayLiteral':
        return '(ArrayLiteral %s)' % ' '.join([ser_type(e.type), B(e.type_locked)] + [ser_expr(v) for v in e.values])
    if cn == 'ArrayLookup':
        return '(ArrayLookup %s %s)' % (ser_expr(e.source), ser_expr(e.index))
    if cn == 'LengthLookup':
        return '(LengthLookup %s)' % ser_expr(e.source)
    if cn == 'FuncCall':
        return '(FuncCall %s)' % ' '.join(
            [e.func.name, '(%s)' % ' '.join(['sig'] + [ser_type(a.type) for a in e.args]), ser_type(e.type)]
            + [ser_expr(a) for a in e.args])
    if cn in CASTS:
        return '(%s %s)' % (cn, ser_expr(e.expr))
    if cn == 'Volatile':
        return '(Volatile %s)' % ser_expr(e.expr)
    if cn == 'Speculation':
        return '(Speculation %s %s)' % (ser_expr(e.left), ser_expr(e.right))
    if cn == 'ArrayInitializer':
        return '(ArrayInitializer %s %s)' % (ser_type(e.type), ser_expr(e.length))
    if isinstance(e, A.Binary):
        if cn in ARITH:
            return '(%s %s %s %s)' % (cn, B(e.shrinkable), ser_expr(e.left), ser_expr(e.right))
        return '(%s %s %s)' % (cn, ser_expr(e.left), ser_expr(e.right))
    if isinstance(e, A.Unary):
        if cn in ARITH:
            return '(%s %s %s)' % (cn, B(e.shrinkable), ser_expr(e.arg))
        return '(%s %s)' % (cn, ser_expr(e.arg))
    if cn == 'Is':
        return '(Is-unevaluated %s %s)' % (ser_expr(e.expr), ser_type(e.type))
    raise ValueError('treeser: unknown expression class %s' % cn)


MODE_ORDER = ('NONE', 'BREAK', 'LOOP', 'DEFEAT', 'RETURN')


def ser_mode(m):
    A, _ = _imports()
    return '(%s)' % ' '.join(['mode'] + [n for n in MODE_ORDER if A.ExitMode[n] in m])


def ser_stmt(s):
    A, _ = _imports()
    cn = type(s).__name__
    if cn == 'Declaration':
        return '(Declaration %s %s)' % (_var(s.var), ser_expr(s.init))
    if cn == 'IncAssignment':
        return '(IncAssignment %s %s %s)' % (s.bin_op.__name__, ser_expr(s.lookup), ser_expr(s.expr))
    if cn == 'Assignment':
        return '(Assignment %s %s)' % (ser_expr(s.lookup), ser_expr(s.expr))
    if cn == 'ReturnStatement':
        return '(ReturnStatement)' if s.value is None else '(ReturnStatement %s)' % ser_expr(s.value)
    if cn == 'BreakStatement':
        return '(BreakStatement)'
    if cn == 'ContinueStatement':
        return '(ContinueStatement)'
    if cn == 'CodeBlock':
        return '(%s)' % ' '.join(['CodeBlock', ser_mode(s.exit_modes())] + [ser_stmt(x) for x in s.stmts])
    if cn == 'IfBlock':
        return '(IfBlock %s %s %s)' % (ser_stmt(s.body), ser_expr(s.cond), ser_stmt(s.else_block))
    if cn == 'LoopBlock':
        return '(LoopBlock %s %s %s)' % (ser_stmt(s.body), ser_expr(s.cond), ser_stmt(s.cont))
    if cn == 'TryBlock':
        return '(TryBlock %s (%s %s))' % (ser_stmt(s.body), type(s.handler).__name__, ser_stmt(s.handler.body))
    if cn == 'PreemptBlock':
        return '(PreemptBlock %s)' % ser_stmt(s.body)
    if isinstance(s, A.Expression):
        return ser_expr(s)
    raise ValueError('treeser: unknown statement class %s' % cn)


def ser_func(f):
    params = ' '.join(['params'] + [ser_expr(p) for p in f.params])
    return '(FuncDeclaration %s %s (%s) %s)' % (f.ret_type.value, f.name.name, params, ser_stmt(f.body))


def ser_program(p):
    return '(Program (%s) (%s))' % (' '.join(['vars'] + [ser_stmt(d) for d in p.var_decls]),
                                    ' '.join(['funcs'] + [ser_func(f) for f in p.func_decls]))


# ------------------------------------------------------------------------------------------
# errors

def _type_from_str(s):
    s = s.strip()
    m = re.fullmatch(r'(const )?(\w+)\[\]', s)
    if m:
        return '(%s %s)' % ('carr' if m.group(1) else 'arr', m.group(2))
    return s


def _sig_from_str(s):
    s = s.strip()
    return '(%s)' % ' '.join(['sig'] + ([_type_from_str(x) for x in s.split(',')] if s else []))


_ERR = [
    (r'(\w+) is empty', lambda m: 'Undeclared %s' % m.group(1)),
    (r'(.+) is not (.+)', lambda m: 'NotType %s %s' % (_type_from_str(m.group(1)), _type_from_str(m.group(2)))),
    (r'Must be array or string', lambda m: 'MustBeArrayOrString'),
    (r'Array type is ambiguous', lambda m: 'ArrayAmbiguous'),
    (r'Nested arrays are unsupported', lambda m: 'NestedArray'),
    (r'Array type is unresolvable', lambda m: 'ArrayUnresolvable'),
    (r'Array elements cannot be empty', lambda m: 'ArrayEmptyElement'),
    (r'No matching function for signature ([^\s(]+)\((.*?)\)( -- .*)?',
     lambda m: 'NoMatchingFunction %s %s' % (m.group(1), _sig_from_str(m.group(2)))),
    (r'(Division by zero|Modulus of zero)', lambda m: 'Fold %s' % m.group(1).replace(' ', '_')),
    (r'Can only speculate on byte, int, or bool, not (.+)', lambda m: 'SpeculateType %s' % _type_from_str(m.group(1))),
    (r'Redeclaration of variable (\w+)', lambda m: 'Redeclaration %s' % m.group(1)),
    (r'Cannot declare (\w+) as const with non-const reference intializer', lambda m: 'ConstVolatileDecl %s' % m.group(1)),
    (r'Cannot assign to const', lambda m: 'AssignConst'),
    (r'Unexpected return statement', lambda m: 'UnexpectedReturn'),
    (r'Unexpected return value in function returning empty', lambda m: 'UnexpectedReturnValue'),
    (r'Missing return value', lambda m: 'MissingReturnValue'),
    (r'Missing return statement', lambda m: 'MissingReturnStatement'),
    (r'Unreachable statement', lambda m: 'Unreachable'),
    (r'Redefinition of function ([^\s(]+)\((.*)\)', lambda m: 'Redefinition %s %s' % (m.group(1), _sig_from_str(m.group(2)))),
]


def ser_error(exc):
    _, TypeCheckError = _imports()
    if isinstance(exc, TypeCheckError):
        msg = str(exc)
        for pat, f in _ERR:
            m = re.fullmatch(pat, msg)
            if m:
                return '(Error %s)' % f(m)
        return '(Error UnknownMessage %s)' % msg.replace(' ', '_')
    return '(Error Crash %s)' % type(exc).__name__


def canon(s):
    """canonical form for comparison: every crash is the same crash"""
    if s.startswith('(Error Crash'):
        return '(Error Crash)'
    return s


def check_source(src, **opts):
    """parse + evaluate a source text; returns the S-expression of the checked tree or error.
    Raises for lexer/parser errors (the caller generated an unparsable program)."""
    from hidc.lexer import SourceCode
    from hidc.parser import parse
    A, _ = _imports()
    prog = parse(SourceCode.from_string(src))
    try:
        checked = prog.evaluate(A.Environment.empty(**opts))
    except RecursionError:
        raise
    except Exception as e:  # noqa: BLE001 -- crashes of the implementation are results
        return ser_error(e)
    return ser_program(checked)


# ------------------------------------------------------------------------------------------
# the generator's tree (nested tuples in the model-input syntax) -> text

def sx(t):
    """nested tuples/lists/str/int/bool -> S-expression text"""
    if isinstance(t, bool):
        return B(t)
    if isinstance(t, int):
        return str(t)
    if isinstance(t, str):
        return t
    return '(%s)' % ' '.join(sx(x) for x in t)


def type_src(t):
    if isinstance(t, tuple):
        return ('const ' if t[0] == 'carr' else '') + t[1] + '[]'
    return t


def _bytes_src(hexstr):
    if hexstr == '-':
        return ''
    return ''.join('\\x%s' % hexstr[i:i + 2] for i in range(0, len(hexstr), 2))


OPTEXT = {'Add': '+', 'Sub': '-', 'Mul': '*', 'Div': '/', 'Mod': '%', 'Pos': '+', 'Neg': '-',
          'And': 'and', 'Or': 'or', 'Not': 'not', 'Lt': '<', 'Gt': '>', 'Le': '<=', 'Ge': '>=',
          'Eq': '==', 'Ne': '!='}


def expr_src(e):
    k = e[0]
    if k == 'Int':
        return str(e[1])
    if k == 'Char':
        return "'\\x%02x'" % e[1]
    if k == 'Bool':
        return 'true' if e[1] else 'false'
    if k == 'Str':
        return '"%s"' % _bytes_src(e[1])
    if k == 'Var':
        return e[1]
    if k == 'Arr':
        return '[%s]' % ', '.join(expr_src(x) for x in e[1:])
    if k == 'Index':
        return '(%s)[%s]' % (expr_src(e[1]), expr_src(e[2]))
    if k == 'Len':
        return '(%s).length' % expr_src(e[1])
    if k == 'Call':
        return '%s(%s)' % (e[1], ', '.join(expr_src(x) for x in e[2:]))
    if k == 'Un':
        return '(%s (%s))' % (OPTEXT[e[1]], expr_src(e[2]))
    if k == 'Bin':
        return '((%s) %s (%s))' % (expr_src(e[2]), OPTEXT[e[1]], expr_src(e[3]))
    if k == 'Is':
        # `is` array types are always const in the grammar
        t = e[2]
        return '((%s) is %s)' % (expr_src(e[1]), t[1] + '[]' if isinstance(t, tuple) else t)
    if k == 'Spec':
        return '((%s) ?? (%s))' % (expr_src(e[1]), expr_src(e[2]))
    raise ValueError('expr_src: %r' % (e,))


def _decl_src(name, t, const, init):
    if init[0] == 'ArrInit':
        # `T x[len]` / `const T x[len]`: variable type ArrayType(T, const), initializer type T[]
        assert isinstance(t, tuple) and init[1] == ('arr', t[1])
        return '%s%s %s[%s]' % ('const ' if t[0] == 'carr' else '', t[1], name, expr_src(init[2]))
    if isinstance(t, tuple):
        assert const, 'array variables are always const references'
        return '%s %s = %s' % (type_src(t), name, expr_src(init))
    return '%s%s %s = %s' % ('const ' if const else '', t, name, expr_src(init))


def plain_src(s):
    k = s[0]
    if k == 'Decl':
        return _decl_src(s[1], s[2], s[3], s[4])
    if k == 'Assign':
        return '%s = %s' % (expr_src(s[1]), expr_src(s[2]))
    if k == 'IncAssign':
        return '%s %s= %s' % (expr_src(s[2]), OPTEXT[s[1]], expr_src(s[3]))
    if k == 'Expr':
        return expr_src(s[1])
    raise ValueError('plain_src: %r' % (s,))


def stmt_src(s, ind='    '):
    """Generator statements; in addition to the model-input forms the generator may use
    ('For', init|None, cond|None, cont|None, body) and ('While', cond, body), which the parser
    desugars (see desugar())."""
    k = s[0]
    if k in ('Decl', 'Assign', 'IncAssign', 'Expr'):
        return ind + plain_src(s) + ';\n'
    if k == 'Return':
        return ind + ('return;\n' if len(s) == 1 else 'return %s;\n' % expr_src(s[1]))
    if k == 'Break':
        return ind + 'break;\n'
    if k == 'Continue':
        return ind + 'continue;\n'
    if k == 'Block':
        return ind + '{\n' + ''.join(stmt_src(x, ind + '    ') for x in s[1:]) + ind + '}\n'
    if k == 'If':
        out = ind + 'if (%s)\n' % expr_src(s[1]) + stmt_src(s[2], ind + '  ')
        if s[3] is not None:
            out += ind + 'else\n' + stmt_src(s[3], ind + '  ')
        return out
    if k == 'While':
        return ind + 'while (%s)\n' % expr_src(s[1]) + stmt_src(s[2], ind + '  ')
    if k == 'For':
        return ind + 'for (%s; %s; %s)\n' % (
            plain_src(s[1]) if s[1] else '', expr_src(s[2]) if s[2] else '',
            plain_src(s[3]) if s[3] else '') + stmt_src(s[4], ind + '  ')
    if k == 'Try':
        return (ind + 'try\n' + stmt_src(s[1], ind + '  ') + ind + ('undo\n' if s[2] == 'U' else 'stop\n')
                + stmt_src(s[3], ind + '  '))
    if k == 'Preempt':
        return ind + 'preempt\n' + stmt_src(s[1], ind + '  ')
    raise ValueError('stmt_src: %r' % (s,))


def desugar(s):
    """what the parser builds: while/for loops become LoopBlocks (LoopBlock.while_loop/for_loop),
    an `if` without else gets an empty else block."""
    k = s[0]
    if k == 'Block':
        return ('Block',) + tuple(desugar(x) for x in s[1:])
    if k == 'If':
        return ('If', s[1], desugar(s[2]), desugar(s[3]) if s[3] is not None else ('Block',))
    if k == 'While':
        return ('Loop', desugar(s[2]), s[1], ('Block',))
    if k == 'For':
        loop = ('Loop', desugar(s[4]), s[2] if s[2] else ('Bool', True),
                ('Block', s[3]) if s[3] else ('Block',))
        return ('Block',) + ((s[1],) if s[1] else ()) + (loop,)
    if k == 'Try':
        return ('Try', desugar(s[1]), s[2], desugar(s[3]))
    if k == 'Preempt':
        return ('Preempt', desugar(s[1]))
    return s


def program_src(p):
    """p = ('Program', unreachable_error, ('vars', ...), ('funcs', ('Func', ret, name, ('params', (n,t,c)...), stmts...)...))"""
    out = ''
    for d in p[2][1:]:
        out += plain_src(d) + ';\n'
    for f in p[3][1:]:
        params = ', '.join(
            ('%s %s' % (type_src(t), n)) if isinstance(t, tuple) else ('%s%s %s' % ('const ' if c else '', t, n))
            for (n, t, c) in f[3][1:])
        out += '%s %s(%s) {\n' % (f[1], f[2], params) + ''.join(stmt_src(x) for x in f[4:]) + '}\n'
    return out


def program_model(p):
    funcs = tuple(('Func', f[1], f[2], f[3]) + tuple(desugar(x) for x in f[4:]) for f in p[3][1:])
    return sx(('elab', ('Program', p[1], p[2], ('funcs',) + funcs)))


# ------------------------------------------------------------------------------------------
# hidc's UNCHECKED tree (parser output) -> model input; used for the corpus tier only
# (upstream tests and examples); generated programs never go through the parser on the model side.

def _ty_tuple(t):
    A, _ = _imports()
    if isinstance(t, A.ArrayType):
        return ('carr' if t.const else 'arr', t.el_type.value)
    return t.value


def unchecked_expr(e):
    A, _ = _imports()
    cn = type(e).__name__
    if cn == 'IntValue':
        return ('Int', e.data)
    if cn == 'ByteValue':
        return ('Char', e.data)
    if cn == 'BoolValue':
        return ('Bool', bool(e.data))
    if cn == 'StringValue':
        return ('Str', hexs(e.data))
    if cn == 'VariableLookup':
        return ('Var', e.var.name)
    if cn == 'ArrayLiteral':
        return ('Arr',) + tuple(unchecked_expr(v) for v in e.values)
    if cn == 'ArrayLookup':
        return ('Index', unchecked_expr(e.source), unchecked_expr(e.index))
    if cn == 'LengthLookup':
        return ('Len', unchecked_expr(e.source))
    if cn == 'FuncCall':
        return ('Call', e.func.name) + tuple(unchecked_expr(a) for a in e.args)
    if cn == 'Speculation':
        return ('Spec', unchecked_expr(e.left), unchecked_expr(e.right))
    if cn == 'Is':
        return ('Is', unchecked_expr(e.expr), _ty_tuple(e.type))
    if cn == 'ArrayInitializer':
        return ('ArrInit', _ty_tuple(e.type), unchecked_expr(e.length))
    if isinstance(e, A.Binary):
        return ('Bin', cn, unchecked_expr(e.left), unchecked_expr(e.right))
    if isinstance(e, A.Unary):
        return ('Un', cn, unchecked_expr(e.arg))
    raise ValueError('unchecked_expr: %s' % cn)


def unchecked_stmt(s):
    A, _ = _imports()
    cn = type(s).__name__
    if cn == 'Declaration':
        return ('Decl', s.var.name, _ty_tuple(s.var.type), s.var.const, unchecked_expr(s.init))
    if cn == 'IncAssignment':
        return ('IncAssign', s.bin_op.__name__, unchecked_expr(s.lookup), unchecked_expr(s.expr))
    if cn == 'Assignment':
        return ('Assign', unchecked_expr(s.lookup), unchecked_expr(s.expr))
    if cn == 'ReturnStatement':
        return ('Return',) if s.value is None else ('Return', unchecked_expr(s.value))
    if cn == 'BreakStatement':
        return ('Break',)
    if cn == 'ContinueStatement':
        return ('Continue',)
    if cn == 'CodeBlock':
        return ('Block',) + tuple(unchecked_stmt(x) for x in s.stmts)
    if cn == 'IfBlock':
        return ('If', unchecked_expr(s.cond), unchecked_stmt(s.body), unchecked_stmt(s.else_block))
    if cn == 'LoopBlock':
        return ('Loop', unchecked_stmt(s.body), unchecked_expr(s.cond), unchecked_stmt(s.cont))
    if cn == 'TryBlock':
        return ('Try', unchecked_stmt(s.body), 'U' if type(s.handler).__name__ == 'UndoBlock' else 'S',
                unchecked_stmt(s.handler.body))
    if cn == 'PreemptBlock':
        return ('Preempt', unchecked_stmt(s.body))
    if isinstance(s, A.Expression):
        return ('Expr', unchecked_expr(s))
    raise ValueError('unchecked_stmt: %s' % cn)


def unchecked_program_model(prog, unreach=False, cmd='elab'):
    funcs = tuple(('Func', f.ret_type.value, f.name.name,
                   ('params',) + tuple((p.var.name, _ty_tuple(p.var.type), p.var.const) for p in f.params))
                  + tuple(unchecked_stmt(x) for x in f.body.stmts) for f in prog.func_decls)
    return sx((cmd, ('Program', unreach, ('vars',) + tuple(unchecked_stmt(d) for d in prog.var_decls),
                     ('funcs',) + funcs)))
