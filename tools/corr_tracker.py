"""Correspondence check for the `tracker` component (C04, item 1).

Drives the REAL `hidc.codegen.tracker.Tracker` and the extracted Coq model
(`Tracker.run gen_choices` via ocaml/hidtracker.ml; gen_choices is regenerated from the source by
tools/regen_tracker.py) with the same operation sequences and compares, per sequence,

  (i)   whether some `max_vals.pop(idx)` raises IndexError,
  (ii)  every finalisation `(checkpoint, value)` in the order it happens (the value is the RAW
        argument of DynamicValue.finalize, before the `.map` functions are applied),
  (iii) the final `max_vals` and the final `levels` (recorded indices included);

and checks the STATEMENT of `finalized_is_future_max` directly on the real Tracker's results:
checkpoint i is finalised (exactly once) iff the level it was added to is popped at some position
j, and then with max(own value, every update strictly between i and j).

Operation sequences (token form `A<v>` add, `U<v>` update, `P` push_level, `Q` pop_level):
  * exhaustive : every sequence over {A0,A1,A2,U0,U1,U2,P,Q} up to length 5 (thorough: 6)
  * random     : well-bracketed sequences shaped like a compilation (functions = base-level pops,
                 nested blocks, depth <= 5, length <= 60, values 0..40, stack-like and uniform
                 value streams) and a stream of arbitrary (unbalanced) sequences
  * harvested  : the sequences the code generator really produces -- Tracker's methods are
                 wrapped in-process while compiling /repo/examples/*.hid and generated small
                 programs (nested blocks, array literals, VLAs of every element type, calls with
                 array arguments, nested call temporaries; word sizes 2,3,4,8).  For these the
                 values finalised IN SITU during the compilation are compared with the model too.

Stand-alone:  python tools/corr_tracker.py --tier quick --seed 0
"""
import argparse, collections, glob, itertools, json, os, random, shutil, subprocess, sys, time
sys.path.insert(0, os.path.dirname(os.path.abspath(__file__)))
from common import REPO, VERIF, CannotTranslate, write_if_changed, sha

COQ_FILES = ['Gen/GenTracker.v', 'Codegen/Tracker.v', 'Extract/ExtractTracker.v']
MAX_VALUE, MAX_DEPTH, MAX_LEN = 40, 5, 60


# ------------------------------------------------------------------------------------ sequences
def seq_text(ops):
    return ' '.join(o[0] + (str(o[1]) if len(o) > 1 else '') for o in ops)


def seq_line(ops):
    return ' '.join(o[0] + (' %d' % o[1] if len(o) > 1 else '') for o in ops)


def spec_future_max(ops):
    """the right-hand side of Tracker.finalized_is_future_max, transcribed: {i: x}"""
    out = {}
    for i, o in enumerate(ops):
        if o[0] != 'A':
            continue
        d, acc = 0, o[1]
        for k in range(i + 1, len(ops)):
            p = ops[k]
            if p[0] == 'U':
                acc = max(acc, p[1])
            elif p[0] == 'P':
                d += 1
            elif p[0] == 'Q':
                if d == 0:
                    out[i] = acc
                    break
                d -= 1
    return out


# ------------------------------------------------------------------------------------ impl side
class Harness:
    """wraps the real Tracker in-process: logs op sequences and raw finalisations"""

    def __init__(self):
        if REPO not in sys.path:
            sys.path.insert(0, REPO)
        import hidc.codegen.tracker as T
        from hidc.codegen.asm import DynamicValue
        self.T = T
        self.logs = {}            # id(tracker) -> {'ops': [...], 'dyn': {pos: dv}, 'tracker': obj}
        self.order = []           # DynamicValues in finalisation order
        harness = self

        class LoggedDynamicValue(DynamicValue):
            def finalize(self, data):
                self._raw = data
                harness.order.append(self)
                return DynamicValue.finalize(self, data)

        T.DynamicValue = LoggedDynamicValue
        self.orig = {n: getattr(T.Tracker, n) for n in ('add', 'update', 'push_level', 'pop_level')}
        orig = self.orig

        def log(tr):
            return harness.logs.setdefault(id(tr), {'ops': [], 'dyn': {}, 'tracker': tr})

        def add(tr, v):
            r = orig['add'](tr, v)
            L = log(tr)
            r._pos = len(L['ops'])
            L['dyn'][r._pos] = r
            L['ops'].append(('A', v))
            return r

        def update(tr, v):
            log(tr)['ops'].append(('U', v))
            return orig['update'](tr, v)

        def push_level(tr):
            if not getattr(tr, '_in_pop', False):       # the re-push inside pop_level is part of Q
                log(tr)['ops'].append(('P',))
            return orig['push_level'](tr)

        def pop_level(tr):
            log(tr)['ops'].append(('Q',))
            tr._in_pop = True
            try:
                return orig['pop_level'](tr)
            finally:
                tr._in_pop = False

        T.Tracker.add, T.Tracker.update = add, update
        T.Tracker.push_level, T.Tracker.pop_level = push_level, pop_level

    def drive(self, ops):
        """run `ops` on a fresh real Tracker -> result line in the model driver's format (sans R)"""
        tr = self.T.Tracker()
        self.logs.clear()
        del self.order[:]
        status = 'ok'
        try:
            for o in ops:
                if o[0] == 'A':
                    tr.add(o[1])
                elif o[0] == 'U':
                    tr.update(o[1])
                elif o[0] == 'P':
                    tr.push_level()
                else:
                    tr.pop_level()
        except IndexError:
            status = 'IndexError'
        except Exception as e:                                      # noqa
            status = 'Crash:%s:%s' % (type(e).__name__, str(e)[:60])
        fins = [(dv._pos, dv._raw) for dv in self.order]
        res = {'status': status, 'fins': fins}
        if status == 'ok':
            res['max_vals'] = list(tr.max_vals)
            res['levels'] = [[(idx, dv._pos) for idx, dv in lvl] for lvl in tr.levels]
        self.logs.clear()
        return res

    def compile(self, source, word_size):
        """compile with hidc's API as tests/test_codegen.py does; -> list of harvested sequences
        [{'ops':..., 'fins': [(pos, raw)] in finalisation order}] (one per Tracker instance)"""
        from hidc.lexer import SourceCode
        from hidc.parser import parse
        from hidc.ast import Environment
        from hidc.codegen import CodeGen
        self.logs.clear()
        del self.order[:]
        env = Environment.empty()
        parse(SourceCode.from_string(source)).evaluate(env)
        cg = CodeGen(env, word_size=word_size, stack_size=500, unchecked=False)
        list(cg.gen_lines())
        out = []
        for L in self.logs.values():
            mine = set(id(d) for d in L['dyn'].values())
            fins = [(dv._pos, dv._raw) for dv in self.order if id(dv) in mine]
            out.append({'ops': L['ops'], 'fins': fins})
        self.logs.clear()
        return out


def impl_line(res):
    s = res['status'] + ' F ' + ' '.join('%d:%d' % f for f in res['fins'])
    if res['status'] != 'ok':
        return res['status']
    return s + ' M ' + ' '.join(str(v) for v in res['max_vals']) + ' L ' + \
        '|'.join(' '.join('%d.%d' % e for e in lvl) for lvl in res['levels'])


def normalise(line):
    return ' '.join(line.split())


# ------------------------------------------------------------------------------------ model side
def _stale(out, srcs):
    try:
        t = os.path.getmtime(out)
    except OSError:
        return True
    return any(os.path.getmtime(s) >= t for s in srcs)


def build_model(workdir, log):
    """regenerate Gen/GenTracker.v from REPO, compile the component's cone, extract, build driver"""
    import regen_tracker
    files = regen_tracker.generate(REPO)                       # may raise CannotTranslate
    for rel, text in files.items():
        if write_if_changed(os.path.join(VERIF, rel), text):
            log.append('regenerated ' + rel)
    coq = os.path.join(VERIF, 'coq')
    prev = []
    for f in COQ_FILES:
        src = os.path.join(coq, f)
        if _stale(src + 'o', [src] + prev):
            p = subprocess.run(['timeout', '600', 'coqc', '-Q', '.', 'HidV', f], cwd=coq, capture_output=True, text=True)
            if p.returncode != 0:
                raise RuntimeError('coqc %s failed:\n%s' % (f, (p.stderr or p.stdout)[-1500:]))
            log.append('compiled ' + f)
        prev.append(src + 'o')
    os.makedirs(workdir, exist_ok=True)
    oc = os.path.join(VERIF, 'ocaml')
    for f in ('hidtracker_core.ml', 'hidtracker_core.mli', 'hidtracker.ml'):
        shutil.copy(os.path.join(oc, f), os.path.join(workdir, f))
    p = subprocess.run(['timeout', '300', 'ocamlfind', 'ocamlopt', 'hidtracker_core.mli', 'hidtracker_core.ml',
                        'hidtracker.ml', '-o', 'hidtracker'], cwd=workdir, capture_output=True, text=True)
    if p.returncode != 0:
        raise RuntimeError('ocaml build failed:\n' + (p.stderr or p.stdout)[-1500:])
    return os.path.join(workdir, 'hidtracker')


def model_all(exe, seqs):
    """-> list of (line without the R part, R part)"""
    p = subprocess.run([exe], input=''.join(seq_line(s) + '\n' for s in seqs), capture_output=True, text=True, timeout=900)
    out = p.stdout.split('\n')
    if out and out[-1] == '':
        out.pop()
    if p.returncode != 0 or len(out) != len(seqs):
        raise RuntimeError('model driver failed (%d lines for %d inputs): %s' % (len(out), len(seqs), p.stderr[-500:]))
    res = []
    for line in out:
        head, _, ref = line.partition(' R')
        status = head.split(' ')[0]
        if status != 'ok':
            head = status                                       # what follows an IndexError is meaningless
        res.append((normalise(head), normalise(ref)))
    return res


# ------------------------------------------------------------------------------------ generators
ALPHABET = [('A', 0), ('A', 1), ('A', 2), ('U', 0), ('U', 1), ('U', 2), ('P',), ('Q',)]


def exhaustive(maxlen):
    for n in range(maxlen + 1):
        for t in itertools.product(ALPHABET, repeat=n):
            yield list(t)


def random_bracketed(rng):
    """shaped like one or several function compilations on one Tracker"""
    n = rng.choice([3, 6, 10, 15, 20, 30, 40, 50, MAX_LEN])
    stacklike = rng.random() < 0.6
    ops, depth, cur, saved = [], 0, rng.randrange(0, 6), []
    wa, wu, wp, wq = rng.choice([(2, 6, 2, 2), (4, 4, 2, 2), (1, 8, 1, 1), (3, 3, 3, 3), (6, 2, 2, 2)])
    while len(ops) + depth + 1 < n:
        k = rng.choices('AUPQ', [wa, wu, wp if depth < MAX_DEPTH else 0, wq])[0]
        if k == 'U':
            if stacklike:
                if rng.random() < 0.3 and cur > 0:
                    cur = rng.randrange(0, cur + 1)              # temporaries popped
                cur = min(MAX_VALUE, cur + rng.choice([1, 1, 2, 2, 4, 8]))
                ops.append(('U', cur))
            else:
                ops.append(('U', rng.randrange(MAX_VALUE + 1)))
        elif k == 'A':
            ops.append(('A', cur if stacklike else rng.randrange(MAX_VALUE + 1)))
        elif k == 'P':
            ops.append(('P',))
            saved.append(cur)
            depth += 1
        else:
            if depth > 0:
                depth -= 1
                cur = saved.pop()
                ops.append(('Q',))
            elif rng.random() < 0.35:
                ops.append(('Q',))                               # end of a function: base level popped
                cur = rng.randrange(0, 6)
    ops += [('Q',)] * depth
    if rng.random() < 0.8:
        ops.append(('Q',))
    return ops


def random_arbitrary(rng):
    n = rng.randrange(0, MAX_LEN + 1)
    small = rng.random() < 0.5
    hi = 4 if small else MAX_VALUE
    out = []
    for _ in range(n):
        k = rng.choices('AUPQ', [3, 4, 2, 3])[0]
        out.append((k, rng.randrange(hi + 1)) if k in 'AU' else (k,))
    return out


HELPERS = """
int g(int a, int b) { return a + b; }
int s(const int[] arr) { return arr.length; }
empty h(int[] arr, int k) { int t[k]; if (k > 0) { t[0] = arr[0]; byte u[k]; } }
empty hb(byte[] arr, bool c) { if (c) { int q = arr.length; { int[] w = [q, q]; } } }
"""


class ProgGen:
    """small programs with nested blocks, arrays, VLAs and calls"""

    def __init__(self, rng):
        self.r = rng
        self.n = 0

    def fresh(self, p):
        self.n += 1
        return '%s%d' % (p, self.n)

    def iexpr(self, ints, arrs, depth=2):
        r = self.r
        ch = ['lit', 'lit'] + (['var'] * 2 if ints else []) + (['g', 'g', 'bin'] if depth > 0 else []) + \
             (['s', 'len'] if arrs and depth > 0 else [])
        k = r.choice(ch)
        if k == 'lit':
            return str(r.randrange(0, 9))
        if k == 'var':
            return r.choice(ints)
        if k == 'g':
            return 'g(%s, %s)' % (self.iexpr(ints, arrs, depth - 1), self.iexpr(ints, arrs, depth - 1))
        if k == 'bin':
            return '(%s %s %s)' % (self.iexpr(ints, arrs, depth - 1), r.choice('+-*'), self.iexpr(ints, arrs, depth - 1))
        if k == 's':
            return 's(%s)' % r.choice(arrs)
        return '%s.length' % r.choice(arrs)

    def stmts(self, ints, arrs, barrs, depth, inloop=False):
        r = self.r
        ints, arrs, barrs = list(ints), list(arrs), list(barrs)
        out = []
        for _ in range(r.choice([1, 2, 2, 3, 4])):
            ch = ['int', 'int', 'byte', 'bool', 'lit', 'vla', 'vla', 'write', 'assign']
            if arrs:
                ch += ['callh', 'callh']
            if barrs:
                ch += ['callhb']
            if depth > 0:
                ch += ['block', 'block', 'if', 'if', 'while', 'for']
            k = r.choice(ch)
            if k == 'int':
                v = self.fresh('v')
                out.append('int %s = %s;' % (v, self.iexpr(ints, arrs)))
                ints.append(v)
            elif k == 'byte':
                out.append("byte %s = 'a';" % self.fresh('b'))
            elif k == 'bool':
                out.append('bool %s = %s < 3;' % (self.fresh('c'), self.iexpr(ints, arrs, 1)))
            elif k == 'lit':
                a = self.fresh('a')
                t = r.choice(['int', 'int', 'byte', 'bool'])
                n = r.randrange(0, 5)
                if t == 'int':
                    out.append('int[] %s = [%s];' % (a, ', '.join(self.iexpr(ints, arrs, 1) for _ in range(n))))
                    arrs.append(a)
                elif t == 'byte':
                    out.append('byte[] %s = [%s];' % (a, ', '.join("'x'" for _ in range(n))))
                    barrs.append(a)
                else:
                    out.append('bool[] %s = [%s];' % (a, ', '.join(r.choice(['true', 'false']) for _ in range(n))))
            elif k == 'vla':
                a = self.fresh('a')
                t = r.choice(['int', 'int', 'byte', 'bool'])
                out.append('%s %s[%s];' % (t, a, self.iexpr(ints, arrs, 1)))
                if t == 'int':
                    arrs.append(a)
                elif t == 'byte':
                    barrs.append(a)
            elif k == 'write':
                out.append('write(%s);' % self.iexpr(ints, arrs, 3))
            elif k == 'assign':
                if ints:
                    out.append('%s = %s;' % (r.choice(ints), self.iexpr(ints, arrs, 3)))
            elif k == 'callh':
                if r.random() < 0.5:
                    out.append('h(%s, %s);' % (r.choice(arrs), self.iexpr(ints, arrs, 1)))
                else:
                    out.append('h([%s, %s], %s);' % (self.iexpr(ints, arrs, 1), self.iexpr(ints, arrs, 1), self.iexpr(ints, arrs, 1)))
            elif k == 'callhb':
                out.append('hb(%s, %s < 2);' % (r.choice(barrs), self.iexpr(ints, arrs, 1)))
            elif k == 'block':
                out.append('{ %s }' % self.stmts(ints, arrs, barrs, depth - 1, inloop))
            elif k == 'if':
                s = 'if (%s < %s) { %s }' % (self.iexpr(ints, arrs, 1), self.iexpr(ints, arrs, 1),
                                             self.stmts(ints, arrs, barrs, depth - 1, inloop))
                if r.random() < 0.5:
                    s += ' else { %s }' % self.stmts(ints, arrs, barrs, depth - 1, inloop)
                out.append(s)
            elif k == 'while':
                out.append('while (%s < 2) { %s }' % (self.iexpr(ints, arrs, 1), self.stmts(ints, arrs, barrs, depth - 1, True)))
            elif k == 'for':
                i = self.fresh('i')
                out.append('for (int %s = 0; %s < %s; %s += 1) { %s }'
                           % (i, i, self.iexpr(ints, arrs, 1), i, self.stmts(ints + [i], arrs, barrs, depth - 1, True)))
        return ' '.join(out)

    def program(self):
        r = self.r
        fns = []
        for k in range(r.choice([0, 1, 1, 2])):
            params = r.choice([('int p', ['p'], []), ('int p, int[] pa', ['p'], ['pa']), ('int[] pa, byte pb, int p', ['p'], ['pa']),
                               ('', [], [])])
            fns.append('empty f%d(%s) { %s }' % (k, params[0], self.stmts(params[1], params[2], [], r.choice([1, 2, 3]))))
        main = 'empty @is_you() { %s }' % self.stmts([], [], [], r.choice([1, 2, 3, 4]))
        return HELPERS + '\n'.join(fns) + '\n' + main + '\n'


# ------------------------------------------------------------------------------------ shrinking
def shrink(differs, ops, budget=600):
    cur, steps, progress = list(ops), 0, True
    while progress and steps < budget:
        progress = False
        cands = [cur[:i] + cur[i + 1:] for i in range(len(cur))]
        for i, o in enumerate(cur):
            if len(o) > 1 and o[1] > 0:
                for v in sorted(set([0, o[1] // 2, o[1] - 1])):
                    cands.append(cur[:i] + [(o[0], v)] + cur[i + 1:])
        for c in cands:
            steps += 1
            if differs(c):
                cur, progress = c, True
                break
            if steps >= budget:
                break
    return cur


def shape(ops, hist, origin):
    hist['origin:' + origin] += 1
    n = len(ops)
    hist['length:%s' % ('0' if n == 0 else '1-5' if n <= 5 else '6-15' if n <= 15 else '16-30' if n <= 30 else '31-60' if n <= 60 else '>60')] += 1
    depth = mx = base_pops = adds = 0
    live = []           # values currently in max_vals (by the spec: running maxima), for shape only
    stale = ties = noop = False
    levels = [[]]
    for o in ops:
        if o[0] == 'A':
            adds += 1
            if any(x > o[1] for l in levels for x in l):
                stale = True                                     # inserted BELOW a live entry: older indices shift
            if any(x == o[1] for l in levels for x in l):
                ties = True                                      # bisect_left / bisect_right differ here
            levels[-1].append(o[1])
        elif o[0] == 'U':
            if all(x >= o[1] for l in levels for x in l):
                noop = True
            if any(x == o[1] for l in levels for x in l):
                ties = True
            levels = [[max(x, o[1]) for x in l] for l in levels]
        elif o[0] == 'P':
            depth += 1
            mx = max(mx, depth)
            levels.append([])
        else:
            if depth == 0:
                base_pops += 1
            else:
                depth -= 1
            levels.pop()
            if not levels:
                levels = [[]]
    hist['max_depth:%d' % min(mx, 6)] += 1
    hist['adds:%s' % (str(adds) if adds <= 3 else '4-9' if adds <= 9 else '>=10')] += 1
    hist['base_level_pops:%s' % (str(base_pops) if base_pops <= 2 else '>=3')] += 1
    hist['open_levels_at_end:%s' % ('0' if depth == 0 else '>0')] += 1
    if origin.startswith('harvested'):
        hist['%s:adds:%s' % (origin, str(adds) if adds <= 3 else '>=4')] += 1
        if stale:
            hist['%s:add_below_live_entry(index shift)' % origin] += 1
    if stale:
        hist['feature:add_below_live_entry(index shift)'] += 1
    if ties:
        hist['feature:tie_with_live_entry'] += 1
    if noop:
        hist['feature:update_not_raising_anything'] += 1
    return adds > 0 and any(o[0] == 'Q' for o in ops)


# ------------------------------------------------------------------------------------ entry point
def run(tier='quick', seed=0, workdir=None, exe=None):
    t0 = time.time()
    own = workdir is None
    workdir = workdir or os.path.join(VERIF, '.work', 'tracker', 'corr-%d' % os.getpid())
    os.makedirs(workdir, exist_ok=True)
    rng = random.Random(seed)
    log = []
    result = {'evaluations': 0, 'distinct_nontrivial': 0, 'samples': [], 'disagreements': [], 'exhaustive': False,
              'distribution': {}, 'rule': '', 'tier': tier, 'seed': seed, 'repo': REPO}
    try:
        try:
            if exe is None:
                exe = build_model(workdir, log)
            else:
                log.append('model driver given: ' + exe)
        except CannotTranslate as e:
            result['disagreements'].append({'input': 'tools/regen_tracker.py', 'model': 'CannotTranslate: %s' % e, 'impl': REPO})
            return result
        except RuntimeError as e:
            result['disagreements'].append({'input': 'model build', 'model': str(e), 'impl': REPO})
            return result
        try:
            H = Harness()
        except Exception as e:                                     # noqa
            result['disagreements'].append({'input': 'import hidc.codegen.tracker', 'model': 'builds',
                                            'impl': '%s: %s' % (type(e).__name__, e)})
            return result

        quick = tier == 'quick'
        tests = []                                                  # (origin, ops, in-situ fins or None, source or None)
        for ops in exhaustive(5 if quick else 6):
            tests.append(('exhaustive', ops, None, None))
        n_ex = len(tests)
        for _ in range(6000 if quick else 120000):
            tests.append(('random-bracketed', random_bracketed(rng), None, None))
        for _ in range(3000 if quick else 60000):
            tests.append(('random-arbitrary', random_arbitrary(rng), None, None))
        # harvested from real compilations
        hist = collections.Counter()
        sources = []
        compile_errors = []
        for f in sorted(glob.glob(os.path.join(REPO, 'examples', '*.hid'))):
            with open(f, encoding='utf-8') as fh:
                sources.append(('example:' + os.path.basename(f), fh.read(), 2))
        pg = ProgGen(rng)
        for k in range(200 if quick else 2500):
            sources.append(('generated:%d' % k, pg.program(), rng.choice([2, 2, 3, 4, 8])))
        for name, src, w in sources:
            kind = name.split(':')[0]
            try:
                seqs = H.compile(src, w)
            except Exception as e:                                  # noqa
                hist['compile:%s:failed:%s' % (kind, type(e).__name__)] += 1
                if isinstance(e, IndexError):
                    compile_errors.append({'input': src, 'model': 'no IndexError (theorem no_index_error)',
                                           'impl': 'IndexError while compiling %s (word size %d)' % (name, w),
                                           'kind': 'compilation', 'shrunk': False})
                continue
            hist['compile:%s:ok' % kind] += 1
            for s in seqs:
                tests.append(('harvested-' + kind, s['ops'], s['fins'], src if kind == 'generated' else name))

        seqs = [t[1] for t in tests]
        model = model_all(exe, seqs)
        seen = set()
        nontrivial = 0
        dis = []

        def check(ops, insitu=None):
            """-> None or a disagreement dict (without shrinking)"""
            m, ref = model_all(exe, [ops])[0]
            return compare(ops, m, ref, insitu)

        def compare(ops, m, ref, insitu):
            res = H.drive(ops)
            il = normalise(impl_line(res))
            if il != m:
                return {'kind': 'model vs implementation', 'model': m, 'impl': il}
            if m.startswith('ok') and normalise(m.split(' M')[0].split(' F', 1)[1]) != ref:
                return {'kind': 'model vs reference model (contradicts run_refines_spec)', 'model': m, 'impl': 'reference: ' + ref}
            if res['status'] == 'ok':
                want = spec_future_max(ops)
                got = {}
                for i, x in res['fins']:
                    if i in got:
                        return {'kind': 'finalised twice', 'model': 'spec: once', 'impl': il}
                    got[i] = x
                if got != want:
                    return {'kind': 'theorem statement (future max) vs implementation',
                            'model': 'spec: ' + json.dumps(sorted(want.items())), 'impl': json.dumps(sorted(got.items()))}
            if insitu is not None and res['fins'] != list(insitu):
                return {'kind': 'replayed vs in-situ finalisations', 'model': m, 'impl': 'in situ: %r' % (insitu,)}
            return None

        for idx, (origin, ops, insitu, src) in enumerate(tests):
            nt = shape(ops, hist, origin)
            key = sha(seq_text(ops))
            if key not in seen:
                seen.add(key)
                if nt:
                    nontrivial += 1
            d = compare(ops, model[idx][0], model[idx][1], insitu)
            if d is not None:
                dis.append((idx, d))
        result['evaluations'] = len(tests)
        result['distinct_nontrivial'] = nontrivial
        result['exhaustive'] = True
        result['enumerated'] = n_ex
        result['rule'] = ('non-trivial = the sequence has at least one add and one pop_level.  Exhaustive part: every '
                          'sequence over {add 0/1/2, update 0/1/2, push_level, pop_level} of length <= %d.  Random part: '
                          'well-bracketed compilation-shaped sequences (depth <= %d, length <= %d, values 0..%d) and '
                          'arbitrary sequences.  Harvested part: the sequences produced by compiling the example programs '
                          'and %d generated programs with the real code generator (one sequence per function).  Compared: '
                          'IndexError or not, finalisations in order (raw values), final max_vals and levels; plus the '
                          'statement of finalized_is_future_max on the real Tracker\'s results.'
                          % (5 if quick else 6, MAX_DEPTH, MAX_LEN, MAX_VALUE, len(sources) - len(glob.glob(os.path.join(REPO, 'examples', '*.hid')))))
        result['distribution'] = dict(sorted(hist.items()))
        picks = [rng.randrange(n_ex, len(tests)) for _ in range(4)] + [i for i, t in enumerate(tests) if t[0].startswith('harvested')][:3]
        for i in picks:
            result['samples'].append({'origin': tests[i][0], 'input': seq_text(tests[i][1]), 'model': model[i][0],
                                      'impl': normalise(impl_line(H.drive(tests[i][1])))})
        result['disagreement_count'] = len(dis) + len(compile_errors)
        reported = set()
        for idx, d in dis[:12]:
            if len(reported) >= 6:
                break
            small = shrink(lambda c: check(c) is not None, tests[idx][1])
            if seq_text(small) in reported:
                continue                                            # same minimal input again
            reported.add(seq_text(small))
            d2 = check(small) or d
            entry = {'input': seq_text(small), 'original_input': seq_text(tests[idx][1]), 'origin': tests[idx][0]}
            entry.update(d2)
            if tests[idx][3]:
                entry['source'] = tests[idx][3]
            result['disagreements'].append(entry)
        for idx, d in dis[12:40]:
            entry = {'input': seq_text(tests[idx][1]), 'origin': tests[idx][0], 'shrunk': False}
            entry.update(d)
            result['disagreements'].append(entry)
        result['disagreements'] += compile_errors[:5]
        return result
    finally:
        result['log'] = log
        result['seconds'] = round(time.time() - t0, 1)
        if own:
            shutil.rmtree(workdir, ignore_errors=True)


if __name__ == '__main__':
    ap = argparse.ArgumentParser()
    ap.add_argument('--tier', default=os.environ.get('VERIF_TIER', 'quick'), choices=['quick', 'thorough'])
    ap.add_argument('--seed', type=int, default=int(os.environ.get('VERIF_SEED', '0')))
    ap.add_argument('--workdir', default=None)
    ap.add_argument('--full', action='store_true', help='print the whole result as JSON')
    ap.add_argument('--exe', default=None, help='use this prebuilt model driver instead of regenerating and building '
                    '(experiments only: compares the implementation with a model built from another tree)')
    a = ap.parse_args()
    r = run(a.tier, a.seed, a.workdir, a.exe)
    if a.full:
        print(json.dumps(r, indent=1))
    else:
        brief = {k: r[k] for k in ('evaluations', 'distinct_nontrivial', 'exhaustive', 'seconds') if k in r}
        brief['enumerated'] = r.get('enumerated')
        brief['disagreements'] = r.get('disagreement_count', len(r['disagreements']))
        print(json.dumps(brief))
        print(json.dumps(r['distribution'], indent=1))
        for d in r['disagreements'][:6]:
            print('DISAGREEMENT (%s)' % d.get('kind', ''))
            print('  input   :', d['input'][:600])
            print('  model   :', d['model'])
            print('  impl    :', d['impl'])
    sys.exit(1 if r['disagreements'] else 0)
