"""Run the registered checks against every seeded change under /verif/seeded (each applied to a
scratch worktree of /repo, never to /repo itself) and record the outcome in its meta.json."""
import json, os, re, subprocess, sys, time
VERIF = os.path.abspath(os.path.join(os.path.dirname(os.path.abspath(__file__)), '..'))
NEEDS = {
 'C01': 'a mutable global read as the left operand while the right operand calls a function that assigns it (evaluation order)',
 'C01b': 'a stack bool array literal with >= 9 elements and a non-literal element at index >= 8',
 'C02': '`>` with equal operands on a branch whose false side leads to defeat inside a try',
 'C02b': 'a preempt inside a defeat function called from try/stop with unavoidable defeat',
 'C03': 'a loop inside a try/stop body left by break/continue, then defeat later in the same try',
 'C03b': 'a non-zero int cast to bool in value position',
 'C04': 'a frame whose deepest slot is a byte/bool and a stack one word below the minimum that succeeds',
 'C04b': 'a byte VLA with a negative length',
 'C05': 'a defeat function whose only preempt is in an else branch, returning into unavoidable defeat',
 'C05b': 'a constant index equal to a constant array length',
 'C06': 'a you-call or ?? nested under a non-call node in the left operand of ??',
 'C06b': 'a you-call in the right operand of ??',
 'C07': 'a local declared twice where a global of the same name exists',
 'C07b': 'arithmetic on a non-shrinkable constant assigned to a byte',
 'C08': 'defeat raised inside a called defeat function and caught by stop, then a stack array allocated',
 'C08b': 'a scope exit / break / return releasing two or more stack arrays at once',
 'C09': 'a negative run-time int cast with `is bool` in value position',
 'C09b': '`c >= c` on two equal compile-time constants',
 'C10': 'a constant `%` whose right operand folds to zero',
 'C10b': 'an error raised during code generation (output file opened too early)',
 'C11': 'a prefix operator directly followed by `operand is TYPE`',
 'C11b': '`==`/`!=` mixed with `<`-family operators without parentheses',
 'C12': 'a decimal literal with a leading zero followed by a non-zero digit',
 'C12b': 'exactly the escape \\u{10FFFF}',
 'C13': 'two constant bool arrays with the same packed bytes but different lengths in one program',
 'C13b': 'a byte below 0x10 in a string/char constant',
 'C14': '-m 24/32 with constant arithmetic whose exact result is outside -32768..32767',
 'C14b': '`E and C` / `E or C` where C folds to the deciding constant and E has side effects',
 'C15': '--unchecked plus a preempt inside a defeat function reached with virtual defeat',
 'C16': 'a try body whose only defeat comes from a defeat call inside an expression',
 'C16b': 'an `if` on a const bool that is false, with a returning body',
 'C17': 'write(int) of a maximum-digit value with the stack filled to the byte and an array on top',
 'C17b': 'write/writeln of a mutable byte array of run-time length 0',
 'C18': 'an array literal mixing an int literal and a byte value, under certain PYTHONHASHSEEDs',
 'C18b': '-m 24/40/48/56 and an int[] / string[] element at index >= 1',
 # second round (different character: cooperating sites, optimisations, configuration, aliasing, stdlib)
 'C01c': 'a non-const global left operand with a byte-returning (cast-wrapped) callee that assigns it',
 'C01d': '-m24 only: int/string array elements at index >= 1 (shift instead of multiply)',
 'C02c': '`local ?? computed` in a context whose output register is r1',
 'C02d': 'defeat reached inside a defeat function owning a local array, caught by stop, repeated in a loop',
 'C03c': '`return !f(...)` inside a try/stop body where f reaches defeat',
 'C03d': 'try/undo whose only defeat calls are nested in expressions (two cooperating sites)',
 'C04c': '`buf[g] = f()` on a byte[] where g is a global that f modifies',
 'C04d': 'a const bool[] and a const byte[] table with equal literal values in one program',
 'C05c': 'a constant negative index into an array of literal length',
 'C05d': 'two divisions by the same non-const global in one function, zero at the second',
 'C08c': 'two try/stop blocks in one you-function with another you-function call between them',
 'C08d': 'try/stop whose body allocates no array but whose callee does and is defeated',
 'C09c': '`!truth_is_defeat(not (a < b))` with equal operands',
 'C09d': '`(x is bool) == true` with x outside {0,1}',
 'C13c': 'both quote characters in different constants of one compilation (memoised escape ignoring the quote)',
 'C13d': 'a stack bool[] literal with an aligned group of eight false elements over dirty stack bytes',
 'C14c': '`E and false` / `E or true` with a run-time E that has effects or faults',
 'C14d': 'a constant negative index into a constant string',
 'C15c': '--unchecked: an array literal whose later element evaluation allocates array space',
 'C15d': '--unchecked: preempt in a defeat function reached with virtual defeat before it returns',
 'C16c': 'a try body whose only defeat call sits inside an expression',
 'C16d': 'a user overload of all_is_broken / !is_defeat with arguments called as the last statement',
 'C17c': 'write of the most negative integer',
 'C17d': 'converting a non-literal string held in r1 to const byte[]',
 # third round (front-end properties)
 'C06e': 'a you-call or nested ?? in the left operand of ?? hidden under an index / array literal / is cast / .length',
 'C06f': 'a you-call or nested ?? inside parentheses in the left operand of ?? (memoised parenthesised groups)',
 'C07e': '.length of a string literal or const string where a byte is wanted (folded to a shrinkable literal)',
 'C07f': 'a global named x plus two mutually visible local declarations of x',
 'C10e': 'a CodeGenError raised while generating function bodies (output file already opened)',
 'C10f': 'a constant out-of-range index into a string literal or const string',
 'C11e': 'two identical consecutive unary - or not operators',
 'C11f': 'a comparison whose left operand is itself a comparison (with or without parentheses)',
 'C12e': 'a raw vertical tab / form feed / U+0085 / U+2028 in a comment or literal (splitlines)',
 'C12f': 'a decimal literal with a leading zero followed by a non-zero digit',
 'C18e': 'an array literal mixing int constants and bytes, under certain PYTHONHASHSEEDs',
 'C18f': '-m24/40/48/56 and an index >= 1 into an int[] or string[]',
 # fourth round (all properties; asked for narrow feature combinations)
 'C01g': 'a non-const array literal with constant elements evaluated more than once and written through (hoisted to static data)',
 'C02g': 'a preempt inside a (recursive) defeat function under try/stop with unavoidable defeat (forcing check dropped)',
 'C03g': 'a defeat function generated before the first try/stop and later called under one (generation-order dependent)',
 'C04g': '`buf[g] = f()` on a byte[] indexed by a bare mutable global that f changes (index re-read after the check)',
 'C05g': '-m24 and wider: an int/string VLA length whose byte size wraps to a small number',
 'C06g': 'a global initialiser or global array length that names another global',
 'C07g': 'no exact overload match, two viable overloads, caller declared between them (or inside the second)',
 'C08g': 'defeat raised in a called defeat function owning dynamic arrays, caught by stop (ap loaded through the callee fp)',
 'C09g': '`x is byte` as a branch condition with x a non-zero multiple of 256',
 'C10g': 'a CodeGenError from a global (e.g. `int n = s.length;`, oversized global array) now raised lazily inside gen_lines',
 'C11g': '`not E is T` (unary not directly followed by an is-cast)',
 'C12g': 'a decimal literal with a leading zero (007, 0_7, 0123)',
 'C13g': 'a byte 0x00-0x0f followed by a hex digit character in a string/char constant (one-digit \\x escapes)',
 'C14g': '`E and false` / `E or true` with a run-time E that has output or faults',
 'C15g': '--unchecked: a preempt inside a defeat function called under try/stop whose defeat is real',
 'C16g': 'try/undo|stop whose body is `return !f(x);` (defeat only inside an expression) and a handler that completes',
 'C17g': 'write(string) of an empty/exhausted string on a speculative path that ends in halt (loop-head guard removed)',
 'C18g': 'an array literal mixing an int literal and a byte variable used for indexing / overload choice, under some PYTHONHASHSEEDs',
 # fifth round
 'C01h': 'a computed value assigned to a non-const byte/bool global with other globals laid out after it (word-wide in-place write)',
 'C02h': '`local ?? computed` evaluated into r1 (right operand no longer spilled)',
 'C03h': '`g is bool` on a mutable int global in value position while the result register holds a stale value >= 2',
 'C04h': 'a frame whose deepest slot is byte-sized and a stack exactly one word below the true minimum (byte slot not counted)',
 'C05h': 'plain `b[i] = e` on a byte[] with an out-of-range index and a right-hand side that prints or faults (guard after the RHS)',
 'C06h': 'a defeat call / preempt inside an undo/stop handler (wrong accept) or a you-call / try / ?? inside a handler (wrong reject)',
 'C07h': 'a local/parameter/loop variable redeclared or shadowed locally while a global of the same name exists',
 'C08h': 'a loop body declaring an array, then try/undo whose body always breaks/returns and is defeated only inside an expression',
 'C09h': 'value-position `<`-family comparison of a byte with an int within 255 of the word minimum (branch-free lowering)',
 'C10h': 'an overloaded / twice-instantiated function F next to a function literally named F_1 (duplicate label)',
 'C11h': 'two adjacent, different prefix operators (`not -x`, `+-x`)',
 'C12h': 'the escape \\x00 in a string or character literal',
 'C13h': 'two constant arrays with equal item values but different element width (int[] vs byte[] vs packed bool[]) in one program',
 'C14h': 'a constant negative index (-len..-1) into a constant string (folded with Python indexing)',
 'C15h': '--unchecked: `a[i] == b[i]` / `h * 31 + s[i]` on strings (left operand in r0 not spilled around the length load)',
 'C16h': 'a user overload of all_is_win / all_is_broken with arguments, called as the last statement',
 'C17h': 'write/writeln of `e is bool` where e is a non-zero int with a zero low byte',
 'C18h': '-m24/40/48/56 with two run-time-sized int[]/string[] arrays live at once (shift instead of multiply)',
 # sixth round
 'C01i': '`a[i] op= e` on an array allocated in the current function where e writes a[i] through another reference',
 'C02i': '`local ?? computed` evaluated into r1 (same shape as C02h, found independently)',
 'C03i': '`continue` in a loop inside a try/stop body of a you-function, then defeat later in the same try',
 'C04i': '16-bit: a global bool array of more than 32767 elements indexed with a negative input',
 'C05i': '`buf[(E) is byte] = …` / `int a[(E) is byte]` with E in a register or mutable global and outside 0..255',
 'C06i': 'a you-call or nested ?? underneath an `is` cast inside a ?? operand',
 'C07i': '.length of a string literal / const string where a byte is wanted or deciding an overload (folded to a shrinkable literal)',
 'C08i': 'two you-functions with try/stop (or recursion) active between function entry and the defeated try (try_fp hoisted to the prologue)',
 'C09i': 'a computed left operand and a right operand containing a comparison of plain operands (`(a<b) == (c<d)`, `(a+b) * ((c<d) is int)`)',
 'C10i': 'a parser diagnostic whose offending token is a string literal with bytes that are not valid UTF-8',
 'C11i': 'a comparison/equality whose left operand is a comparison (`(a < 0) == (b < 0)`, `a == b == c`)',
 'C12i': 'a raw VT / FF / U+001C-1E / NEL / U+2028 / U+2029 inside a comment or literal of a source FILE (splitlines in from_file)',
 'C13i': 'two constant bool arrays with the same packed bytes but different lengths within one 8-block',
 'C14i': '`0 / x` / `0 % x` with a run-time x that is 0 (folded to 0)',
 'C15i': '--unchecked: a preempt inside a defeat function reached from try/stop whose body is really defeated',
 'C16i': 'a user overload of all_is_win / all_is_broken / !is_defeat with arguments that returns, called in statement position',
 'C17i': 'write/writeln of `n is bool` with n non-zero and a zero low byte',
 'C18i': 'two different programs compiled in ONE process, the first defining an overload of a builtin name',
 # seventh round (asked for three-ingredient changes)
 'C01j': 'two constant all-literal bool arrays differing only by trailing false elements within one packed byte (shared by directive text)',
 'C02j': 'a try body whose only defeat source is a defeat call in an if/while/for condition, a handler that exits differently, code after the try',
 'C03j': 'break/continue of a loop nested inside a try/stop body, then defeat later in the same try (defeat word reset)',
 'C04j': '`bytearr[g] = f()` where every assignment to the global g sits in a for-loop increment clause',
 'C05j': 'a global/literal array of >= 256 elements indexed by byte arithmetic (`c + 1`) that leaves 0..length-1',
 'C06j': 'a you-call or nested ?? under an `is` cast in the LEFT operand of ??',
 'C07j': 'an array literal with a byte element first, then a byte-coercible int, then a non-coercible int (first-of-each-type inference)',
 'C08j': 'a while loop as the last statement of a block that owns arrays, with an array declared in the loop body',
 'C09j': '`x is byte` as a truth value (if/while/and/or/not/defeat argument) with x a non-zero multiple of 256',
 'C10j': '--unchecked: `/` or `%` with an immediate dividend and the .length of a zero-length global array or empty literal as divisor',
 'C11j': 'more than 256 identical + or * operators in a row preceded on the same level by - or / or %',
 'C12j': 'about 940-1000 consecutive blank or comment-only lines (recursive skip_whitespace)',
 'C13j': 'a constant bool array indexed by a constant index with idx % 8 != 0, consumed by ==, is int, not, or an array literal',
 'C14j': '`E and false` / `E or true` (also via const variables) with a call-free E containing / % or an index that faults at run time',
 'C15j': '--unchecked: a string literal / const string element as the right operand with a computed left operand',
 'C16j': 'a while(true) whose body cannot complete and whose only continue sits inside a bare nested block, last in its function',
 'C17j': 'a string constant whose escaped text exceeds 72 characters with a \\xNN escape straddling a wrap position (.ascii lines wrapped)',
 'C18j': '--lint with `all_is_broken(); return <value>;` at the end of a block (statement kept only when linting)',
 # eighth round (agents converge on shapes seen before: most are independent rediscoveries)
 'C01k': '`bytearr[g] = f()` with a bare mutable global index that f changes (index re-read after the check; same shape as C04g)',
 'C02k': 'try/undo whose body is `int d = !f(n); ...; return;` (defeat only inside an expression), handler falls through, code follows',
 'C03k': 'break/continue of a loop nested in a try/stop body, then defeat later in the same try (same shape as C03i/C03j)',
 'C04k': '`bytearr[g] = f()` with a bare mutable global index that f changes',
 'C05k': '`0 / x` / `0 % x` with a bare int variable x that is zero at run time',
 'C06k': 'a global initialiser or array length naming another global (same shape as C06g)',
 'C07k': 'unary + on a byte-typed variable (or a substituted const int) where a byte is required',
 'C08k': 'a block declaring an array that directly contains `preempt { continue; }` (or break/return) and falls off its end',
 'C09k': '`(x is byte) / 2` or `% 7` narrowed again to byte, with x outside 0..255',
 'C10k': 'a constant index below -len into a string literal / const string (uncaught IndexError)',
 'C11k': 'any `??` expression inside a while/for body of a you-function (context equality instead of containment)',
 'C12k': '`\\u{...}` zero-padded to seven or more hex digits',
 'C13k': 'two constant bool arrays with equal packed bytes and different lengths (same shape as C13i/C01j)',
 'C14k': 'a constant index in -len..-1 into a string literal or an all-constant array literal',
 'C15k': 'checked build: computed left operand in r0 and `"literal"[variable]` as right operand (length load moved under the guard)',
 'C16k': 'a user overload of all_is_win / all_is_broken with arguments, called at statement level (same shape as C16h/i)',
 'C17k': 'two const array literals of different element type with equal values (pooled by values only)',
 'C18k': 'an array literal mixing a byte element and int literals, used untyped, under some PYTHONHASHSEEDs (same shape as C18/C18g)',
}
ALSO = {'C01d': ['C18'], 'C04c': ['C01'], 'C04d': ['C13'], 'C14c': [], 'C13c': ['C10'], 'C16d': ['C03'], 'C17d': ['C01'], 'C09c': ['C02'], 'C09d': ['C01'], 'C18b': ['C01'], 'C17': ['C04'], 'C15': ['C02'], 'C09b': ['C14'], 'C07b': [], 'C16': ['C03']}


def run(seed):
    d = os.path.join(VERIF, 'seeded', seed)
    pid = seed[:3]
    wt = '/tmp/seedrun/sc%d' % os.getpid()
    os.makedirs('/tmp/seedrun', exist_ok=True)
    subprocess.run(['git', '-C', '/repo', 'worktree', 'add', '-q', '--detach', wt, 'HEAD'], check=True)
    res = {}
    try:
        ap = subprocess.run(['git', 'apply', os.path.join(d, 'patch.diff')], cwd=wt)
        if ap.returncode != 0:
            return {'error': 'patch does not apply to the current /repo HEAD'}
        t = subprocess.run(['/venv/bin/python', '-m', 'pytest', '-q', '-p', 'no:cacheprovider', '--timeout=900', '--continue-on-collection-errors', 'tests'],
                           cwd=wt, stdout=subprocess.PIPE, stderr=subprocess.STDOUT).stdout.decode().strip().splitlines()[-1]
        res['baseline_tests_with_patch'] = re.sub(r' in [0-9.]+s', '', t)
        for c in [pid] + ALSO.get(seed, []):
            t0 = time.time()
            p = subprocess.run(['./check', c, '--tier', 'quick'], cwd=VERIF, env=dict(os.environ, HIDC_REPO=wt), stdout=subprocess.PIPE, stderr=subprocess.STDOUT)
            out = p.stdout.decode().splitlines()
            viol = [l for l in out if l.startswith('VIOLATION')]
            res[c] = {'exit': p.returncode, 'line': viol[0] if viol else None, 'summary': out[-1] if out else '', 'wall_s': round(time.time() - t0, 1)}
    finally:
        subprocess.run(['git', '-C', '/repo', 'worktree', 'remove', '--force', wt])
        subprocess.run(['git', '-C', VERIF, 'checkout', '-q', '--', 'evidence', 'coq/Gen'])
    return res


def main():
    seeds = sys.argv[1:] or sorted(os.listdir(os.path.join(VERIF, 'seeded')))
    for s in seeds:
        r = run(s)
        meta = {'seed': s, 'breaks_property': s[:3], 'needs_to_manifest': NEEDS.get(s, ''), 'source': 'independent sub-agent given only the property text and a scratch worktree',
                'ran': 'tools/seedcheck.py %s  (git apply in a scratch worktree of /repo; baseline tests; HIDC_REPO=<worktree> ./check <id> --tier quick)' % s,
                'result': r, 'detected_by': [c for c, v in r.items() if isinstance(v, dict) and v.get('exit') == 1]}
        json.dump(meta, open(os.path.join(VERIF, 'seeded', s, 'meta.json'), 'w'), indent=1)
        print(s, meta['detected_by'], r.get('baseline_tests_with_patch'))


if __name__ == '__main__':
    main()
