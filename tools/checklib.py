"""The check pipeline shared by all properties (DESIGN §2.3).

  1 regen      translators -> coq/Gen/*.v        (fail closed: CannotTranslate = broken obligation)
  2 prove      make the property's Props/*.vo cone; parse Print Assumptions
  3 correspond component correspondences (model vs implementation)
  4 search     behavioural sweep: real hidc output on the verified VM vs the specification
  5 classify   failing inputs against known_findings.jsonl
  6 report     evidence/<id>.json, KNOWN-FINDING / VIOLATION lines, exit status
"""
import fcntl, glob, importlib, json, os, random, re, subprocess, sys, time, traceback

HERE = os.path.dirname(os.path.abspath(__file__))
sys.path.insert(0, HERE)
from common import VERIF, REPO, CannotTranslate, sha

COQ = os.path.join(VERIF, 'coq')
os.environ.setdefault('PYTHONHASHSEED', '0')
os.environ['PYTHONPATH'] = REPO + os.pathsep + HERE
os.environ.setdefault('PIP_NO_INDEX', '1')
if REPO not in sys.path:
    sys.path.insert(0, REPO)

TRUSTED_COMMON = [
    'Coq 8.16.1 kernel (coqc); vm_compute is used for finite sweeps/tables; native_compute is not used',
    'extraction: ExtrOcamlBasic only (no Extract Constant/Inductive of our own); Z/N/positive/nat stay inductive; ocamlfind ocamlopt 4.13.1; thin drivers ocaml/*.ml',
    'Sphinx ISA model coq/Sphinx/Machine.v (A-ISA: taken from README/asm.py/stdlib.py, validated on the 52 upstream tests/test_codegen.py expectations; A-DIV: floor div/mod)',
    'tools/sasm.py strict assembler front end (text -> memory image); tools/regen*.py translators (ast-based, fail closed)',
]


class Lock:
    def __init__(self, name='build'):
        self.path = os.path.join(VERIF, '.work', name + '.lock')

    def __enter__(self):
        os.makedirs(os.path.dirname(self.path), exist_ok=True)
        self.f = open(self.path, 'w')
        fcntl.flock(self.f, fcntl.LOCK_EX)
        return self

    def __exit__(self, *a):
        fcntl.flock(self.f, fcntl.LOCK_UN)
        self.f.close()


REGEN_MODULES = ['regen', 'regen_parser', 'regen_lexer', 'regen_context', 'regen_exit', 'regen_types']


def regen_all():
    """Run every translator.  -> (changed, failed: {rel: str})"""
    changed, failed = [], {}
    from common import write_if_changed
    for modname in REGEN_MODULES:
        if not os.path.exists(os.path.join(HERE, modname + '.py')):
            continue
        try:
            mod = importlib.import_module(modname)
        except Exception as e:     # translator itself broken: fail closed for all its files
            failed[modname] = 'translator failed to load: %r' % e
            continue
        gens = getattr(mod, 'GENERATORS', None)
        if gens is None:
            try:
                out = mod.generate(REPO)
                gens = {rel: (lambda root, t=text: t) for rel, text in out.items()}
            except CannotTranslate as e:
                failed[modname] = str(e)
                continue
            except Exception as e:
                failed[modname] = 'translator crashed: %r' % e
                continue
        for rel, fn in gens.items():
            try:
                text = fn(REPO)
            except CannotTranslate as e:
                failed[rel] = str(e)
                continue
            except Exception as e:
                failed[rel] = 'translator crashed: %r' % e
                continue
            if write_if_changed(os.path.join(VERIF, rel), text):
                changed.append(rel)
    return changed, failed


def ensure_makefile():
    mk = os.path.join(COQ, 'Makefile')
    cp = os.path.join(COQ, '_CoqProject')
    if not os.path.exists(mk) or os.path.getmtime(mk) < os.path.getmtime(cp):
        subprocess.run(['coq_makefile', '-f', '_CoqProject', '-o', 'Makefile'], cwd=COQ, check=True,
                       stdout=subprocess.DEVNULL, stderr=subprocess.DEVNULL)


def coq_build(targets, timeout=1500):
    """make the given .vo targets.  -> (ok, output)"""
    ensure_makefile()
    # Print Assumptions output is only produced when the file is compiled: force Props files
    for t in targets:
        p = os.path.join(COQ, t)
        if os.path.exists(p):
            os.remove(p)
    try:
        p = subprocess.run(['timeout', str(timeout), 'make', '-j16'] + targets, cwd=COQ,
                           stdout=subprocess.PIPE, stderr=subprocess.STDOUT, timeout=timeout + 30)
        return p.returncode == 0, p.stdout.decode(errors='replace')
    except subprocess.TimeoutExpired as e:
        return False, 'TIMEOUT\n' + (e.stdout or b'').decode(errors='replace')


def parse_assumptions(props_v):
    """Compile-free: list theorem names in a Props file."""
    with open(props_v) as f:
        src = f.read()
    return re.findall(r'^\s*(?:Theorem|Corollary|Lemma)\s+([A-Za-z0-9_\']+)', src, re.M) + re.findall(r'^Definition\s+(C\d\d_[A-Za-z0-9_]+)\s*:=\s*@P_', src, re.M)


def assumptions_from_output(out):
    """-> list of axiom blocks printed by Print Assumptions ('Closed under the global context' = none)."""
    closed = out.count('Closed under the global context')
    axioms = re.findall(r'Axioms:\n((?:.+\n)+?)(?=\S|\Z)', out)
    return closed, axioms


def grep_forbidden():
    bad = []
    pat = re.compile(r'\b(Admitted|admit|Axiom|Parameter|Conjecture|Abort All)\b|Unset Guard|bypass_check|Admit Obligations|-type-in-type')
    for p in glob.glob(os.path.join(COQ, '**', '*.v'), recursive=True):
        with open(p) as f:
            src = re.sub(r'\(\*.*?\*\)', '', f.read(), flags=re.S)
        for i, line in enumerate(src.splitlines(), 1):
            if pat.search(line):
                bad.append('%s:%d: %s' % (os.path.relpath(p, VERIF), i, line.strip()[:80]))
    return bad


# ---------------------------------------------------------------- known findings
def load_known():
    """known_findings.txt -> list of dicts (status known|fixed)."""
    p = os.path.join(VERIF, 'known_findings.txt')
    out = []
    if os.path.exists(p):
        for line in open(p):
            line = line.strip()
            if line.startswith('known:'):
                head, _, what = line[6:].partition('::')
                d = dict(kv.split('=', 1) for kv in head.split())
                out.append({'status': 'known', 'property': d.get('property'), 'id': d.get('id'), 'class': d.get('class'), 'what': what.strip()})
            elif line.startswith('fixed:'):
                parts = line[6:].split(None, 2)
                out.append({'status': 'fixed', 'property': parts[0].split('=')[1], 'commit': parts[1], 'what': parts[2] if len(parts) > 2 else ''})
    return out


class Ctx:
    """Everything a property module needs."""
    def __init__(self, pid, tier, seed):
        self.pid = pid
        self.tier = tier
        self.seed = seed
        self.rng = random.Random(seed)
        self.work = os.path.join(VERIF, '.work', '%s-%d' % (pid, os.getpid()))
        os.makedirs(self.work, exist_ok=True)
        self.obligations = []      # (name, ok, detail)
        self.violations = []       # dicts: {what, input..., cls}
        self.known_hits = []       # (record, violation)
        self.cov = {'evaluations': 0, 'distinct_nontrivial': 0, 'rule': '', 'samples': []}
        self.assumptions = []
        self.notes = []
        self.known = [k for k in load_known() if k.get('property') == pid]

    def oblige(self, name, ok, detail=''):
        self.obligations.append((name, bool(ok), detail))
        return ok

    def violate(self, what, **data):
        v = dict(what=what, **data)
        self.violations.append(v)
        return v


def run_check(pid, tier, seed, mod):
    t0 = time.time()
    ctx = Ctx(pid, tier, seed)
    rc = 0
    try:
        with Lock('build'):
            changed, failed = regen_all()
            ctx.regen_changed = changed
            needed = getattr(mod, 'GEN_ITEMS', [])
            for item in needed:
                why = failed.get(item)
                if why is None:
                    for k, v in failed.items():
                        if k in REGEN_MODULES and item in getattr(mod, 'GEN_FROM', {}).get(k, []):
                            why = v
                ctx.oblige('regen:' + item, why is None, why or '')
            targets = list(getattr(mod, 'PROPS_VO', []))
            if targets:
                ok, out = coq_build(targets)
                ctx.build_output = out
                thms = []
                for t in targets:
                    thms += parse_assumptions(os.path.join(COQ, t[:-1]))
                closed, axioms = assumptions_from_output(out)
                if ok:
                    for th in thms:
                        ctx.oblige('theorem:' + th, True)
                    ctx.assumptions = ['%d theorem(s): Closed under the global context' % closed] + [a.strip() for a in axioms]
                    allowed = getattr(mod, 'ALLOWED_AXIOMS', [])
                    for a in axioms:
                        names = re.findall(r'^(\S+)\s*:', a, re.M)
                        for n in names:
                            if n not in allowed:
                                ctx.oblige('axiom-free:' + n, False, 'unexpected axiom ' + n)
                else:
                    err = out[-3000:]
                    m = re.search(r'File "\./([^"]+)", line (\d+)', out)
                    where = '%s:%s' % (m.group(1), m.group(2)) if m else 'build'
                    for th in thms or ['build']:
                        ctx.oblige('theorem:' + th, False, 'coq build failed at %s' % where)
                    ctx.build_error = err
            if tier == 'thorough' and targets and ok:
                mods = ['HidV.' + t[:-3].replace('/', '.') for t in targets]
                try:
                    pc = subprocess.run(['timeout', '3000', 'coqchk', '-Q', '.', 'HidV', '-o'] + mods, cwd=COQ, stdout=subprocess.PIPE, stderr=subprocess.STDOUT, timeout=3100)
                    outc = pc.stdout.decode(errors='replace')
                    m = re.search(r'\* Axioms:(.*?)\n\s*\n', outc, re.S)
                    ax = m.group(1).strip() if m else '?'
                    ctx.oblige('coqchk -o on %s: modules re-checked by the independent checker, axioms: %s' % (' '.join(mods), ax), pc.returncode == 0 and ax == '<none>', outc[-400:] if pc.returncode else '')
                    ctx.assumptions.append('coqchk -o: axioms %s; type-in-type/unsafe fixpoints/assumed positivity: none reported' % ax)
                except subprocess.TimeoutExpired:
                    ctx.notes.append('coqchk timed out (not counted)')
            bad = grep_forbidden()
            ctx.oblige('no Admitted/Axiom/Parameter in coq/', not bad, '; '.join(bad[:5]))
            # property-specific correspondences + search (still under the lock: the component
            # correspondences rebuild their extracted models inside coq/ and ocaml/)
            mod.run(ctx)
    except Exception as e:
        traceback.print_exc()
        print('FRAMEWORK ERROR in check %s: %r' % (pid, e))
        rc = 2
    finally:
        import shutil
        shutil.rmtree(ctx.work, ignore_errors=True)
    if rc == 2:
        return rc
    return report(ctx, mod, t0)


def match_known(ctx, v):
    import known
    for k in ctx.known:
        if k.get('status') != 'known':
            continue
        pred = getattr(known, k['class'], None)
        if pred and pred(v):
            return k
    return None


def report(ctx, mod, t0):
    pid = ctx.pid
    broken = [(n, d) for n, ok, d in ctx.obligations if not ok]
    new_viol = []
    known_printed = set()
    for v in ctx.violations:
        k = match_known(ctx, v)
        if k:
            if k['id'] not in known_printed:
                print('KNOWN-FINDING: property=%s %s' % (pid, k['what']))
                known_printed.add(k['id'])
        else:
            new_viol.append(v)
    os.makedirs(os.path.join(VERIF, 'replay'), exist_ok=True)
    lines = []
    if new_viol:
        v = new_viol[0]
        path = 'replay/%s-%s.json' % (pid, sha(json.dumps(v, sort_keys=True, default=str)))
        with open(os.path.join(VERIF, path), 'w') as f:
            json.dump({'property': pid, 'violation': v, 'all_violations': new_viol[:20],
                       'broken_obligations': broken, 'replay_cmd': './check %s --replay %s' % (pid, path)}, f, indent=1, default=str)
        lines.append('VIOLATION property=%s replay=%s' % (pid, path))
    elif broken:
        path = 'replay/%s-obligation-%s.json' % (pid, sha(json.dumps(broken)))
        with open(os.path.join(VERIF, path), 'w') as f:
            json.dump({'property': pid, 'broken_obligations': broken,
                       'build_error': getattr(ctx, 'build_error', ''),
                       'note': 'proof obligation or correspondence no longer checks; the search found no concrete failing input'}, f, indent=1)
        lines.append('VIOLATION property=%s replay=%s no-failing-input-found' % (pid, path))
    for l in lines:
        print(l)
    nob = len(ctx.obligations)
    ndis = sum(1 for _, ok, _ in ctx.obligations if ok)
    cov = dict(ctx.cov)
    cov.update({
        'obligations': max(nob, 1), 'discharged': ndis,
        'checker_cmd': 'cd /verif/coq && make ' + ' '.join(getattr(mod, 'PROPS_VO', [])) + '  (coqc 8.16.1, full .vo build)',
        'trusted_base': TRUSTED_COMMON + getattr(mod, 'TRUSTED', []) + ['Print Assumptions: ' + a for a in ctx.assumptions],
        'obligation_list': [{'name': n, 'ok': ok, 'detail': d} for n, ok, d in ctx.obligations],
        'known_findings_reported': sorted(known_printed),
    })
    if not cov.get('samples'):
        cov['samples'] = [n for n, _, _ in ctx.obligations[:5]] or ['(none)']
    cov['evaluations'] = max(int(cov.get('evaluations', 0)), 0)
    ev = {
        'property_id': pid, 'tier': ctx.tier, 'seed': ctx.seed, 'level': getattr(mod, 'LEVEL', 'proof'),
        'coverage': cov, 'assumptions': getattr(mod, 'ASSUMPTIONS', []) + ctx.notes,
        'wall_s': round(time.time() - t0, 2), 'violations': len(new_viol) + (1 if broken and not new_viol else 0),
    }
    os.makedirs(os.path.join(VERIF, 'evidence'), exist_ok=True)
    with open(os.path.join(VERIF, 'evidence', pid + '.json'), 'w') as f:
        json.dump(ev, f, indent=1, default=str)
    print('%s: %d/%d obligations discharged; %d evaluations; %d violation(s); %.1fs' % (
        pid, ndis, nob, cov['evaluations'], ev['violations'], ev['wall_s']))
    return 1 if lines else 0


def main(argv):
    import argparse
    ap = argparse.ArgumentParser()
    ap.add_argument('pid')
    ap.add_argument('--tier', default=os.environ.get('VERIF_TIER', 'quick'))
    ap.add_argument('--seed', type=int, default=int(os.environ.get('VERIF_SEED', '0')))
    ap.add_argument('--replay')
    a = ap.parse_args(argv)
    if os.environ.get('VERIF_TIER'):
        a.tier = os.environ['VERIF_TIER']
    sys.path.insert(0, os.path.join(HERE, 'props'))
    mod = importlib.import_module(a.pid)
    if a.replay:
        return mod.replay(a.replay) if hasattr(mod, 'replay') else generic_replay(a.replay)
    return run_check(a.pid, a.tier, a.seed, mod)


def generic_replay(path):
    """Print the recorded violation and, when it carries a program, re-run it now: real hidc output on
    the verified VM (with the entitlement monitor for checked builds) next to the reference semantics."""
    with open(os.path.join(VERIF, path) if not os.path.isabs(path) else path) as f:
        d = json.load(f)
    v = d.get('violation') or {}
    print(json.dumps({k: (x if k != 'source' else '<see below>') for k, x in v.items()}, indent=1, default=str)[:6000])
    if d.get('broken_obligations'):
        print('broken obligations:', json.dumps(d['broken_obligations'], indent=1)[:3000])
    srcs = [(k, v[k]) for k in ('source', 'constant_form', 'variable_form', 'input') if isinstance(v.get(k), str) and '@is_you' in v.get(k, '')]
    if not srcs:
        return 0
    import diffrun, hidrun
    from diffrun import Cfg
    for name, src in srcs:
        print('----- %s -----' % name)
        print(src)
        cfg = Cfg(tuple(str(a) for a in v.get('args', ()) or ()), int(v.get('w', 2) or 2), int(v.get('stack', 300) or 300), bool(v.get('unchecked', False)))
        (res,), = diffrun.run_units([(src, [cfg])], fuel=3_000_000, ref_fuel=3_000_000, procs=1, watch_labels='monitor')
        t = hidrun.terminal(res.run)
        print('now, on this tree:  args=%s w=%d stack=%d unchecked=%s' % (list(cfg.args), cfg.w, cfg.stack, cfg.unchecked))
        print('  VM  :', t[0], t[1], repr(t[2][:400]), res.run.detail[:200], ('pc=%s' % res.run.pc) if res.run.kind in ('STOP', 'FAULT') else '')
        print('  REF :', res.ref[0], res.ref[1], repr(res.ref[2][:400]), res.ref[3][:100])
        print('  DIFF:', res.diff)
    return 0
