"""Type-directed random generator of HiD programs (source text) for the behavioural sweeps.

Every random choice comes from the rng passed in.  Programs are well typed by construction
(mostly: the few that hidc rejects are counted and skipped), terminate (bounded loops, acyclic
calls, bounded recursion), never read uninitialised array elements, and print what they compute.
Feature flags select what may appear:
  arrays strings calls globals overloads tt (try/undo/stop/preempt/?? and defeat functions)
  faults (unguarded divisors / indices / VLA lengths driven by inputs)  sleep
"""
import random

SCALARS = ['int', 'byte', 'bool', 'string']


class T:
    """types: 'int' 'byte' 'bool' 'string' or Arr(el, const)"""


class Arr:
    def __init__(self, el, const):
        self.el = el
        self.const = const

    def __eq__(self, o):
        return isinstance(o, Arr) and (self.el, self.const) == (o.el, o.const)

    def __hash__(self):
        return hash((self.el, self.const))

    def __str__(self):
        return ('const ' if self.const else '') + self.el + '[]'


def tstr(t):
    return str(t)


class Var:
    def __init__(self, name, typ, const=False, length=None, init=True, is_global=False):
        self.name = name
        self.type = typ
        self.const = const
        self.length = length      # known literal length for arrays / strings
        self.init = init
        self.is_global = is_global


class Func:
    def __init__(self, name, flavor, params, ret):
        self.name = name          # with sigil
        self.flavor = flavor      # '' '@' '!'
        self.params = params      # list of (name, type)
        self.ret = ret            # 'empty' or scalar type


class Gen:
    def __init__(self, rng, features, nargs=3, size=1.0):
        self.r = rng
        self.f = set(features)
        self.nargs = nargs
        self.size = size
        self.uid = 0
        self.funcs = []
        self.globals = []
        self.lines = []
        self.scopes = []
        self.cur = None           # current function
        self.in_loop = 0
        self.in_try = False
        self.ctx = ''             # '' ordinary, '@' you, '!' defeat
        self.budget = 0
        self.bumpers = []         # (function name, global it modifies, global's type)
        self.array_helpers = False

    # ------------------------------------------------------------ helpers
    def fresh(self, p='v'):
        self.uid += 1
        return '%s%d' % (p, self.uid)

    def chance(self, p):
        return self.r.random() < p

    def vars(self, pred=lambda v: True):
        out = []
        seen = set()
        for sc in reversed(self.scopes):
            for v in reversed(sc):
                if v.name not in seen:
                    seen.add(v.name)
                    if pred(v):
                        out.append(v)
        for v in self.globals:
            if v.name not in seen and pred(v):
                seen.add(v.name)
                out.append(v)
        return out

    def declare(self, v):
        self.scopes[-1].append(v)

    def small(self):
        return self.r.choice([0, 1, 2, 3, 5, 7, 10, 13, 100, 127, 128, 255, 256, 1000, -1, -2, -7, -128, -129, 31, 64])

    def int_lit(self):
        v = self.small() if self.chance(0.8) else self.r.randrange(-3000, 3000)
        if v < 0:
            return '(%d)' % v
        form = self.r.random()
        if form < 0.1:
            return '0x%X' % v
        return str(v)

    def byte_lit(self):
        c = self.r.choice([65, 66, 97, 48, 32, 10, 0, 255, 127, 128, 92, 39, 34])
        if 32 <= c < 127 and c not in (92, 39):
            return "'%s'" % chr(c)
        return "'\\x%02x'" % c

    def str_lit(self):
        n = self.r.choice([0, 1, 2, 3, 5, 8])
        bs = [self.r.choice([65, 66, 67, 97, 98, 120, 32, 48, 49, 33, 10, 0, 255, 92, 34]) for _ in range(n)]
        out = []
        for b in bs:
            if 32 <= b < 127 and b not in (92, 34):
                out.append(chr(b))
            else:
                out.append('\\x%02x' % b)
        return '"' + ''.join(out) + '"', n

    # ------------------------------------------------------------ expressions
    def expr(self, typ, depth=0, const_ok=True):
        """-> source text of an expression of (or coercible to) type typ"""
        self.budget -= 1
        deep = depth < 3 and self.budget > 0
        if isinstance(typ, Arr):
            return self.array_expr(typ)
        if typ == 'int':
            return self.int_expr(depth, deep)
        if typ == 'bool':
            return self.bool_expr(depth, deep)
        if typ == 'byte':
            return self.byte_expr(depth, deep)
        if typ == 'string':
            return self.string_expr(depth, deep)
        raise ValueError(typ)

    def var_of(self, typ):
        vs = self.vars(lambda v: v.type == typ and v.init)
        return self.r.choice(vs).name if vs else None

    def call_expr(self, ret, depth):
        """call to a function returning ret (or None)"""
        if 'calls' not in self.f:
            return None
        cands = [f for f in self.funcs if f.ret == ret and self.callable(f)]
        if not cands:
            return None
        f = self.r.choice(cands)
        args = []
        for _, t in f.params:
            a = self.arg_for(t, depth + 1)
            if a is None:
                return None
            args.append(a)
        return '%s(%s)' % (f.name, ', '.join(args))

    def callable(self, f):
        if f is self.cur:
            return False
        if f.flavor == '':
            return True
        if f.flavor == '@':
            return self.ctx == '@' and not self.in_try and not self.in_spec
        if f.flavor == '!':
            return (self.ctx == '!' or self.in_try) and not self.in_spec
        return False

    in_spec = False

    def arg_for(self, t, depth):
        if isinstance(t, Arr):
            vs = self.vars(lambda v: isinstance(v.type, Arr) and v.type.el == t.el and (t.const or not v.type.const) and v.init)
            if vs and self.chance(0.85):
                return self.r.choice(vs).name
            if t.el == 'byte' and t.const and 'strings' in self.f and self.chance(0.5):
                return self.string_expr(depth, False)
            if t.const or self.chance(0.5):
                return self.array_literal(t.el, self.r.randrange(1, 4), depth)[0]
            return None
        return self.expr(t, depth)

    def int_atom(self):
        c = self.r.random()
        if c < 0.45:
            v = self.var_of('int')
            if v:
                return v
        if c < 0.55:
            v = self.var_of('byte')
            if v:
                return v
        if c < 0.65 and 'arrays' in self.f:
            e = self.elem_read('int') or self.length_read()
            if e:
                return e
        return self.int_lit()

    def nonconst_int(self):
        return self.var_of('int') or self.var_of('byte') or None

    def interference(self):
        """a global read next to a call that assigns it: evaluation order becomes visible"""
        cands = [b for b in self.bumpers if b[2] == 'int' and not self.in_spec and self.cur is not None and self.cur.name != b[0]]
        if not cands:
            return None
        fn, g, _ = self.r.choice(cands)
        op = self.r.choice(['+', '-', '*', '+', '-'])
        c = self.r.random()
        if c < 0.4:
            return '(%s %s %s())' % (g, op, fn)
        if c < 0.6:
            return '(%s() %s %s)' % (fn, op, g)
        if c < 0.75:
            return '((%s %s %s()) %s %s)' % (g, op, fn, self.r.choice(['+', '-']), g)
        if c < 0.9:
            return '((%s %s %s()) is int)' % (g, self.r.choice(['<', '>', '==', '!=', '<=', '>=']), fn)
        return '(%s / (%s() %% 5 + 7))' % (g, fn)

    def helper_call(self, typ, depth):
        """a call whose argument is a fresh array literal (a literal allocated inside an expression)"""
        if not self.array_helpers or self.in_spec and False:
            return None
        n = self.r.randrange(1, 4)
        if typ == 'int':
            return 'asum([%s])' % ', '.join(self.int_expr(depth + 1, depth < 2) for _ in range(n))
        if typ == 'bool':
            return 'aany([%s])' % ', '.join(self.bool_expr(depth + 1, depth < 2) for _ in range(n))
        if typ == 'byte':
            return 'alast([%s])' % ', '.join(self.byte_expr(depth + 1, False) for _ in range(n))
        return None

    def int_expr(self, depth, deep):
        if deep and self.array_helpers and self.chance(0.06):
            e = self.helper_call('int', depth)
            if e:
                return e
        if deep and self.bumpers and self.chance(0.12):
            e = self.interference()
            if e:
                return e
        if not deep or self.chance(0.3):
            return self.int_atom()
        c = self.r.random()
        if c < 0.45:
            op = self.r.choice(['+', '-', '*', '+', '-'])
            return '(%s %s %s)' % (self.int_expr(depth + 1, True), op, self.int_expr(depth + 1, True))
        if c < 0.6:
            op = self.r.choice(['/', '%'])
            left = self.int_expr(depth + 1, True)
            nv = self.nonconst_int()
            if 'faults' in self.f and self.chance(0.3) and nv:
                return '(%s %s %s)' % (left, op, nv)
            if nv and self.chance(0.6):
                k = self.r.choice([2, 3, 5, 7, 10])
                # divisor provably non-zero: v*v*2+1 is odd ... keep it simple: (v % k) + k
                return '(%s %s (%s %% %d + %d))' % (nv, op, nv, k, k + 1) if self.chance(0.5) else \
                       '(%s %s (%s %% %d + %d))' % (left, op, nv, k, k + 1)
            if nv:
                return '(%s %s %s)' % (nv, op, self.r.choice(['2', '3', '7', '10', '(-3)', '256']))
            return self.int_atom()
        if c < 0.68:
            return '(-%s)' % self.int_expr(depth + 1, True)
        if c < 0.72:
            return '(+%s)' % self.int_expr(depth + 1, True)
        if c < 0.8:
            e = self.call_expr('int', depth)
            if e:
                return e
        if c < 0.86:
            b = self.var_of('bool')
            if b:
                return '(%s is int)' % b
            return '(%s is int)' % self.bool_expr(depth + 1, True)
        if c < 0.9:
            return '(%s is int)' % self.byte_expr(depth + 1, True)
        if c < 0.95 and self.ctx == '@' and not self.in_try and not self.in_spec and 'tt' in self.f:
            return self.speculation('int', depth)
        return self.int_atom()

    def speculation(self, typ, depth):
        old = self.in_spec
        self.in_spec = True
        try:
            l = self.expr(typ, depth + 1)
            r = self.expr(typ, depth + 1)
        finally:
            self.in_spec = old
        return '(%s ?? %s)' % (l, r)

    def bool_expr(self, depth, deep):
        if deep and self.array_helpers and self.chance(0.04):
            e = self.helper_call('bool', depth)
            if e:
                return e
        if not deep or self.chance(0.25):
            v = self.var_of('bool')
            if v and self.chance(0.6):
                return v
            if 'arrays' in self.f and self.chance(0.2):
                e = self.elem_read('bool')
                if e:
                    return e
            nv = self.nonconst_int()
            if nv:
                return '(%s %s %s)' % (nv, self.r.choice(['<', '>', '<=', '>=', '==', '!=']), self.int_lit())
            return self.r.choice(['true', 'false'])
        c = self.r.random()
        if c < 0.4:
            op = self.r.choice(['<', '>', '<=', '>=', '==', '!='])
            nv = self.nonconst_int()
            l = self.int_expr(depth + 1, True)
            r = nv if nv and self.chance(0.5) else self.int_expr(depth + 1, True)
            if nv and self.chance(0.5):
                l, r = r, l
            if not nv:
                return self.r.choice(['true', 'false'])
            if nv not in l and nv not in r:
                r = nv
            return '(%s %s %s)' % (l, op, r)
        if c < 0.6:
            op = self.r.choice(['and', 'or'])
            return '(%s %s %s)' % (self.bool_expr(depth + 1, True), op, self.bool_expr(depth + 1, True))
        if c < 0.7:
            return '(not %s)' % self.bool_expr(depth + 1, True)
        if c < 0.76:
            return '(%s %s %s)' % (self.bool_expr(depth + 1, True), self.r.choice(['==', '!=']), self.bool_expr(depth + 1, True))
        if c < 0.84:
            nv = self.nonconst_int()
            if nv:
                return '(%s is bool)' % nv
        if c < 0.88 and 'strings' in self.f:
            s = self.var_of('string')
            if s:
                return '(%s is bool)' % s
        if c < 0.92:
            e = self.call_expr('bool', depth)
            if e:
                return e
        if c < 0.96:
            # truthiness of ints in logical position
            nv = self.nonconst_int()
            if nv:
                return '(%s %s %s)' % (nv, self.r.choice(['and', 'or']), self.bool_expr(depth + 1, True))
        if self.ctx == '@' and not self.in_try and not self.in_spec and 'tt' in self.f and self.chance(0.5):
            return self.speculation('bool', depth)
        return self.r.choice(['true', 'false'])

    def byte_expr(self, depth, deep):
        c = self.r.random()
        if c < 0.35:
            v = self.var_of('byte')
            if v:
                return v
        if c < 0.5:
            return self.byte_lit()
        if c < 0.6:
            return str(self.r.choice([0, 1, 65, 200, 255]))
        if c < 0.75 and deep:
            nv = self.nonconst_int()
            if nv:
                return '(%s is byte)' % (nv if self.chance(0.6) else '(%s + %s)' % (nv, self.int_lit()))
        if c < 0.85 and 'arrays' in self.f:
            e = self.elem_read('byte')
            if e:
                return e
        if c < 0.92 and deep:
            e = self.call_expr('byte', depth)
            if e:
                return e
        if c < 0.96 and deep:
            b = self.var_of('bool')
            if b:
                return '(%s is byte)' % b
        return self.byte_lit()

    def string_expr(self, depth, deep):
        c = self.r.random()
        if c < 0.5:
            v = self.var_of('string')
            if v:
                return v
        if c < 0.6 and deep:
            e = self.call_expr('string', depth)
            if e:
                return e
        if c < 0.7 and 'arrays' in self.f:
            e = self.elem_read('string')
            if e:
                return e
        return self.str_lit()[0]

    def index_for(self, v):
        """an index expression that is in range for array/string variable v (unless faults)"""
        n = v.length
        if 'faults' in self.f and self.chance(0.25):
            nv = self.nonconst_int()
            if nv:
                return nv if self.chance(0.6) else '(%s - 1)' % nv
        if n is not None and n > 0:
            if self.chance(0.6):
                return str(self.r.randrange(n))
            nv = self.nonconst_int()
            if nv:
                return '((%s %% %d + %d) %% %d)' % (nv, n, n, n)
            return str(self.r.randrange(n))
        # unknown or zero length: guard by a loop index variable bound to it
        idx = [x for x in self.vars(lambda x: getattr(x, 'indexes', None) == v.name)]
        if idx:
            return idx[0].name
        return None

    def elem_read(self, el):
        vs = self.vars(lambda v: v.init and ((isinstance(v.type, Arr) and v.type.el == el) or (el == 'byte' and v.type == 'string')))
        self.r.shuffle(vs)
        for v in vs:
            i = self.index_for(v)
            if i is not None:
                return '%s[%s]' % (v.name, i)
        return None

    def length_read(self):
        vs = self.vars(lambda v: v.init and (isinstance(v.type, Arr) or v.type == 'string'))
        if vs:
            return '%s.length' % self.r.choice(vs).name
        return None

    def array_literal(self, el, n, depth):
        if el == 'bool' and n >= 8 and self.chance(0.5):
            items = ['false'] * n
            for _ in range(self.r.randrange(0, 3)):
                items[self.r.randrange(n)] = self.r.choice(['true', self.bool_expr(depth + 1, False)])
            return '[' + ', '.join(items) + ']', n
        if el == 'string':
            items = [self.string_expr(depth + 1, False) for _ in range(n)]
        else:
            items = [self.expr(el, depth + 1) for _ in range(n)]
        return '[' + ', '.join(items) + ']', n

    def array_expr(self, t):
        vs = self.vars(lambda v: isinstance(v.type, Arr) and v.type.el == t.el and (t.const or not v.type.const) and v.init)
        if vs and self.chance(0.5):
            return self.r.choice(vs).name
        return self.array_literal(t.el, self.r.randrange(0 if t.const else 1, 5), 1)[0]

    # ------------------------------------------------------------ statements
    def emit(self, s, ind):
        self.lines.append('    ' * ind + s)

    def write_of(self, v):
        if isinstance(v.type, Arr):
            if v.type.el == 'byte' and self.chance(0.5):
                return 'write(%s);' % v.name
            i = self.fresh('i')
            body = {'int': 'write(%s[%s]); write(\' \');', 'byte': 'write(%s[%s] is int); write(\' \');',
                    'bool': 'write(%s[%s]); write(\' \');', 'string': 'write(%s[%s]); write(\'|\');'}[v.type.el] % (v.name, i)
            return 'for (int %s = 0; %s < %s.length; %s += 1) { %s }' % (i, i, v.name, i, body)
        if v.type == 'byte' and self.chance(0.5):
            return 'write(%s is int);' % v.name
        return 'write(%s);' % v.name

    def stmt(self, ind, depth):
        self.budget -= 1
        c = self.r.random()
        f = self.f
        if depth >= 3 or self.budget <= 0:
            c = c * 0.5
        if c < 0.16:
            return self.s_write(ind)
        if c < 0.30:
            return self.s_decl(ind)
        if c < 0.42:
            return self.s_assign(ind)
        if c < 0.48 and 'arrays' in f:
            return self.s_elem_assign(ind)
        if c < 0.52 and 'calls' in f:
            return self.s_call(ind)
        if c < 0.62:
            return self.s_if(ind, depth)
        if c < 0.72:
            return self.s_loop(ind, depth)
        if c < 0.76:
            return self.s_block(ind, depth)
        if c < 0.80 and self.in_loop and not self.no_jump:
            self.emit(self.r.choice(['break;', 'continue;']), ind)
            return True
        if c < 0.83 and self.cur.name != '@is_you' and not self.no_jump:
            return self.s_return(ind)
        if c < 0.93 and 'tt' in f:
            if self.ctx == '@' and not self.in_try:
                return self.s_try(ind, depth)
            if (self.ctx == '!' or self.in_try):
                return self.s_defeatish(ind, depth)
        if c < 0.95 and 'sleep' in f:
            self.emit('sleep(%s);' % self.int_atom(), ind)
            return False
        return self.s_write(ind)

    no_jump = False

    def s_write(self, ind):
        t = self.r.choice(['int', 'int', 'bool', 'byte', 'string'] if 'strings' in self.f else ['int', 'int', 'bool', 'byte'])
        fn = self.r.choice(['write', 'write', 'writeln'])
        e = self.expr(t)
        self.emit('%s(%s);%s' % (fn, e, ' write(\' \');' if fn == 'write' else ''), ind)
        return False

    def s_decl(self, ind):
        c = self.r.random()
        if 'arrays' in self.f and c < 0.35:
            return self.s_array_decl(ind)
        t = self.r.choice(['int', 'int', 'bool', 'byte'] + (['string'] if 'strings' in self.f else []))
        name = self.fresh()
        const = self.chance(0.1)
        e = self.expr(t)
        self.emit('%s%s %s = %s;' % ('const ' if const else '', t, name, e), ind)
        # a const scalar initialised by a literal is substituted by the compiler; fine either way
        self.declare(Var(name, t, const))
        return False

    def s_array_decl(self, ind):
        el = self.r.choice(['int', 'int', 'byte', 'bool'] + (['string'] if 'strings' in self.f else []))
        name = self.fresh('a')
        c = self.r.random()
        if c < 0.5:
            n = self.r.randrange(1, 6)
            if el == 'bool' and self.chance(0.35):
                n = self.r.randrange(7, 19)      # bool arrays are bit-packed: cross byte boundaries
            const = self.chance(0.3)
            lit, n = self.array_literal(el, n, 1 if n < 7 else 2)
            self.emit('%s%s[] %s = %s;' % ('const ' if const else '', el, name, lit), ind)
            self.declare(Var(name, Arr(el, const), True, n))
        elif c < 0.8:
            # variable-length array, fully initialised before any read
            n = self.r.randrange(1, 7)
            nv = self.nonconst_int()
            if 'faults' in self.f and nv and self.chance(0.4):
                ln = nv
                known = None
            elif nv and self.chance(0.5):
                ln = '(%s %% %d + %d) %% %d + 1' % (nv, n, n, n)
                known = None
            else:
                ln = str(n)
                known = n
            self.emit('%s %s[%s];' % (el, name, ln), ind)
            i = self.fresh('i')
            v = Var(name, Arr(el, False), True, known)
            iv = Var(i, 'int')
            iv.indexes = name
            self.scopes.append([iv])
            fill = self.expr(el if el != 'string' else 'string', 2)
            self.scopes.pop()
            self.emit('for (int %s = 0; %s < %s.length; %s += 1) { %s[%s] = %s; }' % (i, i, name, i, name, i, fill), ind)
            self.declare(v)
        else:
            vs = self.vars(lambda v: isinstance(v.type, Arr) and v.type.el == el and v.init)
            if not vs:
                return self.s_write(ind)
            src = self.r.choice(vs)
            const = src.type.const or self.chance(0.3)
            if const and not src.type.const:
                # binding a mutable array to a const declaration is rejected by design
                const = False
            self.emit('%s%s[] %s = %s;' % ('const ' if const else '', el, name, src.name), ind)
            self.declare(Var(name, Arr(el, const), True, src.length))
        return False

    def s_assign(self, ind):
        vs = self.vars(lambda v: not isinstance(v.type, Arr) and not v.const and not getattr(v, 'indexes', None) and not getattr(v, 'loopvar', False))
        if not vs:
            return self.s_decl(ind)
        v = self.r.choice(vs)
        if v.type in ('int', 'byte') and self.chance(0.4):
            op = self.r.choice(['+=', '-=', '*=', '+=', '-='])
            if v.type == 'byte':
                rhs = self.r.choice([self.byte_lit(), '1', '3', '200'])
            else:
                rhs = self.int_expr(1, True)
            if self.chance(0.15) and v.type == 'int':
                nv = self.nonconst_int()
                if nv:
                    op = self.r.choice(['/=', '%='])
                    rhs = '(%s %% 5 + 6)' % nv if 'faults' not in self.f or self.chance(0.5) else nv
            self.emit('%s %s %s;' % (v.name, op, rhs), ind)
        else:
            self.emit('%s = %s;' % (v.name, self.expr(v.type)), ind)
        return False

    def s_elem_assign(self, ind):
        vs = self.vars(lambda v: isinstance(v.type, Arr) and not v.type.const and v.init)
        self.r.shuffle(vs)
        cands = [b for b in self.bumpers if '[' not in b[1] and self.cur is not None and self.cur.name != b[0]]
        if cands and self.chance(0.3):
            for v in vs:
                if v.length and v.type.el in ('int', 'byte'):
                    fn, g, _ = self.r.choice(cands)
                    n = v.length
                    rhs = '%s()' % fn if (v.type.el == 'int' or fn.startswith('bbump')) else '(%s() is byte)' % fn
                    op = self.r.choice(['=', '=', '+='])
                    if v.type.el == 'byte' and op == '+=':
                        op = '='
                    self.emit('%s[((%s %% %d + %d) %% %d)] %s %s;' % (v.name, g, n, n, n, op, rhs), ind)
                    return False
        for v in vs:
            i = self.index_for(v)
            if i is None:
                continue
            el = v.type.el
            if el in ('int', 'byte') and self.chance(0.35):
                op = self.r.choice(['+=', '-=', '*='])
                rhs = self.int_expr(1, True) if el == 'int' else self.r.choice(['1', '2', "'a'", '255'])
                self.emit('%s[%s] %s %s;' % (v.name, i, op, rhs), ind)
            else:
                self.emit('%s[%s] = %s;' % (v.name, i, self.expr(el, 1)), ind)
            return False
        return self.s_write(ind)

    def s_call(self, ind):
        cands = [f for f in self.funcs if self.callable(f)]
        if not cands:
            return self.s_write(ind)
        f = self.r.choice(cands)
        args = []
        for _, t in f.params:
            a = self.arg_for(t, 1)
            if a is None:
                return self.s_write(ind)
            args.append(a)
        call = '%s(%s)' % (f.name, ', '.join(args))
        if f.ret != 'empty' and self.chance(0.7):
            self.emit('write(%s); write(\' \');' % call, ind)
        else:
            self.emit(call + ';', ind)
        return False

    def block(self, ind, depth, n=None, new_scope=True):
        """emit `{ ... }`; returns True if the block surely exits (ends with jump)"""
        self.emit('{', ind)
        if new_scope:
            self.scopes.append([])
        n = n if n is not None else self.r.randrange(1, max(2, int(4 * self.size)))
        exited = False
        for _ in range(n):
            if self.stmt(ind + 1, depth + 1):
                exited = True
                break
        if new_scope:
            self.scopes.pop()
        self.emit('}', ind)
        return exited

    def s_block(self, ind, depth):
        self.block(ind, depth)
        return False

    def s_if(self, ind, depth):
        self.emit('if (%s)' % self.expr('bool' if self.chance(0.85) else 'int'), ind)
        e1 = self.block(ind, depth)
        if self.chance(0.5):
            self.emit('else', ind)
            e2 = self.block(ind, depth)
            return e1 and e2 and False
        return False

    def s_loop(self, ind, depth):
        n = self.r.randrange(0, 5)
        i = self.fresh('i')
        nv = self.nonconst_int()
        bound = str(n) if not nv or self.chance(0.5) else '(%s %% %d + %d) %% %d' % (nv, n + 1, n + 1, n + 1)
        self.in_loop += 1
        iv = Var(i, 'int')
        iv.loopvar = True
        self.scopes.append([iv])
        if self.chance(0.7):
            self.emit('for (int %s = 0; %s < %s; %s += 1)' % (i, i, bound, i), ind)
            self.block(ind, depth)
        else:
            self.emit('{ int %s = %s;' % (i, bound), ind)
            self.emit('while (%s > 0)' % i, ind)
            self.emit('{', ind)
            self.emit('%s -= 1;' % i, ind + 1)
            self.scopes.append([])
            for _ in range(self.r.randrange(1, 4)):
                if self.stmt(ind + 1, depth + 1):
                    break
            self.scopes.pop()
            self.emit('} }', ind)
        self.scopes.pop()
        self.in_loop -= 1
        return False

    def s_return(self, ind):
        if self.cur.ret == 'empty':
            self.emit('return;', ind)
        else:
            self.emit('return %s;' % self.expr(self.cur.ret), ind)
        return True

    def s_try(self, ind, depth):
        self.emit('try', ind)
        self.in_try = True
        self.block(ind, depth, n=self.r.randrange(1, 5))
        self.in_try = False
        self.emit(self.r.choice(['undo', 'stop']), ind)
        self.block(ind, depth, n=self.r.randrange(1, 3))
        return False

    def s_defeatish(self, ind, depth):
        c = self.r.random()
        if c < 0.3:
            self.emit('!truth_is_defeat(%s);' % self.expr('bool'), ind)
        elif c < 0.4:
            self.emit('!is_defeat();', ind)
            return False
        elif c < 0.75:
            self.emit('preempt', ind)
            self.block(ind, depth, n=self.r.randrange(1, 3))
        else:
            cands = [f for f in self.funcs if f.flavor == '!' and self.callable(f)]
            if cands:
                f = self.r.choice(cands)
                args = [self.arg_for(t, 1) for _, t in f.params]
                if all(a is not None for a in args):
                    call = '%s(%s)' % (f.name, ', '.join(args))
                    if f.ret != 'empty':
                        self.emit('write(%s); write(\' \');' % call, ind)
                    else:
                        self.emit(call + ';', ind)
                    return False
            self.emit('!truth_is_defeat(%s);' % self.expr('bool'), ind)
        return False

    # ------------------------------------------------------------ functions and program
    def param_type(self):
        c = self.r.random()
        if 'arrays' in self.f and c < 0.3:
            return Arr(self.r.choice(['int', 'byte', 'bool'] + (['string'] if 'strings' in self.f else [])), self.chance(0.5))
        return self.r.choice(['int', 'int', 'byte', 'bool'] + (['string'] if 'strings' in self.f else []))

    def gen_func(self, f, nstmts):
        self.cur = f
        self.ctx = f.flavor
        self.in_try = False
        self.in_loop = 0
        self.budget = int(40 * self.size)
        ps = ', '.join('%s %s' % (tstr(t), n) for n, t in f.params)
        self.emit('%s %s(%s) {' % (f.ret, f.name, ps), 0)
        self.scopes = [[Var(n, t, False, None) for n, t in f.params]]
        exited = False
        for _ in range(nstmts):
            if self.stmt(1, 0):
                exited = True
                break
        if f.name == '@is_you':
            # dump what is in scope so that wrong state becomes visible
            for v in self.vars(lambda v: v.init and not getattr(v, 'loopvar', False)):
                if self.chance(0.7):
                    self.emit(self.write_of(v), 1)
        elif not exited:
            if f.ret != 'empty':
                self.emit('return %s;' % self.expr(f.ret), 1)
        self.emit('}', 0)
        self.emit('', 0)

    def program(self):
        f = self.f
        r = self.r
        # globals
        if 'globals' in f:
            for _ in range(r.randrange(0, 4)):
                t = r.choice(['int', 'int', 'bool', 'byte'] + (['string'] if 'strings' in f else []))
                name = self.fresh('g')
                const = self.chance(0.3)
                lit = {'int': self.int_lit, 'bool': lambda: r.choice(['true', 'false']), 'byte': self.byte_lit,
                       'string': lambda: self.str_lit()[0]}[t]()
                self.emit('%s%s %s = %s;' % ('const ' if const else '', t, name, lit), 0)
                self.globals.append(Var(name, t, const, None, True, True))
            if 'arrays' in f:
                for _ in range(r.randrange(0, 3)):
                    el = r.choice(['int', 'byte', 'bool'] + (['string'] if 'strings' in f else []))
                    name = self.fresh('ga')
                    const = self.chance(0.4)
                    n = r.randrange(1, 6)
                    lits = {'int': self.int_lit, 'bool': lambda: r.choice(['true', 'false']), 'byte': self.byte_lit,
                            'string': lambda: self.str_lit()[0]}[el]
                    self.emit('%s%s[] %s = [%s];' % ('const ' if const else '', el, name, ', '.join(lits() for _ in range(n))), 0)
                    self.globals.append(Var(name, Arr(el, const), True, n, True, True))
        self.emit('', 0)
        if 'arrays' in f and 'calls' in f:
            self.emit('int asum(const int[] v) { int s = 0; for (int i = 0; i < v.length; i += 1) { s += v[i]; } return s; }', 0)
            self.emit('bool aany(const bool[] v) { for (int i = 0; i < v.length; i += 1) { if (v[i]) { return true; } } return false; }', 0)
            self.emit('byte alast(const byte[] v) { return v[v.length - 1]; }', 0)
            self.array_helpers = True
        # functions that assign a global and return something derived from it
        if 'globals' in f and 'calls' in f:
            for v in [v for v in self.globals if v.type == 'int' and not v.const][:2]:
                name = 'bump%d' % len(self.bumpers)
                k = r.choice([1, 2, 5, 10])
                self.emit('int %s() { %s = %s %s %d; return %s %s %d; }' % (name, v.name, v.name, r.choice(['+', '*', '-']), k, v.name, r.choice(['-', '+']), r.choice([0, 1, 3])), 0)
                self.bumpers.append((name, v.name, 'int'))
                bname = 'bbump%d' % len(self.bumpers)
                self.emit('byte %s() { %s = %s + %d; return (%s is byte); }' % (bname, v.name, v.name, k, v.name), 0)
                self.bumpers.append((bname, v.name, 'int'))
            for v in [v for v in self.globals if isinstance(v.type, Arr) and v.type.el == 'int' and not v.type.const][:1]:
                name = 'abump%d' % len(self.bumpers)
                self.emit('int %s() { %s[0] = %s[0] + 3; return %s[0]; }' % (name, v.name, v.name, v.name), 0)
                self.bumpers.append((name, '%s[0]' % v.name, 'int'))
            self.emit('', 0)
        # functions: declared before use in generation order (acyclic calls)
        nf = r.randrange(0, 4) if 'calls' in f else 0
        for k in range(nf):
            flav = ''
            if 'tt' in f:
                flav = r.choice(['', '', '!', '@'])
            ret = r.choice(['empty', 'int', 'int', 'bool', 'byte'] + (['string'] if 'strings' in f else []))
            base = 'f%d' % k
            if 'overloads' in f and self.funcs and self.chance(0.3):
                prev = r.choice(self.funcs)
                if prev.flavor == flav:
                    base = prev.name.lstrip('@!')
            params = [(self.fresh('p'), self.param_type()) for _ in range(r.randrange(0, 4))]
            fn = Func(flav + base, flav, params, ret)
            sig = tuple(tstr(t) for _, t in params)
            if any(g.name == fn.name and tuple(tstr(t) for _, t in g.params) == sig for g in self.funcs):
                continue
            self.gen_func(fn, r.randrange(1, max(2, int(5 * self.size))))
            self.funcs.append(fn)
        # entry point
        params = [('x%d' % i, 'int') for i in range(self.nargs)]
        main = Func('@is_you', '@', params, 'empty')
        self.gen_func(main, r.randrange(3, max(4, int(9 * self.size))))
        return '\n'.join(self.lines) + '\n'


def gen_program(seed, features, nargs=3, size=1.0):
    rng = random.Random(seed)
    g = Gen(rng, features, nargs, size)
    return g.program()


def gen_args(rng, nargs, w=2):
    M = 1 << (8 * w)
    pool = [0, 1, 2, 3, 5, 7, -1, -2, 10, 100, 127, 128, 255, 256, (M >> 1) - 1, -(M >> 1), 1000, -1000]
    return tuple(str(rng.choice(pool) if rng.random() < 0.8 else rng.randrange(-(M >> 1), M >> 1)) for _ in range(nargs))


if __name__ == '__main__':
    import sys
    seed = int(sys.argv[1]) if len(sys.argv) > 1 else 0
    feats = sys.argv[2].split(',') if len(sys.argv) > 2 else ['arrays', 'strings', 'calls', 'globals', 'overloads', 'tt']
    print(gen_program(seed, feats))
