#!/bin/bash
# tools/seedapply.sh <patch.diff> <Cxx> [more ids]: apply a patch to a scratch worktree of /repo, run checks against it, remove it
patch=$(readlink -f $1); shift
wt=/tmp/seedrun/$$
mkdir -p /tmp/seedrun; git -C /repo worktree add -q --detach $wt HEAD || exit 3
( cd $wt && git apply $patch ) || { echo "PATCH DOES NOT APPLY"; git -C /repo worktree remove --force $wt; exit 3; }
for c in "$@"; do
  HIDC_REPO=$wt ./check $c 2>&1 | grep -v "^KNOWN-FINDING" | tail -2
done
git -C /repo worktree remove --force $wt
git -C /verif checkout -q -- evidence coq/Gen 2>/dev/null
