import sasm
class Parser:
    def __init__(self, args=()):
        self.args = tuple(args); self.lines = []
    def parse_lines(self, lines):
        self.lines = list(lines)
    def get_program(self):
        return sasm.assemble(self.lines, self.args)
