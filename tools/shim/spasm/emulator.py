"""Fake spasm.emulator in front of the verified VM: lets upstream tests/test_codegen.py run
unchanged as the ISA-fidelity corpus."""
import sasm, vmrun
class Emulator:
    def __init__(self, prog, ctx):
        self.prog = prog; self.ctx = ctx; self.queue = None; self.res = None
    def step(self):
        if self.queue is None:
            self.res = vmrun.run_batch([sasm.to_driver(self.prog, 'x', 3_000_000)])[0]
            self.queue = list(self.res.events)
        if self.queue:
            k, v = self.queue.pop(0)
            if k == 'o': self.ctx.output(bytes([v]))
            elif k == 'f': self.ctx.on_flag(self.prog, v)
            elif k == 's': self.ctx.sleep(v)
            return True
        if self.res.kind == 'HALT': return False
        if self.res.kind in ('FUEL', 'FAULT', 'STOP'): raise RuntimeError('VM ' + self.res.kind)
        return True
