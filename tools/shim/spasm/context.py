class ExecutionContext:
    def __init__(self): pass
class VirtualContext(ExecutionContext):
    pass
