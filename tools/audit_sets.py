"""Static audit for C18: iteration over hash-ordered collections on the compile path.
Lists every `for` / comprehension in hidc/ whose iterable is a set display, a set comprehension,
a call of set()/frozenset(), a set-operator expression on such, or a name assigned one of those in
the same file.  Iteration order of a set of strings/enums depends on PYTHONHASHSEED."""
import ast, os


def _is_set_expr(e, setnames):
    if isinstance(e, (ast.Set, ast.SetComp)):
        return True
    if isinstance(e, ast.Call) and isinstance(e.func, ast.Name) and e.func.id in ('set', 'frozenset'):
        return True
    if isinstance(e, ast.Name) and e.id in setnames:
        return True
    if isinstance(e, ast.Attribute) and e.attr in setnames:
        return True
    if isinstance(e, ast.BinOp) and isinstance(e.op, (ast.BitOr, ast.BitAnd, ast.Sub, ast.BitXor)):
        return _is_set_expr(e.left, setnames) or _is_set_expr(e.right, setnames)
    if isinstance(e, ast.Call) and isinstance(e.func, ast.Attribute) and e.func.attr in ('union', 'intersection', 'difference', 'keys', 'values', 'items') \
            and _is_set_expr(e.func.value, setnames):
        return True
    return False


def audit(repo):
    found = []
    root = os.path.join(repo, 'hidc')
    for dp, _, fs in os.walk(root):
        for f in sorted(fs):
            if not f.endswith('.py'):
                continue
            path = os.path.join(dp, f)
            rel = os.path.relpath(path, repo)
            try:
                tree = ast.parse(open(path, encoding='utf-8').read())
            except (SyntaxError, UnicodeDecodeError, OSError):
                found.append((rel, '?', 'unparsable file'))
                continue
            setnames = set()
            for n in ast.walk(tree):
                if isinstance(n, ast.Assign) and _is_set_expr(n.value, set()):
                    for t in n.targets:
                        if isinstance(t, ast.Name):
                            setnames.add(t.id)
                        elif isinstance(t, ast.Attribute):
                            setnames.add(t.attr)
                if isinstance(n, ast.Assign) and isinstance(n.value, ast.Dict) and any(_is_set_expr(v, set()) for v in n.value.values if v is not None):
                    pass
            for n in ast.walk(tree):
                iters = []
                if isinstance(n, (ast.For, ast.AsyncFor)):
                    iters.append(n.iter)
                if isinstance(n, (ast.ListComp, ast.SetComp, ast.DictComp, ast.GeneratorExp)):
                    iters += [g.iter for g in n.generators]
                for it in iters:
                    # sorted(...) with a total key would be fine; report the inner iterable anyway
                    inner = it
                    if isinstance(it, ast.Call) and isinstance(it.func, ast.Name) and it.func.id in ('sorted', 'list', 'tuple', 'reversed', 'enumerate', 'iter') and it.args:
                        inner = it.args[0]
                    if _is_set_expr(inner, setnames) or _is_set_expr(it, setnames):
                        found.append((rel, getattr(n, 'lineno', 0), ast.unparse(it)[:80]))
    return sorted(set((a, c) for a, b, c in found))


# occurrences present in the audited baseline, each judged harmless:
#  - tokens.py include_enum: enum_tokens.update(cls)       (building a set, not iterating one)
#  - readers.py keyword_tokens / symbol_tokens: built from the set `enum_tokens`; keyword_tokens is a dict
#    used by key lookup only; symbol_tokens is sorted by length (reverse) - equal-length symbols are
#    never prefixes of one another, so tie order cannot change what read_symbol_token returns
#  - expressions.py coercible: `in {…}` membership only
KNOWN = {
    ('hidc/lexer/readers.py', 'tokens.enum_tokens'),
}
