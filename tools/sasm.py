"""Strict Sphinx assembler front end (harness component, trusted; see DESIGN §3.3, §5).

Turns the text `hidc` prints into a memory image + resolved instruction list for the verified
VM (ocaml/hidvm, extracted from coq/Sphinx/VM.v).  Deliberately strict: string/char literals
accept only printable ASCII other than backslash and the quote, plus the escapes
\\\\ \\" \\' \\n \\r \\xHH.  Anything else is AsmError = ill-formed output (C10/C13).
"""
import re

FLAGS = {'win': 0, 'error': 1, 'stack_overflow': 2, 'division_by_zero': 3,
         'out_of_bounds': 4, 'nonlocal_preempt': 5, 'debug': 6, 'progress': 7}
FLAG_NAMES = {v: k for k, v in FLAGS.items()}


class AsmError(Exception):
    pass


class AsmTooBig(Exception):
    """well-formed, but the image is too large to build here (not an error of the output)"""


def parse_str(s, quote):
    """s: bytes starting after the opening quote -> (bytes, rest after closing quote)."""
    out = bytearray()
    i = 0
    while True:
        if i >= len(s):
            raise AsmError('unterminated string')
        c = s[i]
        if c == quote:
            return bytes(out), s[i + 1:]
        if c == 0x5c:
            if i + 1 >= len(s):
                raise AsmError('dangling backslash')
            n = s[i + 1]
            if n == ord('x'):
                h = s[i + 2:i + 4]
                if len(h) != 2 or not re.fullmatch(rb'[0-9a-fA-F]{2}', h):
                    raise AsmError('bad \\x escape')
                out.append(int(h, 16))
                i += 4
            elif n == ord('n'):
                out.append(10); i += 2
            elif n == ord('r'):
                out.append(13); i += 2
            elif n in (0x5c, 0x22, 0x27):
                out.append(n); i += 2
            else:
                raise AsmError('bad escape \\%c' % n)
        elif 0x20 <= c <= 0x7e:
            out.append(c)
            i += 1
        else:
            raise AsmError('raw non-printable byte %d in literal' % c)


def strip_comment(ln):
    out = bytearray()
    i = 0
    q = None
    while i < len(ln):
        c = ln[i]
        if q:
            out.append(c)
            if c == 0x5c and i + 1 < len(ln):
                out.append(ln[i + 1]); i += 1
            elif c == q:
                q = None
        else:
            if c == ord(';'):
                break
            if c in b'"\'':
                q = c
            out.append(c)
        i += 1
    return bytes(out).strip()


def split_ops(s):
    out = []
    cur = bytearray()
    q = None
    i = 0
    while i < len(s):
        c = s[i]
        if q:
            cur.append(c)
            if c == 0x5c and i + 1 < len(s):
                cur.append(s[i + 1]); i += 1
            elif c == q:
                q = None
        elif c in b'"\'':
            q = c
            cur.append(c)
        elif c == ord(','):
            out.append(bytes(cur).strip())
            cur = bytearray()
        else:
            cur.append(c)
        i += 1
    if q:
        raise AsmError('unterminated quote in operand')
    if cur.strip():
        out.append(bytes(cur).strip())
    return out


def bigdec(tt):
    """decimal -> int without CPython's digit limit (hidc emits immediates of any size; the
    assembler wraps them to the word)."""
    if len(tt) <= 4000:
        return int(tt)
    v = 0
    for i in range(0, len(tt), 4000):
        c = tt[i:i + 4000]
        v = v * 10 ** len(c) + int(c)
    return v


tok_re = re.compile(rb"\s*(0x[0-9a-fA-F]+w?|\d+w?|'(?:\\x[0-9a-fA-F]{2}|\\.|[^\\'])'|\$?[A-Za-z_][A-Za-z_0-9]*|[-+()&])")


def eval_static(e, W, argc, lab):
    toks = []
    pos = 0
    e = e.strip()
    if not e:
        raise AsmError('empty expression')
    while pos < len(e):
        m = tok_re.match(e, pos)
        if not m:
            raise AsmError('bad expr %r' % e)
        toks.append(m.group(1))
        pos = m.end()
        while pos < len(e) and e[pos] in b' \t':
            pos += 1

    def atom(i):
        if i >= len(toks):
            raise AsmError('truncated expr %r' % e)
        t = toks[i]
        if t == b'(':
            v, i = expr(i + 1)
            if i >= len(toks) or toks[i] != b')':
                raise AsmError('missing ) in %r' % e)
            return v, i + 1
        if t == b'-':
            v, i = atom(i + 1)
            return -v, i
        if t == b'+':
            return atom(i + 1)
        if t[:1] == b"'":
            b, rest = parse_str(t[1:], ord("'"))
            if len(b) != 1 or rest:
                raise AsmError('bad char literal %r' % t)
            return b[0], i + 1
        if t[:1].isdigit():
            w = t.endswith(b'w')
            tt = t[:-1] if w else t
            v = int(tt, 16) if tt.startswith(b'0x') else bigdec(tt)
            return (v * W if w else v), i + 1
        if t == b'$argc':
            return argc, i + 1
        if t in (b')', b'&'):
            raise AsmError('unexpected %r in %r' % (t, e))
        name = t.decode()
        if name not in lab:
            raise AsmError('undefined label %s' % name)
        return lab[name], i + 1

    def expr(i):
        v, i = atom(i)
        while i < len(toks) and toks[i] in (b'+', b'-', b'&'):
            op = toks[i]
            r, i = atom(i + 1)
            v = v + r if op == b'+' else v - r if op == b'-' else v & r
        return v, i
    v, i = expr(0)
    if i != len(toks):
        raise AsmError('junk in expr %r' % e)
    return v


class Program:
    pass


HC = {'heq': 'eq', 'hne': 'ne', 'hlt': 'lt', 'hltu': 'ltu', 'hgt': 'gt', 'hgtu': 'gtu',
      'hle': 'le', 'hleu': 'leu', 'hge': 'ge', 'hgeu': 'geu'}
AR = ('add', 'sub', 'mul', 'div', 'mod', 'and', 'or', 'xor', 'asl', 'asr')
ARITY = {'halt': 0, 'j': 1, 'mov': 2, 'yield': 1, 'sleep': 1, 'flag': 1,
         'lws': 2, 'lwc': 2, 'lbs': 2, 'lbc': 2, 'lwso': 3, 'lwco': 3, 'lbso': 3, 'lbco': 3,
         'sws': 2, 'sbs': 2, 'swso': 3, 'sbso': 3}
ARITY.update({k: 2 for k in HC})
ARITY.update({k: 3 for k in AR})


def assemble(lines, args=()):
    """lines: iterable of bytes; args: command-line arguments (str/bytes/int)."""
    W = None
    section = None
    labels = {}
    sizes = {'state': 0, 'const': 0}
    items = {'state': [], 'const': []}
    code = []
    raw = [x for x in (strip_comment(bytes(ln)) for ln in lines) if x]
    for ln in raw:
        if ln.startswith(b'%format word'):
            W = int(ln.split()[2])
    if W is None:
        W = 2   # Sphinx default (upstream test_basic relies on it); hidc always states it
    args = [a.encode('utf-8') if isinstance(a, str) else (str(a).encode() if isinstance(a, int) else bytes(a)) for a in args]
    argmap = {}
    have_argv = False
    for ln in raw:
        if ln.startswith(b'%argv'):
            have_argv = True
            specs = ln.split()[1:]
            nfixed = sum(1 for s in specs if not s.startswith(b'['))
            if len(args) < nfixed:
                raise AsmError('too few arguments')
            ai = 0
            for s in specs:
                if s.startswith(b'['):
                    name = s[2:-5].decode()
                    n = len(args) - nfixed
                    argmap[name] = list(args[ai:ai + n])
                    ai += n
                else:
                    argmap[s[1:-1].decode()] = args[ai]
                    ai += 1
            if ai != len(args):
                raise AsmError('too many arguments')
    if not have_argv and args:
        raise AsmError('program takes no arguments')
    argc = len(args)
    extra_const = []

    def add(sec, kind, val, size):
        if size < 0:
            raise AsmError('negative size')
        if sizes[sec] + size > (1 << 26):
            raise AsmTooBig('%s section larger than 64 MiB' % sec)
        items[sec].append((sizes[sec], kind, val))
        sizes[sec] += size

    def intarg(x):
        try:
            return int(x.decode(), 0)
        except ValueError:
            raise AsmError('non-integer argument %r' % x)

    for ln in raw:
        if ln.startswith(b'%section'):
            section = ln.split()[1].decode()
            if section not in ('state', 'const', 'code'):
                raise AsmError('bad section')
            continue
        if ln.startswith(b'%'):
            continue
        while True:
            m = re.match(rb'^([A-Za-z_][A-Za-z_0-9]*):\s*', ln)
            if not m:
                break
            name = m.group(1).decode()
            if name in labels:
                raise AsmError('duplicate label ' + name)
            if section is None:
                raise AsmError('label outside section')
            labels[name] = (section, len(code) if section == 'code' else sizes[section])
            ln = ln[m.end():]
        if not ln:
            continue
        if section == 'code':
            parts = ln.split(None, 1)
            op = parts[0].decode()
            ops = split_ops(parts[1]) if len(parts) > 1 else []
            if op not in ARITY:
                raise AsmError('unknown instruction %s' % op)
            if len(ops) != ARITY[op]:
                raise AsmError('wrong operand count for %s' % op)
            code.append((op, ops))
        elif section in ('state', 'const'):
            d, _, rest = ln.partition(b' ')
            d = d.decode()
            if d == '.word':
                ops = split_ops(rest)
                if not ops:
                    raise AsmError('.word without operands')
                for e in ops:
                    add(section, 'word', e, W)
            elif d == '.byte':
                ops = split_ops(rest)
                if not ops:
                    raise AsmError('.byte without operands')
                for e in ops:
                    add(section, 'byte', e, 1)
            elif d == '.zero':
                n = eval_static(rest.strip(), W, argc, {})
                if n < 0:
                    raise AsmError('.zero with negative size')
                if n > (1 << 26):
                    raise AsmTooBig('.zero %d' % n)
                add(section, 'bytes', bytes(n), n)
            elif d == '.ascii':
                rest = rest.strip()
                if rest[0:1] != b'"':
                    raise AsmError('.ascii needs a string')
                b, tail = parse_str(rest[1:], ord('"'))
                if tail.strip():
                    raise AsmError('junk after string')
                add(section, 'bytes', b, len(b))
            elif d == '.arg':
                ps = rest.split()
                if len(ps) < 2:
                    raise AsmError('bad .arg')
                name = ps[0].decode()
                fmt = ps[1].decode()
                arr = len(ps) > 2
                if name not in argmap:
                    raise AsmError('unknown argument ' + name)
                v = argmap[name]
                if fmt in ('word', 'byte'):
                    vals = v if isinstance(v, list) else [v]
                    for x in vals:
                        add(section, fmt, str(intarg(x)).encode(), W if fmt == 'word' else 1)
                elif fmt == 'asciip':
                    if arr:
                        for x in v:
                            lab = '__argstr_%d' % len(extra_const)
                            extra_const.append((lab, x))
                            add(section, 'word', lab.encode(), W)
                    else:
                        add(section, 'word', str(len(v)).encode(), W)
                        add(section, 'bytes', v, len(v))
                else:
                    raise AsmError('bad .arg format')
            else:
                raise AsmError('unknown directive %s' % d)
        else:
            raise AsmError('content outside section')
    for lab, x in extra_const:
        labels[lab] = ('const', sizes['const'])
        add('const', 'word', str(len(x)).encode(), W)
        add('const', 'bytes', x, len(x))
    lab = {k: v[1] for k, v in labels.items()}
    M = 1 << (8 * W)

    def build(sec):
        mem = bytearray(sizes[sec])
        for off, kind, val in items[sec]:
            if kind == 'bytes':
                mem[off:off + len(val)] = val
            elif kind == 'word':
                mem[off:off + W] = (eval_static(val, W, argc, lab) % M).to_bytes(W, 'little')
            else:
                mem[off] = eval_static(val, W, argc, lab) % 256
        return bytes(mem)

    def operand(o):
        o = o.strip()
        if o.startswith(b'[') and o.endswith(b']'):
            return ('s', eval_static(o[1:-1], W, argc, lab))
        if o.startswith(b'{') and o.endswith(b'}'):
            return ('c', eval_static(o[1:-1], W, argc, lab))
        return ('i', eval_static(o, W, argc, lab))

    p = Program()
    p.W = W
    p.labels = lab
    p.label_sections = {k: v[0] for k, v in labels.items()}
    p.state = build('state')
    p.const = build('const')
    p.code = []
    for op, ops in code:
        if op == 'flag':
            name = ops[0].decode()
            if name not in FLAGS:
                raise AsmError('unknown flag ' + name)
            p.code.append((op, [('f', FLAGS[name])]))
        else:
            p.code.append((op, [operand(o) for o in ops]))
    return p


def _b(v):
    return format(v, 'b')


def _op(o):
    return o[0] + _b(o[1])


def instr_line(op, a):
    if op == 'halt':
        return 'I H'
    if op in HC:
        return 'I HC %s %s %s' % (HC[op], _op(a[0]), _op(a[1]))
    if op == 'j':
        return 'I J ' + _op(a[0])
    if op == 'mov':
        return 'I MOV %s %s' % (_op(a[0]), _op(a[1]))
    if op in AR:
        return 'I AR %s %s %s %s' % (op, _op(a[0]), _op(a[1]), _op(a[2]))
    if op in ('lws', 'lwc', 'lbs', 'lbc'):
        return 'I LD %s %s %s %s' % ('W' if op[1] == 'w' else 'B', 'S' if op[2] == 's' else 'C', _op(a[0]), _op(a[1]))
    if op in ('lwso', 'lwco', 'lbso', 'lbco'):
        return 'I LDO %s %s %s %s %s' % ('W' if op[1] == 'w' else 'B', 'S' if op[2] == 's' else 'C', _op(a[0]), _op(a[1]), _op(a[2]))
    if op in ('sws', 'sbs'):
        return 'I ST %s %s %s' % ('W' if op[1] == 'w' else 'B', _op(a[0]), _op(a[1]))
    if op in ('swso', 'sbso'):
        return 'I STO %s %s %s %s' % ('W' if op[1] == 'w' else 'B', _op(a[0]), _op(a[1]), _op(a[2]))
    if op == 'yield':
        return 'I Y ' + _op(a[0])
    if op == 'sleep':
        return 'I SL ' + _op(a[0])
    if op == 'flag':
        return 'I F ' + _b(a[0][1])
    raise AsmError('unknown op ' + op)


def to_driver(p, ident, fuel=2_000_000, watch=(), monitor=False):
    out = ['P %s' % ident, 'W %s' % _b(p.W),
           'S ' + ' '.join(_b(b) for b in p.state),
           'C ' + ' '.join(_b(b) for b in p.const)]
    for op, a in p.code:
        out.append(instr_line(op, a))
    if watch:
        out.append('T ' + ' '.join(_b(x) for x in watch))
    if monitor and all(k in p.labels for k in ('stack_start', 'stack_end', 'all_is_win')):
        out.append('M %s %s %s' % (_b(p.labels['stack_start']), _b(p.labels['stack_end']), _b(p.labels['all_is_win'])))
    out.append('R %d' % fuel)
    return '\n'.join(out) + '\n'
