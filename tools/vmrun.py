"""Run assembled programs on the verified VM (ocaml/hidvm)."""
import os, subprocess, sys
from collections import namedtuple
import sasm

HERE = os.path.dirname(os.path.abspath(__file__))
HIDVM = os.path.join(HERE, '..', 'ocaml', 'hidvm')

Result = namedtuple('Result', 'ident kind pc out flags events snaps')
# events: list of ('o', byte) | ('f', flagname) | ('s', value);  snaps: list of (pc, ap, fp)


def parse_result(line):
    head, evs, snaps = [x.strip() for x in line.split('|')]
    ident, kind, pc = head.split()
    events = []
    for t in evs.split():
        v = int(t[1:], 2)
        events.append((t[0], sasm.FLAG_NAMES.get(v, str(v)) if t[0] == 'f' else v))
    sn = [tuple(int(x, 2) for x in t.split(':')) for t in snaps.split()]
    out = bytes(v for k, v in events if k == 'o')
    flags = [v for k, v in events if k == 'f']
    return Result(ident, kind, None if pc == '-' else int(pc, 2), out, flags, events, sn)


def run_batch(texts, timeout=600):
    """texts: list of driver-format program texts -> list of Result (same order)."""
    if not texts:
        return []
    data = ''.join(texts).encode()
    cmd = 'ulimit -s unlimited 2>/dev/null || ulimit -s 1000000 2>/dev/null; exec "%s"' % HIDVM
    p = subprocess.run(['bash', '-c', cmd], input=data, stdout=subprocess.PIPE, stderr=subprocess.PIPE, timeout=timeout)
    lines = p.stdout.decode().splitlines()
    res = [parse_result(l) for l in lines]
    if p.returncode != 0 or len(res) != len(texts):
        raise RuntimeError('hidvm failed rc=%s got %d/%d results: %s' % (p.returncode, len(res), len(texts), p.stderr.decode()[-500:]))
    return res


def run_lines(lines, args=(), fuel=2_000_000, watch=(), ident='x'):
    prog = sasm.assemble(lines, args)
    return run_batch([sasm.to_driver(prog, ident, fuel, watch)])[0], prog


if __name__ == '__main__':
    lines = open(sys.argv[1], 'rb').read().split(b'\n')
    r, _ = run_lines(lines, sys.argv[2:])
    print(r.kind, r.pc, r.flags)
    sys.stdout.write(r.out.decode('latin1'))
