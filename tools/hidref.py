"""Reference semantics of Halt is Defeat (the specification side of the behavioural sweeps).

Interprets the *checked* tree produced by hidc's own front end (public dataclass fields only),
at a given word size, with time travel by scoped backtracking with replay (DESIGN §3.5):
inside the dynamic extent of a try body every preempt (and, in checked builds, every return of a
preemptive defeat function) is a choice point with a preferred alternative (skip / return); the
body's result is the outcome of the lexicographically first decision list that does not end in
defeat.  Written from the README and the property texts, not from the code generator.

Outcome of run(): (end, flags, out, info)  with end in
  'win' | 'error' | 'diverged' | 'uninit' | 'undefined' | 'unsupported'
"""
import sys

sys.setrecursionlimit(20000)


class Break(Exception):
    pass


class Continue(Exception):
    pass


class Return(Exception):
    def __init__(self, value):
        self.value = value


class Defeat(Exception):
    pass


class Terminal(Exception):          # win / error state reached: absorbing
    def __init__(self, kind):
        self.kind = kind


class Abort(Exception):             # no verdict: diverged / uninit / undefined / unsupported
    def __init__(self, kind, why=''):
        self.kind = kind
        self.why = why


class Uninit:
    def __repr__(self):
        return 'UNINIT'


UNINIT = Uninit()


class Arr:
    """array object; views share `data`"""
    __slots__ = ('el', 'data', 'const', 'size')

    def __init__(self, el, data, const, size=0):
        self.el = el
        self.data = data
        self.const = const
        self.size = size

    def view_const(self):
        return Arr(self.el, self.data, True, 0)


def cname(x):
    return type(x).__name__


class Ref:
    def __init__(self, program, env, w=2, unchecked=False, fuel=300_000, max_replays=4000):
        self.prog = program
        self.env = env
        self.w = w
        self.M = 1 << (8 * w)
        self.unchecked = unchecked
        self.fuel = fuel
        self.max_replays = max_replays
        self.events = []
        self.globals = {}
        self.frames = []          # list of frames; frame = list of scopes (dict name -> value)
        self.alloc = []           # allocation stack: sizes in bytes of live stack arrays
        self.alloc_marks = []     # (len(events), sum(alloc)) samples at output events
        self.in_try = False
        self.dec = None           # preset decisions for the current replay
        self.made = None          # decisions made in the current replay
        self.forced = False       # stop re-run: every preempt taken
        self.replays = 0
        self.max_depth = 0
        self.wrapped = False

    # ---------------------------------------------------------------- values
    def wrap(self, v):
        if not (-(self.M >> 1) <= v < (self.M >> 1)):
            self.wrapped = True       # a value did not fit the word (used by C18: word-size monotonicity)
        v %= self.M
        return v - self.M if v >= self.M >> 1 else v

    def tick(self, n=1):
        self.fuel -= n
        if self.fuel < 0:
            raise Abort('diverged')

    def fault(self, kind):
        if self.unchecked and kind != 'explicit':
            raise Abort('undefined', kind)
        self.events.append(('f', kind))
        self.events.append(('f', 'error'))
        raise Terminal('error')

    def out(self, bs):
        a = sum(self.alloc)
        for b in bs:
            self.events.append(('o', b))
            self.alloc_marks.append(a)

    # ---------------------------------------------------------------- state snapshots
    def snapshot(self):
        arrays = {}

        def grab(v):
            if isinstance(v, Arr) and id(v.data) not in arrays:
                arrays[id(v.data)] = (v.data, list(v.data))
        for v in self.globals.values():
            grab(v)
        for fr in self.frames:
            for sc in fr:
                for v in sc.values():
                    grab(v)
        for a in self.live_arrays:
            if id(a) not in arrays:
                arrays[id(a)] = (a, list(a))
        return (dict(self.globals), [[dict(sc) for sc in fr] for fr in self.frames], arrays,
                len(self.events), list(self.alloc), len(self.alloc_marks), list(self.live_arrays))

    def restore(self, snap):
        g, frames, arrays, nev, alloc, nmarks, live = snap
        self.globals.clear()
        self.globals.update(g)
        del self.frames[len(frames):]
        for fr, saved in zip(self.frames, frames):
            del fr[len(saved):]
            for sc, sv in zip(fr, saved):      # in place: callers may hold the scope dicts
                sc.clear()
                sc.update(sv)
        for data, copy in arrays.values():
            data[:] = copy
        del self.events[nev:]
        self.alloc[:] = alloc
        del self.alloc_marks[nmarks:]
        self.live_arrays[:] = live

    # ---------------------------------------------------------------- program
    def run(self, args=()):
        self.live_arrays = []
        try:
            end = self._run(args)
        except Abort as a:
            return (a.kind, [v for k, v in self.events if k == 'f'], bytes(v for k, v in self.events if k == 'o'), a.why)
        except RecursionError:
            return ('diverged', [], b'', 'python recursion')
        flags = [v for k, v in self.events if k == 'f']
        out = bytes(v for k, v in self.events if k == 'o')
        return (end, flags, out, '')

    def _run(self, args):
        from hidc.ast import Ident
        try:
            for decl in self.prog.var_decls:
                self.globals[decl.var.name] = self.global_init(decl)
            is_you = self.env.funcs.get(Ident.you('is_you'), {})
            if len(is_you) != 1:
                raise Abort('unsupported', 'entry point')
            decl, = is_you.values()
            vals = self.bind_args(decl, list(args))
            self.call_decl(decl, vals)
            self.events.append(('f', 'win'))
            return 'win'
        except Terminal as t:
            return t.kind
        except (Defeat, Break, Continue) as e:
            raise Abort('unsupported', 'escaped %s at top level' % cname(e))

    def bind_args(self, decl, args):
        vals = []
        params = decl.params
        nfixed = sum(1 for p in params if cname(p.var.type) != 'ArrayType')
        if len(args) < nfixed:
            raise Abort('unsupported', 'too few args')
        i = 0
        for p in params:
            t = p.var.type
            if cname(t) == 'ArrayType':
                n = len(args) - nfixed
                xs = args[i:i + n]
                i += n
                el = t.el_type.name
                if el == 'INT':
                    data = [self.wrap(int(x)) for x in xs]
                elif el == 'BYTE':
                    data = [int(x) % 256 for x in xs]
                elif el == 'STRING':
                    data = [x.encode() if isinstance(x, str) else bytes(x) for x in xs]
                else:
                    raise Abort('unsupported', 'entry array type')
                vals.append(Arr(el, data, t.const))
            else:
                x = args[i]
                i += 1
                if t.name == 'INT':
                    vals.append(self.wrap(int(x)))
                elif t.name == 'BYTE':
                    vals.append(int(x) % 256)
                elif t.name == 'STRING':
                    vals.append(x.encode() if isinstance(x, str) else bytes(x))
                else:
                    raise Abort('unsupported', 'entry scalar type')
        if i != len(args):
            raise Abort('unsupported', 'too many args')
        return vals

    def global_init(self, decl):
        init = decl.init
        n = cname(init)
        if n in ('IntValue', 'ByteValue', 'BoolValue', 'StringValue'):
            return self.literal(init)
        if n == 'ArrayLiteral':
            el = init.type.el_type.name
            return Arr(el, [self.literal(v) for v in init.values], init.type.const)
        if n == 'ArrayInitializer' and cname(init.length) in ('IntValue', 'ByteValue'):
            el = init.type.el_type.name
            ln = init.length.data & (self.M - 1)
            zero = {'INT': 0, 'BYTE': 0, 'BOOL': False, 'STRING': UNINIT}[el]
            return Arr(el, [zero] * ln, init.type.const)
        raise Abort('unsupported', 'global initialiser')

    def literal(self, e):
        n = cname(e)
        if n == 'IntValue':
            return self.wrap(e.data)
        if n == 'ByteValue':
            return e.data & 0xFF
        if n == 'BoolValue':
            return bool(e.data)
        if n == 'StringValue':
            return bytes(e.data)
        raise Abort('unsupported', 'literal ' + n)

    # ---------------------------------------------------------------- functions
    def call_decl(self, decl, vals):
        self.tick(3)
        if len(self.frames) > 3000:
            raise Abort('diverged', 'call depth')
        self.max_depth = max(self.max_depth, len(self.frames))
        scope = {}
        for p, v in zip(decl.params, vals):
            scope[p.var.name] = v
        self.frames.append([scope])
        mark = len(self.alloc)
        live = len(self.live_arrays)
        try:
            self.exec_block(decl.body)
            raise Abort('unsupported', 'function body completed without return')
        except Return as r:
            value = r.value
        finally:
            del self.alloc[mark:]
            del self.live_arrays[live:]
            self.frames.pop()
        # checked builds: leaving a preemptive defeat function into unavoidable defeat is an error
        pre = getattr(self.env, '_ref_preemptive', None)
        is_pre = pre.get((decl.name, tuple(decl.param_types)), False) if pre is not None else decl.body.preemptive
        if (self.in_try and not self.forced and not self.unchecked and is_pre
                and decl.name.flavor.name == 'DEFEAT'):
            if self.choose():
                self.fault('nonlocal_preempt')
        return value

    def choose(self):
        """choice point inside a try extent: False = preferred alternative"""
        if self.forced:
            return True
        i = len(self.made)
        d = self.dec[i] if i < len(self.dec) else False
        self.made.append(d)
        return d

    def lookup(self, name):
        for sc in reversed(self.frames[-1]):
            if name in sc:
                return sc, name
        if name in self.globals:
            return self.globals, name
        raise Abort('unsupported', 'unbound ' + name)

    # ---------------------------------------------------------------- statements
    def exec_block(self, b):
        n = cname(b)
        self.tick()
        if n == 'CodeBlock':
            self.frames[-1].append({})
            mark = len(self.alloc)
            live = len(self.live_arrays)
            try:
                for st in b.stmts:
                    self.exec_stmt(st)
            finally:
                del self.alloc[mark:]
                del self.live_arrays[live:]
                self.frames[-1].pop()
        elif n == 'IfBlock':
            if self.truth(b.cond):
                self.exec_block(b.body)
            else:
                self.exec_block(b.else_block)
        elif n == 'LoopBlock':
            while self.truth(b.cond):
                self.tick()
                try:
                    self.exec_block(b.body)
                except Break:
                    break
                except Continue:
                    pass
                self.exec_block(b.cont)
        elif n == 'TryBlock':
            self.exec_try(b)
        elif n == 'PreemptBlock':
            if not self.in_try:
                raise Abort('unsupported', 'preempt outside try extent')
            if self.choose():
                self.exec_block(b.body)
        else:
            raise Abort('unsupported', 'block ' + n)

    def exec_try(self, b):
        if self.in_try:
            raise Abort('unsupported', 'nested try')
        snap = self.snapshot()
        decisions = []
        nframes = len(self.frames)
        depth_scopes = len(self.frames[-1])
        while True:
            self.replays += 1
            if self.replays > self.max_replays:
                raise Abort('diverged', 'too many replays')
            self.in_try, self.dec, self.made, self.forced = True, decisions, [], False
            try:
                try:
                    self.exec_block(b.body)
                finally:
                    self.in_try = False
                return
            except Defeat:
                made = self.made
                del self.frames[nframes:]
                del self.frames[-1][depth_scopes:]
                idx = max((i for i, d in enumerate(made) if not d), default=None)
                self.restore(snap)
                if idx is None:
                    break
                decisions = made[:idx] + [True]
        # every resolution of the choice points ends in defeat
        if cname(b.handler) == 'UndoBlock':
            self.exec_block(b.handler.body)
            return
        # stop: the body really runs (every preempt taken) up to the first defeat
        self.in_try, self.dec, self.made, self.forced = True, [], [], True
        try:
            try:
                self.exec_block(b.body)
            finally:
                self.in_try = False
                self.forced = False
            raise Abort('unsupported', 'forced re-run of a stop body did not reach defeat')
        except Defeat:
            del self.frames[nframes:]
            del self.frames[-1][depth_scopes:]
            del self.alloc[len(snap[4]):]
            self.live_arrays[:] = snap[6]
        self.exec_block(b.handler.body)

    def exec_stmt(self, st):
        n = cname(st)
        self.tick()
        if n in ('CodeBlock', 'IfBlock', 'LoopBlock', 'TryBlock', 'PreemptBlock'):
            self.exec_block(st)
            return
        mark = len(self.alloc)
        try:
            self.exec_stmt1(st, n)
        finally:
            if not (n == 'Declaration' and isinstance(self.frames and self.frames[-1][-1].get(st.var.name), Arr)):
                del self.alloc[mark:]

    def exec_stmt1(self, st, n):
        if n == 'Declaration':
            v = self.eval(st.init)
            self.frames[-1][-1][st.var.name] = v
        elif n == 'Assignment' or n == 'IncAssignment':
            self.assign(st, n == 'IncAssignment')
        elif n == 'ReturnStatement':
            raise Return(self.eval(st.value) if st.value is not None else None)
        elif n == 'BreakStatement':
            raise Break()
        elif n == 'ContinueStatement':
            raise Continue()
        elif n in ('CodeBlock', 'IfBlock', 'LoopBlock', 'TryBlock', 'PreemptBlock'):
            self.exec_block(st)
        else:
            self.eval(st)

    def assign(self, st, inc):
        lk = st.lookup
        if cname(lk) == 'VariableLookup':
            sc, name = self.lookup(lk.var.name)
            if inc:
                old = sc[name]
                rhs = self.eval(st.expr)
                val = self.arith(st.bin_op.__name__, self.as_int(old), self.as_int(rhs))
                sc2, name2 = self.lookup(lk.var.name)
                sc2[name2] = self.store_conv(lk.type, val)
            else:
                val = self.eval(st.expr)
                sc, name = self.lookup(lk.var.name)
                sc[name] = val
            return
        if cname(lk) != 'ArrayLookup':
            raise Abort('unsupported', 'assignment target')
        arr = self.eval(lk.source)
        if not isinstance(arr, Arr):
            raise Abort('unsupported', 'assignment to string element')   # defect F7 territory
        idx = self.eval(lk.index)
        self.check_index(idx, len(arr.data))
        if inc:
            old = arr.data[idx]
            if old is UNINIT:
                raise Abort('uninit')
            rhs = self.eval(st.expr)
            val = self.arith(st.bin_op.__name__, self.as_int(old), self.as_int(rhs))
            arr.data[idx] = self.store_conv(lk.type, val)
        else:
            arr.data[idx] = self.eval(st.expr)

    def store_conv(self, typ, val):
        if typ.name == 'BYTE':
            return val & 0xFF
        return val

    def check_index(self, idx, ln):
        if not (0 <= idx < ln):
            self.fault('out_of_bounds')

    # ---------------------------------------------------------------- expressions
    def as_int(self, v):
        if v is UNINIT:
            raise Abort('uninit')
        return int(v)

    def truth(self, e):
        v = self.eval(e)
        if v is UNINIT:
            raise Abort('uninit')
        return bool(v)

    def arith(self, op, a, b):
        if op == 'Add':
            return self.wrap(a + b)
        if op == 'Sub':
            return self.wrap(a - b)
        if op == 'Mul':
            return self.wrap(a * b)
        if op in ('Div', 'Mod'):
            if b == 0:
                self.fault('division_by_zero')
            return self.wrap(a // b if op == 'Div' else a % b)
        raise Abort('unsupported', 'arith ' + op)

    def eval(self, e):
        n = cname(e)
        self.tick()
        if n in ('IntValue', 'ByteValue', 'BoolValue', 'StringValue'):
            return self.literal(e)
        if n == 'VariableLookup':
            sc, name = self.lookup(e.var.name)
            v = sc[name]
            return v
        if n in ('Add', 'Sub', 'Mul', 'Div', 'Mod'):
            a = self.as_int(self.eval(e.left))
            b = self.as_int(self.eval(e.right))
            return self.arith(n, a, b)
        if n in ('Lt', 'Gt', 'Le', 'Ge', 'Eq', 'Ne'):
            a = self.as_int(self.eval(e.left))
            b = self.as_int(self.eval(e.right))
            return {'Lt': a < b, 'Gt': a > b, 'Le': a <= b, 'Ge': a >= b, 'Eq': a == b, 'Ne': a != b}[n]
        if n == 'And':
            return self.truth(e.left) and self.truth(e.right)
        if n == 'Or':
            return self.truth(e.left) or self.truth(e.right)
        if n == 'Not':
            return not self.truth(e.arg)
        if n == 'Neg':
            return self.wrap(-self.as_int(self.eval(e.arg)))
        if n == 'Pos':
            return self.as_int(self.eval(e.arg))
        if n == 'ByteToInt':
            return self.as_int(self.eval(e.expr))
        if n == 'IntToByte':
            return self.as_int(self.eval(e.expr)) & 0xFF
        if n == 'IntToBool':
            return self.as_int(self.eval(e.expr)) != 0
        if n == 'BoolToByte':
            return int(self.truth(e.expr))
        if n == 'StringToByteArray':
            s = self.eval(e.expr)
            if s is UNINIT:
                raise Abort('uninit')
            return Arr('BYTE', list(s), True)
        if n == 'Volatile':
            a = self.eval(e.expr)
            return a.view_const()
        if n == 'LengthLookup':
            mark = len(self.alloc)
            s = self.eval(e.source)
            if cname(e.source) == 'ArrayLiteral':
                del self.alloc[mark:]
            if s is UNINIT:
                raise Abort('uninit')
            return self.wrap(len(s.data) if isinstance(s, Arr) else len(s))
        if n == 'ArrayLookup':
            mark = len(self.alloc)
            src = self.eval(e.source)
            if src is UNINIT:
                raise Abort('uninit')
            idx = self.as_int(self.eval(e.index))
            data = src.data if isinstance(src, Arr) else src
            self.check_index(idx, len(data))
            v = data[idx]
            if cname(e.source) == 'ArrayLiteral':
                del self.alloc[mark:]
            if v is UNINIT:
                raise Abort('uninit')
            return v
        if n == 'ArrayLiteral':
            el = e.type.el_type.name
            vals = []
            allprim = e.type.const and all(cname(v) in ('IntValue', 'ByteValue', 'BoolValue', 'StringValue') for v in e.values)
            size = 0 if allprim else self.array_size(el, len(e.values))
            if not allprim:
                # the array is allocated before its elements are evaluated
                self.alloc.append(size)
            arr = Arr(el, vals, e.type.const, size)
            for v in e.values:
                vals.append(self.eval(v))
            if not allprim:
                self.live_arrays.append(vals)
            return arr
        if n == 'ArrayInitializer':
            el = e.type.el_type.name
            ln = self.as_int(self.eval(e.length))
            maxlen = ((self.M >> 1) - 1) if el in ('BYTE', 'BOOL') else ((self.M >> 1) - 1) // self.w
            if ln < 0 or ln > maxlen:
                self.fault('stack_overflow')
            if ln > 200_000:
                raise Abort('diverged', 'huge array')
            size = self.array_size(el, ln)
            self.alloc.append(size)
            data = [UNINIT] * ln
            self.live_arrays.append(data)
            return Arr(el, data, e.type.const, size)
        if n == 'Speculation':
            right = self.eval(e.right)
            snap = self.snapshot()
            left = self.eval(e.left)
            if left is UNINIT or right is UNINIT:
                raise Abort('uninit')
            if left == right:
                self.restore(snap)
                return right
            return left
        if n == 'FuncCall':
            return self.call(e)
        raise Abort('unsupported', 'expression ' + n)

    def array_size(self, el, ln):
        if el == 'BOOL':
            return (ln + 7) >> 3
        if el == 'BYTE':
            return ln
        return ln * self.w

    def decimal(self, v):
        return str(v).encode()

    def call(self, e):
        name = e.func.base_name
        flavor = e.func.flavor.name
        sig = tuple(a.type for a in e.args)
        try:
            decl = self.env.funcs[e.func][sig]
        except KeyError:
            raise Abort('unsupported', 'unresolved call ' + name)
        if cname(decl) == 'BuiltinStub':
            mark0 = len(self.alloc)
            try:
                return self.call_builtin(e, name, flavor)
            finally:
                del self.alloc[mark0:]
        mark = len(self.alloc)
        vals = [self.eval(a) for a in e.args]
        try:
            return self.call_decl(decl, vals)
        finally:
            del self.alloc[mark:]

    def call_builtin(self, e, name, flavor):
        if True:
            args = [self.eval(a) for a in e.args]
            for a in args:
                if a is UNINIT:
                    raise Abort('uninit')
            if name in ('write', 'writeln'):
                if args:
                    a = args[0]
                    t = e.args[0].type
                    if cname(t) == 'ArrayType':
                        bs = bytes(a.data) if all(x is not UNINIT for x in a.data) else None
                        if bs is None:
                            raise Abort('uninit')
                    elif t.name == 'STRING':
                        bs = a
                    elif t.name == 'INT':
                        bs = self.decimal(a)
                    elif t.name == 'BYTE':
                        bs = bytes([a])
                    elif t.name == 'BOOL':
                        bs = b'true' if a else b'false'
                    else:
                        raise Abort('unsupported', 'write type')
                    self.out(bs)
                if name == 'writeln':
                    self.out(b'\n')
                return None
            if name == 'is_defeat' and flavor == 'DEFEAT':
                raise Defeat()
            if name == 'truth_is_defeat' and flavor == 'DEFEAT':
                if args[0]:
                    raise Defeat()
                return None
            if name == 'all_is_win':
                self.events.append(('f', 'win'))
                raise Terminal('win')
            if name == 'all_is_broken':
                self.events.append(('f', 'error'))
                raise Terminal('error')
            if name == 'sleep':
                self.events.append(('s', args[0] % self.M))
                return None
            if name in ('debug', 'progress'):
                self.events.append(('f', name))
                return None
            raise Abort('unsupported', 'builtin ' + name)


def contains_preempt(node):
    """syntactic: does the block contain a preempt block anywhere (reachable or not)?  Computed on
    the PARSED tree, independently of the compiler's own `preemptive` bookkeeping."""
    n = cname(node)
    if n == 'PreemptBlock':
        return True
    if n == 'CodeBlock':
        return any(contains_preempt(s) for s in node.stmts)
    if n == 'IfBlock':
        return contains_preempt(node.body) or contains_preempt(node.else_block)
    if n == 'LoopBlock':
        return contains_preempt(node.body) or contains_preempt(node.cont)
    if n == 'TryBlock':
        return contains_preempt(node.body) or contains_preempt(node.handler.body)
    return False


def front_end(src, opts=None):
    from hidc.lexer import SourceCode
    from hidc.parser import parse
    from hidc.ast import Environment
    env = Environment.empty(**(opts or {}))
    parsed = parse(SourceCode.from_string(src))
    pre = {}
    for fd in parsed.func_decls:
        pre[(fd.name, tuple(fd.param_types))] = contains_preempt(fd.body)
    prog = parsed.evaluate(env)
    env.__dict__['_ref_preemptive'] = pre
    return prog, env


def run_source(src, args=(), w=2, unchecked=False, fuel=300_000):
    prog, env = front_end(src)
    r = Ref(prog, env, w, unchecked, fuel)
    res = r.run(args)
    return res, r


if __name__ == '__main__':
    import argparse
    sys.path.insert(0, '/repo')
    ap = argparse.ArgumentParser()
    ap.add_argument('file')
    ap.add_argument('args', nargs='*')
    ap.add_argument('-m', type=int, default=2)
    a = ap.parse_args()
    res, r = run_source(open(a.file).read(), a.args, a.m)
    print(res[0], res[1], res[3])
    sys.stdout.write(res[2].decode('latin1'))
