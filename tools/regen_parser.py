#!/venv/bin/python
"""Translator for component `parser` (property C11).

Reads hidc/parser/grammar.py (and the helper definitions it relies on in hidc/parser/rules.py,
hidc/ast/operators.py, hidc/lexer/tokens.py) with Python's `ast` module -- never importing or
executing repository code -- and writes coq/Gen/GenGrammar.v: the precedence ladder as data.

Fail closed: every function of the ladder is compared, after `ast.unparse` normalisation (which
drops comments and layout), with a template of the exact shape the hand-written generic parser
coq/HiD/ExprParser.v models.  The holes of the templates (sub-rule names, operator dicts) become
the generated data; anything else that differs raises CannotTranslate.

    generate(repo_root) -> {relative path under /verif: file text}
"""
import ast
import os
import re
import sys

sys.path.insert(0, os.path.dirname(os.path.abspath(__file__)))
from common import CannotTranslate, REPO, VERIF, write_if_changed  # noqa: E402

OUT = 'coq/Gen/GenGrammar.v'

# ---------------------------------------------------------------------------------------------
# templates: text of ast.unparse(function) with <<hole>> markers
# ---------------------------------------------------------------------------------------------

T_BIN_OP = '''async def bin_op(expr_rule, operators):
    if not (expr := (await expr_rule)):
        return
    while (op := (await OneOf(operators))):
        right = await expect(expr_rule)
        expr = operators[op.token](op.span, expr, right)
    return expr'''

T_DATA_TYPE = '''async def ps_data_type():
    if (tp := (await Instance(DataType))) and tp.token != DataType.EMPTY:
        return tp.token'''

T_EXPR0 = '''@Parser.routine('expression')
async def ps_expr0(ctx):
    if await Exact(BracToken.LPAREN):
        expr = await expect(<<paren_inner>>(ctx))
        await expect(Exact(BracToken.RPAREN))
        return expr
    elif (lit := (await Instance(IntToken))):
        return IntValue(lit.token.data, lit.span)
    elif (lit := (await Instance(CharToken))):
        return ByteValue(lit.token.data, lit.span, is_char=True)
    elif (lit := (await Instance(StringToken))):
        return StringValue(lit.token.data, lit.span)
    elif (lit := (await Instance(BoolToken))):
        return BoolValue(lit.token.data, lit.span)
    elif (start := (await Exact(BracToken.LSQUARE))):
        items = await comma_list(ps_expr(ctx))
        end = await expect(Exact(BracToken.RSQUARE))
        return ArrayLiteral(items, start.span | end.span)
    elif (func_call := (await ps_func_call(ctx))):
        return func_call
    elif (ident := (await ps_ident({Flavor.NONE}))):
        return VariableLookup(UnresolvedName(ident.token.name), ident.span)'''

T_EXPR1 = '''@Parser.routine('expression')
async def ps_expr1(ctx):
    if not (expr := (await <<postfix_base>>(ctx))):
        return
    while True:
        if await Exact(SepToken.DOT):
            attr = await expect(Exact(Ident('length')))
            expr = LengthLookup(expr, attr.span.end)
        elif await Exact(BracToken.LSQUARE):
            index = await expect(<<index_inner>>(ctx))
            end = await expect(Exact(BracToken.RSQUARE))
            expr = ArrayLookup(expr, index, end.span.end)
        else:
            break
    return expr'''

T_EXPR2 = '''@Parser.routine('expression')
async def ps_expr2(ctx):
    operators = <<unary_dict>>
    if (op := (await OneOf(operators))):
        return operators[op.token](op.span, await expect(<<unary_operand>>(ctx)))
    return await <<unary_fallthrough>>(ctx)'''

T_EXPR3 = '''@Parser.routine('expression')
async def ps_expr3(ctx):
    start = await cursor()
    if not (expr := (await <<is_operand>>(ctx))):
        return
    if not await Exact(OpToken.IS):
        return expr
    tp = await expect(ps_data_type())
    if await Exact(BracToken.LSQUARE):
        await expect(Exact(BracToken.RSQUARE))
        tp = ArrayType(tp, const=True)
    return Is(Span(start, await cursor()), expr, tp)'''

T_BINLEVEL = '''@Parser.routine('expression')
async def <<name>>(ctx):
    return await bin_op(<<sub>>(ctx), <<bin_dict>>)'''

T_EXPR = '''@Parser.routine('expression')
async def ps_expr(ctx):
    prev_node = await CurrentNode()
    if not (left := (await <<spec_first>>(ctx))):
        return
    if (lxm := (await Exact(OpToken.SPECULATION))):
        if BlockContext.YOU not in ctx:
            raise ParserError('speculation outside of you', lxm.span)
        await Teleport(prev_node)
        new_ctx = ctx & ~BlockContext.YOU | BlockContext.FUNC
        left = await expect(<<spec_left>>(new_ctx))
        await expect(Exact(OpToken.SPECULATION))
        right = await expect(<<spec_right>>(new_ctx))
        return Speculation(lxm.span, left, right)
    else:
        return left'''

# Helper definitions of rules.py whose exact behaviour the hand model assumes (matching one token,
# backtracking on None, `expect` raising on None, Teleport).  Pinned as normalised text.
T_RULES = {
    'Match': '''class Match(Rule):

    def __init__(self, match, *, expected=None):
        self.match = match
        self.expected = expected

    def process(self, start):
        if start and self.match(start.head.token):
            return (start.head, start.tail)
        return (None, start)''',
    'Exact': '''@dc.dataclass
class Exact(Match):
    token: Token

    def match(self, token):
        return self.token == token

    def __str__(self):
        return str(self.token)''',
    'Instance': '''@dc.dataclass
class Instance(Match):
    type: type

    def match(self, token):
        return isinstance(token, self.type)

    def __str__(self):
        return self.type.__name__''',
    'OneOf': '''@dc.dataclass
class OneOf(Match):
    tokens: Collection[Token]

    def match(self, token):
        return token in self.tokens

    def __str__(self):
        return f'one of {list(self.tokens)}\'''',
    'Parser': '''class Parser(Rule):

    def __init__(self, consume, *, expected=None, backtrack=True):
        self.consume = consume
        self.expected = expected
        self.backtrack = backtrack

    @classmethod
    def routine(cls, expected):

        def decorator(func):

            @functools.wraps(func)
            def wrapper(*args, **kwargs):
                return cls(functools.partial(func, *args, **kwargs), expected=expected)
            return wrapper
        return decorator

    def process(self, start):
        coro = self.consume()
        cur = start
        result = None
        try:
            while True:
                result, cur = coro.send(result).process(cur)
                if not self.backtrack:
                    start = cur
        except StopIteration as ret:
            if ret.value is not None:
                return (ret.value, cur)
            return (None, start)''',
    'CurrentNode': '''class CurrentNode(Rule):

    def process(self, start):
        return (start, start)''',
    'Teleport': '''class Teleport(Rule):

    def __init__(self, node):
        self.node = node

    def process(self, start):
        return (start, self.node)''',
    'expect': '''async def expect(rule, *, expected=None):
    if (result := (await rule)) is not None:
        return result
    raise await ParserError.expected(expected or str(rule))''',
}

OPTOKS = ['ADD', 'SUB', 'MUL', 'DIV', 'MOD', 'EQ', 'NE', 'LT', 'GT', 'LE', 'GE', 'OR', 'AND',
          'NOT', 'IS', 'SPECULATION']
DTYPES = ['INT', 'BOOL', 'BYTE', 'STRING', 'EMPTY']
BINOPS = ['Mul', 'Div', 'Mod', 'Add', 'Sub', 'Lt', 'Le', 'Gt', 'Ge', 'Eq', 'Ne', 'And', 'Or']
UNOPS = ['Pos', 'Neg', 'Not']


def _template_regex(template):
    parts = re.split(r'<<(\w+)>>', template)
    out = []
    for i, p in enumerate(parts):
        if i % 2 == 0:
            out.append(re.escape(p))
        elif p.endswith('_dict'):
            out.append('(?P<%s>\\{[^{}]*\\})' % p)
        else:
            out.append('(?P<%s>[A-Za-z_][A-Za-z_0-9]*)' % p)
    return re.compile(''.join(out) + r'\Z')


def _match(item, node, template):
    text = ast.unparse(node)
    m = _template_regex(template).match(text)
    if not m:
        raise CannotTranslate(item, 'body does not have the modelled shape; normalised source is\n'
                              + text)
    return m.groupdict()


def _read(repo_root, rel):
    path = os.path.join(repo_root, rel)
    try:
        with open(path) as f:
            src = f.read()
    except OSError as e:
        raise CannotTranslate(rel, 'cannot read: %s' % e)
    try:
        return ast.parse(src)
    except SyntaxError as e:
        raise CannotTranslate(rel, 'syntax error: %s' % e)


def _toplevel(tree, rel):
    """name -> list of top-level definitions (functions / classes) with that name."""
    d = {}
    for n in tree.body:
        if isinstance(n, (ast.AsyncFunctionDef, ast.FunctionDef, ast.ClassDef)):
            d.setdefault(n.name, []).append(n)
        elif isinstance(n, ast.Assign):
            for t in n.targets:
                if isinstance(t, ast.Name):
                    d.setdefault(t.id, []).append(n)
    return d


def _unique(defs, name, rel):
    got = defs.get(name, [])
    if len(got) != 1:
        raise CannotTranslate('%s:%s' % (rel, name), 'expected exactly one top-level definition, '
                              'found %d' % len(got))
    return got[0]


def _op_dict(item, text, allowed_classes):
    """'{OpToken.MUL: Mul, ...}' -> [('MUL', 'Mul'), ...], no duplicates, sorted by OpToken member
    order (the order of a dict literal with unique keys is immaterial to OneOf / dict lookup, so
    a mere reordering must not change the generated file)."""
    node = ast.parse(text, mode='eval').body
    if not isinstance(node, ast.Dict):
        raise CannotTranslate(item, 'operator table is not a dict literal')
    pairs = []
    for k, v in zip(node.keys, node.values):
        if not (isinstance(k, ast.Attribute) and isinstance(k.value, ast.Name)
                and k.value.id == 'OpToken' and k.attr in OPTOKS):
            raise CannotTranslate(item, 'dict key is not OpToken.<member>: %s'
                                  % (ast.unparse(k) if k is not None else '**'))
        if not (isinstance(v, ast.Name) and v.id in allowed_classes):
            raise CannotTranslate(item, 'dict value is not one of %s: %s'
                                  % (allowed_classes, ast.unparse(v)))
        pairs.append((k.attr, v.id))
    if len({k for k, _ in pairs}) != len(pairs):
        raise CannotTranslate(item, 'duplicate key in operator dict (Python keeps the last)')
    pairs.sort(key=lambda kv: OPTOKS.index(kv[0]))
    return pairs


def _enum_members(tree, rel, cls, expected):
    defs = _toplevel(tree, rel)
    node = _unique(defs, cls, rel)
    if not isinstance(node, ast.ClassDef):
        raise CannotTranslate('%s:%s' % (rel, cls), 'not a class')
    members = []
    for s in node.body:
        if (isinstance(s, ast.Assign) and len(s.targets) == 1
                and isinstance(s.targets[0], ast.Name) and isinstance(s.value, ast.Constant)
                and isinstance(s.value.value, str)):
            members.append((s.targets[0].id, s.value.value))
    if [m for m, _ in members] != expected:
        raise CannotTranslate('%s:%s' % (rel, cls), 'members %s differ from the %s of '
                              'ExprSyntax.v' % ([m for m, _ in members], expected))
    return members


def _check_operator_classes(tree, rel):
    """Every constructor tag must be a class of operators.py; Binary/Unary field order pinned
    (the grammar calls operators[tok](op_span, left, right) positionally)."""
    defs = _toplevel(tree, rel)
    for name in BINOPS + UNOPS + ['Speculation', 'Is', 'Binary', 'Unary']:
        node = _unique(defs, name, rel)
        if not isinstance(node, ast.ClassDef):
            raise CannotTranslate('%s:%s' % (rel, name), 'not a class')

    def fields(cls):
        node = _unique(defs, cls, rel)
        return [s.target.id for s in node.body
                if isinstance(s, ast.AnnAssign) and isinstance(s.target, ast.Name)]
    if fields('Binary') != ['op_span', 'left', 'right']:
        raise CannotTranslate('%s:Binary' % rel, 'fields are %s' % fields('Binary'))
    if fields('Unary') != ['op_span', 'arg']:
        raise CannotTranslate('%s:Unary' % rel, 'fields are %s' % fields('Unary'))
    if fields('Is') != ['span', 'expr', 'type']:
        raise CannotTranslate('%s:Is' % rel, 'fields are %s' % fields('Is'))
    for name in BINOPS + ['Speculation']:
        bases = [ast.unparse(b) for b in _unique(defs, name, rel).bases]
        if not any(b in ('Binary', 'BinaryArithmeticOp') for b in bases):
            raise CannotTranslate('%s:%s' % (rel, name), 'not a Binary subclass: %s' % bases)
    for name in UNOPS:
        bases = [ast.unparse(b) for b in _unique(defs, name, rel).bases]
        if not any(b in ('Unary', 'UnaryArithmeticOp') for b in bases):
            raise CannotTranslate('%s:%s' % (rel, name), 'not a Unary subclass: %s' % bases)


def _rule_number(item, name):
    m = re.fullmatch(r'ps_expr(\d+)', name)
    if not m:
        raise CannotTranslate(item, 'not a numbered ladder rule: %s' % name)
    return int(m.group(1))


def _rule_id(item, name):
    if name == 'ps_expr':
        return 'RTop'
    return '(R %d)' % _rule_number(item, name)


def extract(repo_root):
    """The ladder as a Python dict (also used by corr_parser.py's directed search)."""
    g_rel = 'hidc/parser/grammar.py'
    g = _read(repo_root, g_rel)
    defs = _toplevel(g, g_rel)

    # every ps_expr* definition must be one we know about (no shadowing redefinition)
    ladder_names = sorted(n for n in defs if re.fullmatch(r'ps_expr\d*', n))
    for n in ladder_names + ['bin_op', 'ps_data_type']:
        _unique(defs, n, g_rel)

    _match(g_rel + ':bin_op', _unique(defs, 'bin_op', g_rel), T_BIN_OP)
    _match(g_rel + ':ps_data_type', _unique(defs, 'ps_data_type', g_rel), T_DATA_TYPE)

    r_rel = 'hidc/parser/rules.py'
    r = _read(repo_root, r_rel)
    rdefs = _toplevel(r, r_rel)
    for name, tmpl in T_RULES.items():
        _match(r_rel + ':' + name, _unique(rdefs, name, r_rel), tmpl)

    t_rel = 'hidc/lexer/tokens.py'
    t = _read(repo_root, t_rel)
    _enum_members(t, t_rel, 'OpToken', OPTOKS)
    _enum_members(t, t_rel, 'DataType', DTYPES)

    o_rel = 'hidc/ast/operators.py'
    _check_operator_classes(_read(repo_root, o_rel), o_rel)

    need = ['ps_expr0', 'ps_expr1', 'ps_expr2', 'ps_expr3', 'ps_expr']
    for n in need:
        if n not in defs:
            raise CannotTranslate(g_rel + ':' + n, 'missing')

    e0 = _match(g_rel + ':ps_expr0', defs['ps_expr0'][0], T_EXPR0)
    e1 = _match(g_rel + ':ps_expr1', defs['ps_expr1'][0], T_EXPR1)
    e2 = _match(g_rel + ':ps_expr2', defs['ps_expr2'][0], T_EXPR2)
    e3 = _match(g_rel + ':ps_expr3', defs['ps_expr3'][0], T_EXPR3)
    et = _match(g_rel + ':ps_expr', defs['ps_expr'][0], T_EXPR)

    unary = _op_dict(g_rel + ':ps_expr2', e2['unary_dict'], UNOPS)

    # binary levels: every remaining numbered rule must be a bin_op level
    binrules = {}
    for n in ladder_names:
        if n in need:
            continue
        item = g_rel + ':' + n
        m = _match(item, defs[n][0], T_BINLEVEL)
        if m['name'] != n:
            raise CannotTranslate(item, 'internal: name mismatch')
        binrules[n] = (m['sub'], _op_dict(item, m['bin_dict'], BINOPS))

    # follow the call chain from the `??` operand rule down to the `is` rule
    if not (et['spec_first'] == et['spec_left'] == et['spec_right']):
        raise CannotTranslate(g_rel + ':ps_expr', 'the three operand rules of ps_expr differ: %s'
                              % et)
    chain = []
    cur = et['spec_left']
    seen = set()
    while cur != 'ps_expr3':
        if cur in seen or cur not in binrules:
            raise CannotTranslate(g_rel + ':' + cur, 'the chain of binary levels from %s does not '
                                  'reach ps_expr3 through bin_op levels' % et['spec_left'])
        seen.add(cur)
        sub, ops = binrules[cur]
        chain.append((cur, sub, ops))
        cur = sub
    unused = set(binrules) - seen
    if unused:
        raise CannotTranslate(g_rel, 'bin_op levels not reachable from ps_expr: %s'
                              % sorted(unused))
    chain.reverse()   # tightest first

    return {
        'paren_inner': e0['paren_inner'],
        'postfix_base': e1['postfix_base'],
        'index_inner': e1['index_inner'],
        'unary': unary,
        'unary_operand': e2['unary_operand'],
        'unary_fallthrough': e2['unary_fallthrough'],
        'is_operand': e3['is_operand'],
        'chain': chain,
        'spec_first': et['spec_first'],
        'spec_left': et['spec_left'],
        'spec_right': et['spec_right'],
    }


def _coq_pairs(pairs):
    return '[' + '; '.join('(%s, %s)' % p for p in pairs) + ']'


def render(lad):
    item = 'hidc/parser/grammar.py'
    lines = []
    w = lines.append
    w('(* REGENERATED by tools/regen_parser.py from hidc/parser/grammar.py -- do not edit.')
    w('   The precedence ladder ps_expr0 .. ps_expr8 / ps_expr as data. *)')
    w('From Coq Require Import List.')
    w('Import ListNotations.')
    w('From HidV.HiD Require Import ExprSyntax.')
    w('')
    w('(* Binary levels, tightest first; each level lists (operator token, constructor tag) sorted by\n   OpToken member order (keys of a dict literal are unique - checked - so dict order is immaterial). *)')
    w('Definition levels : list level :=')
    rows = []
    for name, sub, ops in lad['chain']:
        rows.append('    (* %s = bin_op(%s, ...) *) %s' % (name, sub, _coq_pairs(ops)))
    w('  [\n' + ';\n'.join(rows) + '\n  ].')
    w('')
    w('(* ps_expr2: unary operator token -> constructor tag. *)')
    w('Definition unary_ops : list (optok * unop) := %s.' % _coq_pairs(lad['unary']))
    w('')
    w('(* Rule numbers of the individual steps. *)')
    w('Definition is_sub_level : rule_id := %s.' % _rule_id(item, lad['is_operand']))
    w('Definition spec_operand_level : rule_id := %s.' % _rule_id(item, lad['spec_left']))
    w('Definition unary_operand_level : rule_id := %s.' % _rule_id(item, lad['unary_operand']))
    w('Definition unary_fallthrough_level : rule_id := %s.'
      % _rule_id(item, lad['unary_fallthrough']))
    w('')
    chain = '[' + '; '.join('(%d, %d)' % (_rule_number(item, n), _rule_number(item, s))
                            for n, s, _ in lad['chain']) + ']'
    w('Definition shape : ladder_shape := {|')
    w('  sh_paren_inner       := %s;' % _rule_id(item, lad['paren_inner']))
    w('  sh_postfix_rule      := 1;')
    w('  sh_postfix_base      := %s;' % _rule_id(item, lad['postfix_base']))
    w('  sh_postfix_forms     := [PfLength; PfIndex];')
    w('  sh_postfix_loops     := true;')
    w('  sh_index_inner       := %s;' % _rule_id(item, lad['index_inner']))
    w('  sh_unary_rule        := 2;')
    w('  sh_unary_operand     := unary_operand_level;')
    w('  sh_unary_fallthrough := unary_fallthrough_level;')
    w('  sh_is_rule           := 3;')
    w('  sh_is_operand        := is_sub_level;')
    w('  sh_is_chains         := false;')
    w('  sh_is_array_suffix   := true;')
    w('  sh_bin_chain         := %s;' % chain)
    w('  sh_bin_assoc         := AssocLeft;')
    w('  sh_spec_first        := %s;' % _rule_id(item, lad['spec_first']))
    w('  sh_spec_left         := spec_operand_level;')
    w('  sh_spec_right        := %s;' % _rule_id(item, lad['spec_right']))
    w('  sh_spec_chains       := false')
    w('|}.')
    w('')
    return '\n'.join(lines)


def generate(repo_root):
    return {OUT: render(extract(repo_root))}


def main(argv):
    repo = REPO
    if len(argv) > 1:
        repo = argv[1]
    try:
        files = generate(repo)
    except CannotTranslate as e:
        print('CannotTranslate: %s' % e)
        return 2
    for rel, text in files.items():
        changed = write_if_changed(os.path.join(VERIF, rel), text)
        print('%s %s' % ('wrote' if changed else 'unchanged', rel))
    return 0


if __name__ == '__main__':
    sys.exit(main(sys.argv))
