"""Correspondence check for the `exit` component (C16).

Generates function bodies as SOURCE TEXT, runs the real front end
(`hidc.parser.parse(SourceCode.from_string(src)).evaluate(Environment.empty(**options))`) and the
extracted Coq model (`Exit.elab_func` / `Exit.analyse` via ocaml/hidexit.ml) on the abstract block
built from the same generator tree, and compares

  (i)  accept / reject, with the kind of TypeCheckError ('Missing return statement',
       'Unreachable statement' under unreachable_error=True, return-value mismatches);
  (ii) for accepted functions: the statement count and exit mode of the final body, and -- in
       pre-order -- the exit mode of every evaluated block (CodeBlock: also its truncated
       statement count; the `cont` block of loops and the handler blocks included).

Inputs: an exhaustively enumerated small domain (see `rule` in the result) + random trees.
Stand-alone:  python tools/corr_exit.py --tier quick --seed 0
"""
import argparse, collections, itertools, json, os, random, shutil, subprocess, sys, time
sys.path.insert(0, os.path.dirname(os.path.abspath(__file__)))
from common import REPO, VERIF, CannotTranslate, write_if_changed, sha

COQ_FILES = ['Gen/GenExit.v', 'HiD/Exit.v', 'Extract/ExtractExit.v']

# ------------------------------------------------------------------------------------ trees
# statements:  ('plain', k) ('opaque', k) ('is_defeat',) ('win',) ('broken',) ('calld', k)
#              ('ret', has_value, opaque_value) ('break',) ('continue',)  | a block
# blocks:      ('code', [stmts]) ('if', cond, blk, blk|None) ('while', cond, blk)
#              ('for', init|None, cond|None, cont|None, blk) ('try', blk, 'undo'|'stop', blk)
#              ('preempt', blk)
# cond:        (kind, text)     kind in unknown/true/false/opaque
ATOM_KINDS = ('plain', 'opaque', 'is_defeat', 'win', 'broken', 'calld', 'ret', 'break', 'continue')
BLOCK_KINDS = ('code', 'if', 'while', 'for', 'try', 'preempt')

PLAIN_SRC = ['x = x + 1', 'int v%d = 3', 'write(x)', 'x + 1', 'all_is_win(1)', 'x += 2', 'bool w%d = c']
PLAIN_NODECL = [0, 2, 3, 4, 5]
OPAQUE_SRC = {'pcall': 'x = pf()', 'pstmt': 'pf()', 'dcall': 'x = !hi()', 'ddecl': 'int u%d = !hi()'}
CALLD_SRC = ['!d()', '!is_defeat(1)', '!hi()']
CONDS = {
    'unknown': ['c', 'x < 3', 'x == 1', 'c or true', 'not c'],
    'true': ['true', '1 == 1', 'not false', '1', 'T', 'true and true'],
    'false': ['false', '1 == 2', '0'],
    'opaque_d': ['!hb()'],       # defeat context only
    'opaque_p': ['pb()'],
}
HELPERS = [
    ('T', 'const bool T = true;'),
    ('!d(', 'empty !d() { }'),
    ('!hb(', 'bool !hb() { return true; }'),
    ('!hi(', 'int !hi() { return 1; }'),
    ('pf(', 'int pf() { return 1; }'),
    ('pb(', 'bool pb() { return true; }'),
    ('all_is_win(1)', 'empty all_is_win(int q) { }'),
    ('!is_defeat(1)', 'empty !is_defeat(int q) { }'),
]


class Namer:
    def __init__(self):
        self.n = 0

    def fresh(self, text):
        if '%d' in text:
            self.n += 1
            return text % self.n
        return text


def simple_src(s, nm):
    k = s[0]
    if k == 'plain':
        return nm.fresh(PLAIN_SRC[s[1]])
    if k == 'opaque':
        return nm.fresh(OPAQUE_SRC[s[1]])
    if k == 'is_defeat':
        return '!is_defeat()'
    if k == 'win':
        return 'all_is_win()'
    if k == 'broken':
        return 'all_is_broken()'
    if k == 'calld':
        return CALLD_SRC[s[1]]
    raise ValueError(s)


def stmt_src(s, nm):
    k = s[0]
    if k in BLOCK_KINDS:
        return block_src(s, nm)
    if k == 'ret':
        if not s[1]:
            return 'return;'
        return 'return !hi();' if s[2] else 'return x;'
    if k == 'break':
        return 'break;'
    if k == 'continue':
        return 'continue;'
    return simple_src(s, nm) + ';'


def block_src(b, nm):
    k = b[0]
    if k == 'code':
        return '{ ' + ' '.join(stmt_src(s, nm) for s in b[1]) + (' ' if b[1] else '') + '}'
    if k == 'if':
        t = 'if (%s) %s' % (b[1][1], block_src(b[2], nm))
        return t if b[3] is None else t + ' else ' + block_src(b[3], nm)
    if k == 'while':
        return 'while (%s) %s' % (b[1][1], block_src(b[2], nm))
    if k == 'for':
        init = simple_src(b[1], nm) if b[1] else ''
        cond = b[2][1] if b[2] else ''
        cont = simple_src(b[3], nm) if b[3] else ''
        return 'for (%s; %s; %s) %s' % (init, cond, cont, block_src(b[4], nm))
    if k == 'try':
        return 'try %s %s %s' % (block_src(b[1], nm), b[2], block_src(b[3], nm))
    if k == 'preempt':
        return 'preempt ' + block_src(b[1], nm)
    raise ValueError(b)


def cond_sx(c):
    return {'unknown': 'unknown', 'true': 'true', 'false': 'false', 'opaque_d': 'opaque', 'opaque_p': 'opaque'}[c[0]]


def simple_sx(s):
    return {'plain': 'plain', 'opaque': 'opaque', 'is_defeat': 'is_defeat', 'win': 'win', 'broken': 'broken',
            'calld': 'calld'}[s[0]]


def stmt_sx(s):
    k = s[0]
    if k in BLOCK_KINDS:
        return block_sx(s)
    if k == 'ret':
        return 'ret%d%d' % (1 if s[1] else 0, 1 if (s[1] and s[2]) else 0)
    if k in ('break', 'continue'):
        return k
    return simple_sx(s)


def block_sx(b):
    """abstract block; `for` is desugared as LoopBlock.for_loop does"""
    k = b[0]
    if k == 'code':
        return '(code' + ''.join(' ' + stmt_sx(s) for s in b[1]) + ')'
    if k == 'if':
        return '(if %s %s %s)' % (cond_sx(b[1]), block_sx(b[2]), block_sx(b[3]) if b[3] is not None else '(code)')
    if k == 'while':
        return '(loop %s %s none)' % (cond_sx(b[1]), block_sx(b[2]))
    if k == 'for':
        loop = '(loop %s %s %s)' % (cond_sx(b[2]) if b[2] else 'true', block_sx(b[4]), simple_sx(b[3]) if b[3] else 'none')
        return '(code %s%s)' % (simple_sx(b[1]) + ' ' if b[1] else '', loop)
    if k == 'try':
        return '(try %s %s %s)' % (block_sx(b[1]), b[2], block_sx(b[3]))
    if k == 'preempt':
        return '(preempt %s)' % block_sx(b[1])
    raise ValueError(b)


FLAVOR_PREFIX = {'plain': '', 'you': '@', 'defeat': '!'}


def open_tail(b):
    """would an `else` written after this block attach to an if inside it (dangling else)?"""
    k = b[0]
    if k == 'code':
        return False
    if k == 'if':
        return True if b[3] is None else open_tail(b[3])
    return open_tail({'while': b[2:3], 'for': b[4:5], 'try': b[3:4], 'preempt': b[1:2]}[k][0])


def norm(s):
    """the tree both renderers use: a then-branch that would capture the else is put in braces"""
    k = s[0]
    if k not in BLOCK_KINDS:
        return s
    if k == 'code':
        return ('code', [norm(x) for x in s[1]])
    if k == 'if':
        t, e = norm(s[2]), (norm(s[3]) if s[3] is not None else None)
        if e is not None and open_tail(t):
            t = ('code', [t])
        return ('if', s[1], t, e)
    if k == 'while':
        return ('while', s[1], norm(s[2]))
    if k == 'for':
        return s[:4] + (norm(s[4]),)
    if k == 'try':
        return ('try', norm(s[1]), s[2], norm(s[3]))
    return ('preempt', norm(s[1]))


def program_src(test):
    flavor, ret, body = test
    body = [norm(x) for x in body]
    nm = Namer()
    fn = '%s %st(bool c, int x) %s' % ('int' if ret == 'v' else 'empty', FLAVOR_PREFIX[flavor], block_src(('code', body), nm))
    hs = [h for key, h in HELPERS if (key in fn if key != 'T' else ('(T)' in fn or ' T;' in fn))]
    return '\n'.join(hs + [fn]) + '\n'


def model_line(test, ue):
    flavor, ret, body = test
    return '%d %d %s (%s)' % (1 if ue else 0, 1 if flavor == 'defeat' else 0, ret, ' '.join(stmt_sx(norm(s)) for s in body))


# ------------------------------------------------------------------------------------ impl side
ERRS = {
    'Unreachable statement': 'R unreachable',
    'Missing return statement': 'R missing_return',
    'Missing return value': 'R missing_return_value',
    'Unexpected return value in function returning empty': 'R unexpected_return_value',
}


def impl_survey(block, out):
    from hidc.ast import blocks as B
    if isinstance(block, B.CodeBlock):
        out.append('0:%d:%d' % (len(block.stmts), block.exit_modes().value))
        for s in block.stmts:
            if isinstance(s, B.Block):
                impl_survey(s, out)
    elif isinstance(block, B.IfBlock):
        out.append('1:0:%d' % block.exit_modes().value)
        impl_survey(block.body, out)
        impl_survey(block.else_block, out)
    elif isinstance(block, B.LoopBlock):
        out.append('2:0:%d' % block.exit_modes().value)
        impl_survey(block.body, out)
        impl_survey(block.cont, out)
    elif isinstance(block, B.TryBlock):
        out.append('3:0:%d' % block.exit_modes().value)
        impl_survey(block.body, out)
        h = block.handler
        tag = 4 if isinstance(h, B.UndoBlock) else 5 if isinstance(h, B.StopBlock) else 9
        out.append('%d:0:%d' % (tag, h.exit_modes().value))
        impl_survey(h.body, out)
    elif isinstance(block, B.PreemptBlock):
        out.append('6:0:%d' % block.exit_modes().value)
        impl_survey(block.body, out)
    else:
        out.append('?:%s' % type(block).__name__)


def impl_run(src):
    """-> (result with unreachable_error=False, result with unreachable_error=True)"""
    from hidc.lexer import SourceCode
    from hidc.parser import parse
    from hidc.ast import Environment
    from hidc.ast import blocks as B
    from hidc.errors import TypeCheckError, ParserError
    try:
        tree = parse(SourceCode.from_string(src))
    except ParserError as e:
        r = 'P ' + str(e).split('\n')[0][:80]
        return r, r
    except Exception as e:                                 # noqa
        r = 'C parse: %s: %s' % (type(e).__name__, str(e)[:80])
        return r, r
    res = []
    progs = []
    for ue in (False, True):
        try:
            prog = tree.evaluate(Environment.empty(unreachable_error=ue) if ue else Environment.empty())
            progs.append(prog)
            f = prog.func_decls[-1]
            out = ['A %d %d' % (len(f.body.stmts), f.body.exit_modes().value)]
            for s in f.body.stmts:
                if isinstance(s, B.Block):
                    impl_survey(s, out)
            res.append(' '.join(out))
        except TypeCheckError as e:
            msg = e.args[0] if e.args else str(e)
            res.append(ERRS.get(msg, 'T ' + str(msg)[:80]))
        except AssertionError:
            res.append('X')
        except Exception as e:                             # noqa
            res.append('C evaluate: %s: %s' % (type(e).__name__, str(e)[:80]))
    # C18: when both modes accept, the evaluated trees must be identical (dataclass equality of
    # the whole Program; the modes, which do not take part in ==, are in the survey strings).
    # The model proves this (Exit.lint_only_rejects), so the marker below can never match it.
    if len(progs) == 2 and (progs[0] != progs[1] or res[0] != res[1]):
        res[1] += ' LINT-CHANGES-TREE'
    return tuple(res)


def _impl_chunk(srcs):
    return [impl_run(s) for s in srcs]


def impl_all(srcs, jobs):
    if jobs <= 1 or len(srcs) < 400:
        return _impl_chunk(srcs)
    import multiprocessing as mp
    n = 200
    chunks = [srcs[i:i + n] for i in range(0, len(srcs), n)]
    with mp.get_context('fork').Pool(jobs) as pool:
        outs = pool.map(_impl_chunk, chunks)
    return [r for o in outs for r in o]


# ------------------------------------------------------------------------------------ model side
def build_model(workdir, log):
    """regenerate Gen/GenExit.v from REPO, compile the component's cone, extract, build driver."""
    import regen_exit
    files = regen_exit.generate(REPO)                      # may raise CannotTranslate
    for rel, text in files.items():
        if write_if_changed(os.path.join(VERIF, rel), text):
            log.append('regenerated ' + rel)
    coq = os.path.join(VERIF, 'coq')
    for f in COQ_FILES:
        p = subprocess.run(['timeout', '600', 'coqc', '-Q', '.', 'HidV', f], cwd=coq, capture_output=True, text=True)
        if p.returncode != 0:
            raise RuntimeError('coqc %s failed:\n%s' % (f, (p.stderr or p.stdout)[-1500:]))
    os.makedirs(workdir, exist_ok=True)
    oc = os.path.join(VERIF, 'ocaml')
    for f in ('hidexit_core.ml', 'hidexit_core.mli', 'hidexit.ml'):
        shutil.copy(os.path.join(oc, f), os.path.join(workdir, f))
    p = subprocess.run(['timeout', '300', 'ocamlfind', 'ocamlopt', 'hidexit_core.mli', 'hidexit_core.ml', 'hidexit.ml',
                        '-o', 'hidexit'], cwd=workdir, capture_output=True, text=True)
    if p.returncode != 0:
        raise RuntimeError('ocaml build failed:\n' + (p.stderr or p.stdout)[-1500:])
    return os.path.join(workdir, 'hidexit')


def model_all(exe, lines):
    p = subprocess.run([exe], input='\n'.join(lines) + '\n', capture_output=True, text=True, timeout=900)
    out = p.stdout.split('\n')
    if out and out[-1] == '':
        out.pop()
    if p.returncode != 0 or len(out) != len(lines):
        raise RuntimeError('model driver failed (%d lines for %d inputs): %s' % (len(out), len(lines), p.stderr[-500:]))
    return out


# ------------------------------------------------------------------------------------ enumeration
def ctx_make(flavor):
    return {'you': flavor == 'you', 'defeat': flavor == 'defeat', 'loop': False}


def atoms_for(ctx, ret, full):
    """the atom alphabet of the exhaustive domain in this context"""
    a = [('plain', 0)]
    if full:
        a.append(('broken',))
    a.append(('win',))
    a.append(('ret', ret == 'v', False))
    if ctx['defeat']:
        a += [('is_defeat',), ('calld', 0)]
    if ctx['loop']:
        a += [('break',), ('continue',)]
    return a


def seqs_of(alphabet, maxlen):
    for n in range(maxlen + 1):
        for t in itertools.product(alphabet, repeat=n):
            yield list(t)


def blocks_for(ctx, ret, inner_len, full):
    """every block statement whose sub-blocks are code blocks holding <= inner_len atoms"""
    def bodies(c):
        return [('code', s) for s in seqs_of(atoms_for(c, ret, full), inner_len)]
    here = bodies(ctx)
    inloop = bodies(dict(ctx, loop=True))
    out = []
    for b in here:
        out.append(b)
        out.append(('if', ('unknown', 'c'), b, None))
        if full:
            out.append(('if', ('true', 'true'), b, None))
        if ctx['defeat']:
            out.append(('preempt', b))
    for b, e in itertools.product(here, here):
        out.append(('if', ('unknown', 'c'), b, e))
    for b in inloop:
        out.append(('while', ('unknown', 'c'), b))
        out.append(('while', ('true', 'true'), b))
        out.append(('for', None, None, None, b))
        if full:
            out.append(('while', ('false', 'false'), b))
            out.append(('for', ('plain', 1), ('unknown', 'x < 3'), ('plain', 5), b))
            if ctx['defeat']:
                out.append(('for', None, None, ('is_defeat',), b))
                out.append(('for', ('is_defeat',), ('unknown', 'c'), None, b))
    if ctx['you']:
        tctx = dict(ctx, you=False, defeat=True)
        for b in bodies(tctx):
            for h in here:
                out.append(('try', b, 'undo', h))
                out.append(('try', b, 'stop', h))
    return out


def enumerate_domain(tier):
    """-> (tests, description).  A test is (flavor, ret, body statements)."""
    full = tier != 'quick'
    tests = []
    for flavor in ('plain', 'you', 'defeat'):
        for ret in ('e', 'v'):
            ctx = ctx_make(flavor)
            atoms = atoms_for(ctx, ret, True)
            # D1: all atom sequences of length <= 3 directly in the function body, and inside
            #     `while (c)`, `while (true)` and `for (;;)` bodies (there with break / continue)
            for s in seqs_of(atoms, 3):
                tests.append((flavor, ret, s))
            latoms = atoms_for(dict(ctx, loop=True), ret, full)
            for s in seqs_of(latoms, 3):
                tests.append((flavor, ret, [('while', ('unknown', 'c'), ('code', s))]))
                tests.append((flavor, ret, [('while', ('true', 'true'), ('code', s))]))
                tests.append((flavor, ret, [('for', None, None, None, ('code', s))]))
            # D2: sequences of length <= 3 with exactly one block statement (nesting depth 2) whose
            #     sub-blocks hold at most one atom; the other statements are atoms
            blks = blocks_for(ctx, ret, 1, full)
            side = atoms_for(ctx, ret, full)
            for n in (1, 2, 3):
                for pos in range(n):
                    for rest in itertools.product(side, repeat=n - 1):
                        for b in blks:
                            s = list(rest)
                            s.insert(pos, b)
                            tests.append((flavor, ret, s))
            # D3 (thorough only): the same with sub-blocks holding <= 2 atoms, in sequences of length <= 2
            if full:
                blks2 = blocks_for(ctx, ret, 2, False)
                side2 = atoms_for(ctx, ret, False)
                for b in blks2:
                    tests.append((flavor, ret, [b]))
                    for a in side2:
                        tests.append((flavor, ret, [a, b]))
                        tests.append((flavor, ret, [b, a]))
    desc = ('for every flavour (plain, you, defeat) and return type (empty, int): D1 = all sequences of <= 3 atoms '
            '[plain, all_is_win, all_is_broken, return, + !is_defeat and a defeat-function call in defeat context, '
            '+ break, continue in loops] as the function body and as the body of while(c) / while(true) / for(;;); '
            'D2 = all statement sequences of length <= 3 containing exactly one block statement (code, if, if/else, '
            'while(c), while(true), for(;;), preempt in defeat context, try/undo and try/stop in you context%s) whose '
            'sub-blocks hold <= 1 atom, the other statements being atoms%s'
            % (', if(true), while(false), for with init/cont' if full else '',
               '; D3 = sequences of length <= 2 with one block statement whose sub-blocks hold <= 2 atoms' if full
               else ' (all_is_broken only in D1)'))
    return tests, desc


# ------------------------------------------------------------------------------------ random
class Gen:
    def __init__(self, rng, ret):
        self.r = rng
        self.ret = ret

    def cond(self, ctx):
        kinds = ['unknown'] * 5 + ['true'] * 3 + ['false'] + ['opaque_p']
        if ctx['defeat']:
            kinds.append('opaque_d')
        k = self.r.choice(kinds)
        return (k, self.r.choice(CONDS[k]))

    def simple(self, ctx, decl_ok):
        ch = ['plain'] * 5 + ['opaque', 'win', 'broken']
        if ctx['defeat']:
            ch += ['is_defeat', 'calld', 'calld', 'opaque']
        k = self.r.choice(ch)
        if k == 'plain':
            return ('plain', self.r.choice(range(len(PLAIN_SRC)) if decl_ok else PLAIN_NODECL))
        if k == 'opaque':
            opts = ['pcall', 'pstmt'] + (['dcall'] + (['ddecl'] if decl_ok else []) if ctx['defeat'] else [])
            return ('opaque', self.r.choice(opts))
        if k == 'calld':
            return ('calld', self.r.randrange(len(CALLD_SRC)))
        return (k,)

    def stmt(self, ctx, depth):
        w = [('simple', 8), ('ret', 3)]
        if ctx['loop']:
            w += [('break', 2), ('continue', 2)]
        if depth > 0:
            w += [('block', 9)]
        k = self.r.choices([a for a, _ in w], [b for _, b in w])[0]
        if k == 'simple':
            return self.simple(ctx, True)
        if k == 'ret':
            v = self.ret == 'v'
            if self.r.random() < 0.04:
                v = not v                                   # a return of the wrong kind
            return ('ret', v, v and ctx['defeat'] and self.r.random() < 0.2)
        if k in ('break', 'continue'):
            return (k,)
        return self.block(ctx, depth - 1, stmt_pos=True)

    def code(self, ctx, depth):
        n = self.r.choice([0, 1, 1, 2, 2, 3, 3, 4])
        out = []
        for i in range(n):
            s = self.stmt(ctx, depth)
            # statements after which everything is dropped are mostly put last, so that the
            # deeper parts of the tree are actually evaluated
            if i < n - 1 and s[0] in ('ret', 'break', 'continue', 'is_defeat', 'win', 'broken') and self.r.random() < 0.7:
                s = self.stmt(ctx, depth)
            out.append(s)
        return ('code', out)

    def block(self, ctx, depth, stmt_pos=False):
        """a block in `ps_block` position: any block kind; mostly code blocks for sub-blocks"""
        kinds = ['code'] * (2 if stmt_pos else 6) + ['if'] * 3 + ['while'] * 3 + ['for'] * 2
        if ctx['you']:
            kinds += ['try'] * 3
        if ctx['defeat']:
            kinds += ['preempt'] * 2
        if depth <= 0:
            kinds = ['code']
        k = self.r.choice(kinds)
        if k == 'code':
            return self.code(ctx, depth)
        if k == 'if':
            e = self.block(ctx, depth - 1) if self.r.random() < 0.5 else None
            return ('if', self.cond(ctx), self.block(ctx, depth - 1), e)
        lctx = dict(ctx, loop=True)
        if k == 'while':
            return ('while', self.cond(ctx), self.block(lctx, depth - 1))
        if k == 'for':
            init = self.simple(ctx, True) if self.r.random() < 0.5 else None
            cond = self.cond(ctx) if self.r.random() < 0.6 else None
            cont = self.simple(ctx, False) if self.r.random() < 0.5 else None
            return ('for', init, cond, cont, self.block(lctx, depth - 1))
        if k == 'try':
            tctx = dict(ctx, you=False, defeat=True)
            return ('try', self.block(tctx, depth - 1), self.r.choice(['undo', 'stop']), self.block(ctx, depth - 1))
        return ('preempt', self.block(ctx, depth - 1))


def random_tests(rng, count):
    tests = []
    for _ in range(count):
        flavor = rng.choice(['plain', 'you', 'you', 'defeat', 'defeat'])
        ret = rng.choice(['e', 'v'])
        g = Gen(rng, ret)
        depth = rng.choice([1, 2, 2, 3, 3, 4])
        body = g.code(ctx_make(flavor), depth)[1]
        tests.append((flavor, ret, body))
    return tests


# ------------------------------------------------------------------------------------ histogram / shrinking
def walk(s, hist, depth, stats):
    k = s[0]
    stats['depth'] = max(stats['depth'], depth)
    if k not in BLOCK_KINDS:
        hist['stmt:' + k] += 1
        if k == 'ret':
            hist['stmt:ret:%s%s' % ('value' if s[1] else 'novalue', ':opaque' if s[2] else '')] += 1
        return
    hist['block:' + k] += 1
    stats['blocks'] += 1
    if k == 'code':
        hist['code_len:%d' % min(len(s[1]), 5)] += 1
        for x in s[1]:
            walk(x, hist, depth + 1, stats)
        return
    if k == 'if':
        hist['cond:if:' + s[1][0]] += 1
        hist['if:' + ('else' if s[3] is not None else 'noelse')] += 1
        subs = [s[2]] + ([s[3]] if s[3] is not None else [])
    elif k == 'while':
        hist['cond:loop:' + s[1][0]] += 1
        subs = [s[2]]
    elif k == 'for':
        hist['cond:loop:' + (s[2][0] if s[2] else 'absent(true)')] += 1
        hist['for:init:' + (s[1][0] if s[1] else 'none')] += 1
        hist['for:cont:' + (s[3][0] if s[3] else 'none')] += 1
        subs = [s[4]]
    elif k == 'try':
        hist['try:' + s[2]] += 1
        subs = [s[1], s[3]]
    else:
        subs = [s[1]]
    for b in subs:
        if b[0] != 'code':
            hist['nonbrace_subblock:' + b[0]] += 1
        walk(b, hist, depth + 1, stats)


def shrink_candidates(body):
    """smaller variants of a statement list (delta debugging on the generator tree)"""
    out = []
    for i, s in enumerate(body):
        out.append(body[:i] + body[i + 1:])                     # drop a statement
        if s[0] in BLOCK_KINDS:
            for v in block_variants(s):
                out.append(body[:i] + [v] + body[i + 1:])
            if s[0] == 'code':
                out.append(body[:i] + s[1] + body[i + 1:])      # splice a nested code block
        elif s[0] != 'plain':
            out.append(body[:i] + [('plain', 0)] + body[i + 1:])
    return out


def block_variants(b):
    k = b[0]
    out = []
    if k == 'code':
        for c in shrink_candidates(b[1]):
            out.append(('code', c))
        return out
    subs = {'if': [2, 3], 'while': [2], 'for': [4], 'try': [1, 3], 'preempt': [1]}[k]
    for i in subs:
        if b[i] is None:
            continue
        out.append(b[i])                                        # replace the block by a sub-block
        for v in block_variants(b[i]):
            out.append(b[:i] + (v,) + b[i + 1:])
        if b[i][0] != 'code':
            out.append(b[:i] + (('code', []),) + b[i + 1:])
    if k == 'if' and b[3] is not None:
        out.append(b[:3] + (None,))
    if k == 'for':
        for i in (1, 2, 3):
            if b[i] is not None:
                out.append(b[:i] + (None,) + b[i + 1:])
    if k in ('if', 'while') and b[1][1] != 'c' and b[1][0] == 'unknown':
        out.append((k, ('unknown', 'c')) + b[2:])
    return out


def tree_size(body):
    return len(json.dumps(body))


def evaluate_tests(exe, tests, jobs):
    srcs = [program_src(t) for t in tests]
    impl = impl_all(srcs, jobs)
    lines = []
    for t in tests:
        lines.append(model_line(t, False))
        lines.append(model_line(t, True))
    mo = model_all(exe, lines)
    return srcs, impl, [(mo[2 * i], mo[2 * i + 1]) for i in range(len(tests))]


def shrink(exe, test, budget=400):
    flavor, ret, body = test

    def differs(b):
        _, impl, model = evaluate_tests(exe, [(flavor, ret, b)], 1)
        if impl[0][0].startswith('P '):
            return False                                        # shrinking left the language
        return impl[0] != model[0]
    cur = body
    steps = 0
    progress = True
    while progress and steps < budget:
        progress = False
        for c in sorted(shrink_candidates(cur), key=tree_size):
            steps += 1
            if tree_size(c) < tree_size(cur) and differs(c):
                cur = c
                progress = True
                break
            if steps >= budget:
                break
    return (flavor, ret, cur)


# ------------------------------------------------------------------------------------ entry point
def run(tier='quick', seed=0, workdir=None, exe=None):
    t0 = time.time()
    own = workdir is None
    workdir = workdir or os.path.join(VERIF, '.work', 'exit', 'corr-%d' % os.getpid())
    os.makedirs(workdir, exist_ok=True)
    if REPO not in sys.path:
        sys.path.insert(0, REPO)
    rng = random.Random(seed)
    jobs = max(1, min(12, (os.cpu_count() or 2) - 1))
    log = []
    result = {'evaluations': 0, 'distinct_nontrivial': 0, 'samples': [], 'disagreements': [], 'exhaustive': False,
              'distribution': {}, 'rule': '', 'tier': tier, 'seed': seed, 'repo': REPO}
    try:
        try:
            if exe is None:
                exe = build_model(workdir, log)
            else:
                log.append('model driver given: ' + exe)
        except CannotTranslate as e:
            result['disagreements'].append({'input': 'tools/regen_exit.py', 'model': 'CannotTranslate: %s' % e, 'impl': REPO})
            return result
        except RuntimeError as e:
            result['disagreements'].append({'input': 'model build', 'model': str(e), 'impl': REPO})
            return result
        enum_tests, desc = enumerate_domain(tier)
        rnd = random_tests(rng, 9000 if tier == 'quick' else 150000)
        tests = enum_tests + rnd
        srcs, impl, model = evaluate_tests(exe, tests, jobs)
        hist = collections.Counter()
        seen = set()
        nontrivial = 0
        dis = []
        for i, t in enumerate(tests):
            origin = 'enumerated' if i < len(enum_tests) else 'random'
            hist['origin:' + origin] += 1
            hist['flavor:' + t[0]] += 1
            hist['ret:' + ('int' if t[1] == 'v' else 'empty')] += 1
            stats = {'depth': 0, 'blocks': 0}
            for s in t[2]:
                walk(s, hist, 1, stats)
            hist['body_len:%d' % min(len(t[2]), 5)] += 1
            hist['depth:%d' % stats['depth']] += 1
            for ue in (0, 1):
                hist['impl(ue=%d):%s' % (ue, impl[i][ue].split(' ')[0] + (' ' + impl[i][ue].split(' ')[1] if impl[i][ue][0] in 'RT' else ''))] += 1
            if impl[i][0].startswith('A') and ' ' in impl[i][0]:
                hist['dropped_statements:%s' % ('yes' if impl[i][1].startswith('R unreachable') else 'no')] += 1
            key = sha(json.dumps(t))
            if key not in seen:
                seen.add(key)
                if stats['blocks'] > 0 or len(t[2]) >= 2:
                    nontrivial += 1
            if impl[i][0].startswith('A') and impl[i][1].startswith('A'):
                hist['lint:both_accept:%s' % ('same_tree' if impl[i][0] == impl[i][1] else 'DIFFERENT_TREE')] += 1
            if impl[i] != model[i]:
                dis.append(i)
        result['evaluations'] = 2 * len(tests)
        result['distinct_nontrivial'] = nontrivial
        result['rule'] = ('non-trivial = the function body holds a block statement or at least two statements; each '
                          'program is evaluated with unreachable_error off and on.  Exhaustive part: ' + desc +
                          '.  Random part: %d trees of depth <= 4 (all statement and block kinds, for-loops with '
                          'init/cond/cont, non-brace sub-blocks, constant / folded / opaque conditions, a few returns of '
                          'the wrong kind)' % len(rnd))
        result['exhaustive'] = True
        result['enumerated'] = len(enum_tests)
        result['random'] = len(rnd)
        result['distribution'] = dict(sorted(hist.items()))
        for i in [rng.randrange(len(tests)) for _ in range(6)] + [len(enum_tests) + k for k in range(2)]:
            result['samples'].append({'source': srcs[i], 'abstract': model_line(tests[i], False),
                                      'impl': list(impl[i]), 'model': list(model[i])})
        result['disagreement_count'] = len(dis)
        for i in dis[:6]:
            small = shrink(exe, tests[i])
            s2, i2, m2 = evaluate_tests(exe, [small], 1)
            result['disagreements'].append({'input': s2[0], 'abstract': model_line(small, False), 'model': list(m2[0]),
                                            'impl': list(i2[0]), 'original_input': srcs[i]})
        for i in dis[6:40]:
            result['disagreements'].append({'input': srcs[i], 'abstract': model_line(tests[i], False),
                                            'model': list(model[i]), 'impl': list(impl[i]), 'shrunk': False})
        return result
    finally:
        result['log'] = log
        result['seconds'] = round(time.time() - t0, 1)
        if own:
            shutil.rmtree(workdir, ignore_errors=True)


if __name__ == '__main__':
    ap = argparse.ArgumentParser()
    ap.add_argument('--tier', default=os.environ.get('VERIF_TIER', 'quick'), choices=['quick', 'thorough'])
    ap.add_argument('--seed', type=int, default=int(os.environ.get('VERIF_SEED', '0')))
    ap.add_argument('--workdir', default=None)
    ap.add_argument('--full', action='store_true', help='print the whole result as JSON')
    ap.add_argument('--exe', default=None, help='use this prebuilt model driver instead of regenerating and building '
                    '(experiments only: compares the implementation with a model built from another tree)')
    a = ap.parse_args()
    r = run(a.tier, a.seed, a.workdir, a.exe)
    if a.full:
        print(json.dumps(r, indent=1))
    else:
        brief = {k: r[k] for k in ('evaluations', 'distinct_nontrivial', 'exhaustive', 'seconds') if k in r}
        brief['enumerated'] = r.get('enumerated')
        brief['random'] = r.get('random')
        brief['disagreements'] = r.get('disagreement_count', len(r['disagreements']))
        print(json.dumps(brief))
        for d in r['disagreements'][:6]:
            print('DISAGREEMENT')
            print('  input   :', d['input'].replace('\n', '\n            '))
            print('  abstract:', d.get('abstract'))
            print('  model   :', d['model'])
            print('  impl    :', d['impl'])
    sys.exit(1 if r['disagreements'] else 0)
