#!/venv/bin/python
"""Correspondence for component `parser` (property C11).

Runs the extracted Coq ladder parser (coq/HiD/ExprParser.v, on the ladder regenerated from the
repository's working tree) and hidc's own expression parser on the same token sequences and
compares result kind, tree (one S-expression syntax) and unconsumed tokens.  It also checks the
property's round trip on the IMPLEMENTATION: hidc parses the text of `tokens_min e` (the Coq
printer, documented table) back to `e`.

Inputs
  1 exhaustive : all pairs and triples of the 13 binary operators and `??`, every
                 parenthesisation; unary prefixes, postfix forms, `is` casts around every operator
  2 random     : expression trees to depth 6 (thorough: 8), printed with minimal parentheses (by
                 the model's printer) and with random redundant parentheses (by a second, Python
                 printer that is cross-checked against the model's)
  3 malformed  : random token sequences (error behaviour: OK / None / ParserError)

    run(tier, seed, workdir) -> dict      python tools/corr_parser.py --tier quick --seed 0
"""
import argparse
import itertools
import json
import os
import random
import shutil
import subprocess
import sys
import time

sys.path.insert(0, os.path.dirname(os.path.abspath(__file__)))
from common import CannotTranslate, REPO, VERIF, sha  # noqa: E402
import regen_parser  # noqa: E402

MARKER = '(* Well-formedness of a table'

BINOPS = ['Mul', 'Div', 'Mod', 'Add', 'Sub', 'Lt', 'Le', 'Gt', 'Ge', 'Eq', 'Ne', 'And', 'Or']
UNOPS = ['Pos', 'Neg', 'Not']
TYPES = ['int', 'bool', 'byte', 'string', 'empty']

# README.rst, "Operators / In order of precedence" -- used by the second (Python) printer only
DOC_LEVELS = [['Mul', 'Div', 'Mod'], ['Add', 'Sub'], ['Eq', 'Ne', 'Lt', 'Le', 'Gt', 'Ge'],
              ['And'], ['Or']]
BIN_TOK = {'Mul': 'MUL', 'Div': 'DIV', 'Mod': 'MOD', 'Add': 'ADD', 'Sub': 'SUB', 'Lt': 'LT',
           'Le': 'LE', 'Gt': 'GT', 'Ge': 'GE', 'Eq': 'EQ', 'Ne': 'NE', 'And': 'AND', 'Or': 'OR'}
UN_TOK = {'Pos': 'ADD', 'Neg': 'SUB', 'Not': 'NOT'}
TOPK = 4 + len(DOC_LEVELS)


# ------------------------------------------------------------------------------------------------
# building the model
# ------------------------------------------------------------------------------------------------

def build_model(workdir, repo):
    """Compile the model part of ExprParser.v against a GenGrammar.v regenerated from `repo`,
    extract, build the driver.  Returns (path of executable, info dict)."""
    info = {}
    cq = os.path.join(workdir, 'coq')
    for d in ('HiD', 'Gen', 'Extract'):
        os.makedirs(os.path.join(cq, d), exist_ok=True)
    os.makedirs(os.path.join(workdir, 'ocaml'), exist_ok=True)
    src = os.path.join(VERIF, 'coq')
    shutil.copy(os.path.join(src, 'HiD', 'ExprSyntax.v'), os.path.join(cq, 'HiD'))
    shutil.copy(os.path.join(src, 'Extract', 'ExtractParser.v'), os.path.join(cq, 'Extract'))
    with open(os.path.join(src, 'HiD', 'ExprParser.v')) as f:
        text = f.read()
    cut = text.find(MARKER)
    if cut < 0:
        raise RuntimeError('marker not found in ExprParser.v')
    cut = text.rfind('(* ====', 0, cut)
    # Only the executable definitions (parser, printer, documented table) are compiled here; the
    # proofs are checked by the Coq build.  The executable model must exist even when a theorem
    # about the regenerated instance fails (that is when a counterexample is wanted).
    with open(os.path.join(cq, 'HiD', 'ExprParser.v'), 'w') as f:
        f.write(text[:cut])
    try:
        gen = regen_parser.generate(repo)[regen_parser.OUT]
        info['regen'] = 'ok'
    except CannotTranslate as e:
        info['regen'] = 'CannotTranslate: %s' % e
        with open(os.path.join(src, 'Gen', 'GenGrammar.v')) as f:
            gen = f.read()
    with open(os.path.join(src, 'Gen', 'GenGrammar.v')) as f:
        info['gen_matches_checked_in'] = (f.read() == gen)
    with open(os.path.join(cq, 'Gen', 'GenGrammar.v'), 'w') as f:
        f.write(gen)
    for v in ('HiD/ExprSyntax.v', 'Gen/GenGrammar.v', 'HiD/ExprParser.v',
              'Extract/ExtractParser.v'):
        p = subprocess.run(['timeout', '300', 'coqc', '-Q', '.', 'HidV', v], cwd=cq,
                           capture_output=True, text=True)
        if p.returncode != 0:
            raise RuntimeError('coqc %s failed:\n%s' % (v, p.stderr[-2000:]))
    oc = os.path.join(workdir, 'ocaml')
    shutil.copy(os.path.join(VERIF, 'ocaml', 'exprparser.ml'), oc)
    p = subprocess.run(['timeout', '300', 'ocamlfind', 'ocamlopt', '-w', '-a',
                        'exprparser_core.mli', 'exprparser_core.ml', 'exprparser.ml',
                        '-o', 'exprparser'], cwd=oc, capture_output=True, text=True)
    if p.returncode != 0:
        raise RuntimeError('ocaml build failed:\n%s' % p.stderr[-2000:])
    return os.path.join(oc, 'exprparser'), info


class Model:
    def __init__(self, exe):
        self.exe = exe

    def batch(self, lines):
        if not lines:
            return []
        p = subprocess.run([self.exe], input='\n'.join(lines) + '\n', capture_output=True,
                           text=True, timeout=600)
        out = p.stdout.split('\n')
        if out and out[-1] == '':
            out.pop()
        if p.returncode != 0 or len(out) != len(lines):
            raise RuntimeError('model driver failed (%d lines for %d requests): %s'
                               % (len(out), len(lines), p.stderr[-500:]))
        return out

    def parse(self, toks, you):
        return self.batch(['P %d %s' % (1 if you else 0, ' '.join(toks))])[0]


# ------------------------------------------------------------------------------------------------
# trees, S-expressions, the second printer
# ------------------------------------------------------------------------------------------------

def binz(n):
    return ('-' if n < 0 else '') + bin(abs(n))[2:]


def sexp(e):
    k = e[0]
    if k == 'Int':
        return '(Int %s)' % binz(e[1])
    if k == 'Bool':
        return '(Bool %d)' % (1 if e[1] else 0)
    if k == 'Var':
        return '(Var %d)' % e[1]
    if k == 'Is':
        return '(Is %s %s %d)' % (sexp(e[1]), e[2], 1 if e[3] else 0)
    return '(%s %s)' % (k, ' '.join(sexp(c) for c in e[1:]))


def prefix(e):
    k = e[0]
    if k == 'Int':
        return 'Int %s' % binz(e[1])
    if k == 'Bool':
        return 'Bool %d' % (1 if e[1] else 0)
    if k == 'Var':
        return 'Var %d' % e[1]
    if k == 'Is':
        return 'Is %s %s %d' % (prefix(e[1]), e[2], 1 if e[3] else 0)
    return '%s %s' % (k, ' '.join(prefix(c) for c in e[1:]))


def children(e):
    k = e[0]
    if k in ('Int', 'Bool', 'Var'):
        return []
    if k == 'Is':
        return [e[1]]
    return list(e[1:])


def with_children(e, cs):
    k = e[0]
    if k == 'Is':
        return ('Is', cs[0], e[2], e[3])
    return (k,) + tuple(cs)


def depth(e):
    cs = children(e)
    return 1 + (max(depth(c) for c in cs) if cs else 0)


def wf(e, you=True):
    k = e[0]
    if k == 'Int':
        return e[1] >= 0
    if k == 'Is' and e[2] == 'empty':
        return False
    if k == 'Spec':
        return you and wf(e[1], False) and wf(e[2], False)
    return all(wf(c, you) for c in children(e))


def level_of(e):
    k = e[0]
    if k in ('Int', 'Bool', 'Var'):
        return 0
    if k in ('Len', 'Idx'):
        return 1
    if k in UNOPS:
        return 2
    if k == 'Is':
        return 3
    if k == 'Spec':
        return TOPK
    for j, lv in enumerate(DOC_LEVELS):
        if k in lv:
            return 4 + j
    raise ValueError(k)


def py_tokens(e, rng=None, extra=0.0):
    """Second printer (documented table).  With rng/extra it adds redundant parentheses."""
    def pr(k, c):
        ts = tk(c)
        if level_of(c) > k:
            ts = ['('] + ts + [')']
        while rng is not None and rng.random() < extra:
            ts = ['('] + ts + [')']
        return ts

    def tk(x):
        k = x[0]
        if k == 'Int':
            return ['i' + binz(x[1])]
        if k == 'Bool':
            return ['t' if x[1] else 'f']
        if k == 'Var':
            return ['v%d' % x[1]]
        if k in UNOPS:
            return ['o' + UN_TOK[k]] + pr(2, x[1])
        if k == 'Is':
            return pr(2, x[1]) + ['oIS', 'y' + x[2]] + (['[', ']'] if x[3] else [])
        if k == 'Spec':
            return pr(TOPK - 1, x[1]) + ['oSPECULATION'] + pr(TOPK - 1, x[2])
        if k == 'Len':
            return pr(1, x[1]) + ['.', 'v0']
        if k == 'Idx':
            return pr(1, x[1]) + ['['] + pr(TOPK, x[2]) + [']']
        L = level_of(x)
        return pr(L, x[1]) + ['o' + BIN_TOK[k]] + pr(L - 1, x[2])
    return pr(TOPK, e)


# ------------------------------------------------------------------------------------------------
# the implementation
# ------------------------------------------------------------------------------------------------

class Impl:
    def __init__(self, repo):
        sys.path.insert(0, repo)
        for m in [m for m in sys.modules if m == 'hidc' or m.startswith('hidc.')]:
            del sys.modules[m]
        import hidc.parser.rules as rules
        import hidc.parser.grammar as grammar
        import hidc.lexer.tokens as T
        import hidc.ast as A
        from hidc.utils.lazylist import lazy_list
        from hidc.lexer import lex, SourceCode
        from hidc.errors import ParserError
        assert os.path.realpath(rules.__file__).startswith(os.path.realpath(repo)), rules.__file__
        self.rules, self.g, self.T, self.A = rules, grammar, T, A
        self.lazy_list, self.lex, self.SourceCode, self.ParserError = (
            lazy_list, lex, SourceCode, ParserError)

    def text(self, toks):
        T = self.T
        out = []
        for t in toks:
            c = t[0]
            if c == 'i':
                n = int(t[1:], 2)
                if n < 0:
                    raise ValueError('a negative integer token cannot be written as text')
                out.append(str(n))
            elif c == 't':
                out.append(T.BoolToken.TRUE.value)
            elif c == 'f':
                out.append(T.BoolToken.FALSE.value)
            elif c == 'v':
                out.append('length' if t == 'v0' else t)
            elif c == 'o':
                out.append(T.OpToken[t[1:]].value)
            elif c == 'y':
                out.append(T.DataType(t[1:]).value)
            else:
                out.append(t)
        return ' '.join(out)

    def tok_str(self, tok):
        T = self.T
        if isinstance(tok, T.IntToken):
            return 'i' + binz(tok.data)
        if isinstance(tok, T.BoolToken):
            return 't' if tok.data else 'f'
        if isinstance(tok, T.Ident):
            if tok.flavor == T.Flavor.NONE and tok.base_name == 'length':
                return 'v0'
            if (tok.flavor == T.Flavor.NONE and tok.base_name[0] == 'v'
                    and tok.base_name[1:].isdigit()):
                return 'v%d' % int(tok.base_name[1:])
            return '?ident:' + tok.name
        if isinstance(tok, T.OpToken):
            return 'o' + tok.name
        if isinstance(tok, T.DataType):
            return 'y' + tok.value
        if isinstance(tok, (T.BracToken, T.SepToken)) and tok.value in '()[].,':
            return tok.value
        return '?' + repr(tok)

    def sexp(self, n):
        A, T = self.A, self.T
        name = type(n).__name__
        if name == 'IntValue':
            return '(Int %s)' % binz(n.data)
        if name == 'BoolValue':
            return '(Bool %d)' % (1 if n.data else 0)
        if name == 'VariableLookup':
            nm = getattr(n.var, 'name', None)
            if nm == 'length':
                return '(Var 0)'
            if isinstance(nm, str) and nm[:1] == 'v' and nm[1:].isdigit():
                return '(Var %d)' % int(nm[1:])
            return '(?Var %r)' % (nm,)
        if name in UNOPS:
            return '(%s %s)' % (name, self.sexp(n.arg))
        if name == 'Is':
            tp = n.type
            if isinstance(tp, T.DataType):
                return '(Is %s %s 0)' % (self.sexp(n.expr), tp.value)
            if type(tp).__name__ == 'ArrayType' and tp.const is True:
                return '(Is %s %s 1)' % (self.sexp(n.expr), tp.el_type.value)
            return '(Is %s ?%r)' % (self.sexp(n.expr), tp)
        if name in BINOPS:
            return '(%s %s %s)' % (name, self.sexp(n.left), self.sexp(n.right))
        if name == 'Speculation':
            return '(Spec %s %s)' % (self.sexp(n.left), self.sexp(n.right))
        if name == 'LengthLookup':
            return '(Len %s)' % self.sexp(n.source)
        if name == 'ArrayLookup':
            return '(Idx %s %s)' % (self.sexp(n.source), self.sexp(n.index))
        return '(?%s)' % name

    def parse(self, toks, you):
        g = self.g
        ctx = g.BlockContext.YOU if you else g.BlockContext.FUNC
        try:
            rule = self.rules.Parser(g.ps_expr(ctx).consume, backtrack=False)
            src = self.SourceCode.from_string(self.text(toks))
            result, remaining = rule.process(self.lazy_list(self.lex(src)))
            if result is None:
                return 'NONE'
            rest = []
            while remaining:
                rest.append(self.tok_str(remaining.head.token))
                remaining = remaining.tail
            return 'OK %s | %s' % (self.sexp(result), ' '.join(rest))
        except self.ParserError:
            return 'ERR'
        except Exception as e:   # any other exception is itself a finding
            return 'EXC %s: %s' % (type(e).__name__, e)


# ------------------------------------------------------------------------------------------------
# generators
# ------------------------------------------------------------------------------------------------

OPS14 = ['o' + BIN_TOK[b] for b in BINOPS] + ['oSPECULATION']
UTOKS = ['o' + UN_TOK[u] for u in UNOPS]
A_, B_, C_, D_ = 'v1', 'v2', 'v3', 'v4'
LEN = ['.', 'v0']


def exhaustive_cases(thorough=False):
    """(category, tokens) for the finite domains."""
    P = lambda *xs: ['('] + [t for x in xs for t in (x if isinstance(x, list) else [x])] + [')']
    F = lambda *xs: [t for x in xs for t in (x if isinstance(x, list) else [x])]
    for o1, o2 in itertools.product(OPS14, repeat=2):
        yield 'pair', F(A_, o1, B_, o2, C_)
        yield 'pair-paren', F(P(A_, o1, B_), o2, C_)
        yield 'pair-paren', F(A_, o1, P(B_, o2, C_))
    for o1, o2, o3 in itertools.product(OPS14, repeat=3):
        yield 'triple', F(A_, o1, B_, o2, C_, o3, D_)
        yield 'triple-paren', F(P(P(A_, o1, B_), o2, C_), o3, D_)
        yield 'triple-paren', F(P(A_, o1, P(B_, o2, C_)), o3, D_)
        yield 'triple-paren', F(P(A_, o1, B_), o2, P(C_, o3, D_))
        yield 'triple-paren', F(A_, o1, P(P(B_, o2, C_), o3, D_))
        yield 'triple-paren', F(A_, o1, P(B_, o2, P(C_, o3, D_)))
        if thorough:   # partial parenthesisations
            yield 'triple-paren', F(A_, o1, P(B_, o2, C_), o3, D_)
            yield 'triple-paren', F(A_, o1, B_, o2, P(C_, o3, D_))
            yield 'triple-paren', F(P(A_, o1, B_), o2, C_, o3, D_)
    for u in UTOKS:
        yield 'unary', F(u, A_)
        yield 'unary', F(u)
        yield 'unary-postfix', F(u, A_, LEN)
        yield 'unary-postfix', F(u, A_, '[', B_, ']')
        yield 'unary-postfix', F(P(u, A_), LEN)
        yield 'unary-postfix', F(P(u, A_), '[', B_, ']')
        yield 'unary-postfix', F(A_, '[', u, B_, ']')
        for u2 in UTOKS:
            yield 'unary', F(u, u2, A_)
            yield 'unary', F(u, P(u2, A_))
            for o in OPS14:
                yield 'unary-binary', F(u, A_, o, u2, B_)
        for o in OPS14:
            yield 'unary-binary', F(u, A_, o, B_)
            yield 'unary-binary', F(A_, o, u, B_)
            yield 'unary-binary', F(u, P(A_, o, B_))
            yield 'unary-binary', F(A_, o, u)
        for t in TYPES:
            yield 'unary-is', F(u, A_, 'oIS', 'y' + t)
            yield 'unary-is', F(u, P(A_, 'oIS', 'y' + t))
            yield 'unary-is', F(A_, 'oIS', u, 'y' + t)
    for t in TYPES:
        for arr in ([], ['[', ']']):
            T = ['oIS', 'y' + t] + arr
            yield 'is', F(A_, T)
            yield 'is', F(A_, T, LEN)
            yield 'is', F(A_, T, '[', B_, ']')
            yield 'is', F(P(A_, T), '[', B_, ']')
            yield 'is', F(P(A_, T), LEN)
            yield 'is', F(A_, LEN, T)
            yield 'is', F(A_, '[', B_, ']', T)
            yield 'is', F(A_, '[', B_, T, ']')
            for t2 in TYPES:
                for arr2 in ([], ['[', ']']):
                    yield 'is-chain', F(A_, T, 'oIS', 'y' + t2, arr2)
                    yield 'is-chain', F(P(A_, T), 'oIS', 'y' + t2, arr2)
            for o in OPS14:
                yield 'is-binary', F(A_, o, B_, T)
                yield 'is-binary', F(A_, T, o, B_)
                yield 'is-binary', F(P(A_, o, B_), T)
                yield 'is-binary', F(A_, T, o, B_, T)
        yield 'is', F(A_, 'oIS', 'y' + t, '[')
        yield 'is', F(A_, 'oIS', 'y' + t, '[', B_)
    yield 'is', F(A_, 'oIS')
    yield 'is', F(A_, 'oIS', B_)
    yield 'is', F('oIS', 'yint')
    for o in OPS14:
        yield 'postfix-binary', F(A_, o, B_, LEN)
        yield 'postfix-binary', F(A_, o, B_, '[', C_, ']')
        yield 'postfix-binary', F(P(A_, o, B_), LEN)
        yield 'postfix-binary', F(P(A_, o, B_), '[', C_, ']')
        yield 'postfix-binary', F(A_, '[', B_, o, C_, ']')
        yield 'postfix-binary', F(A_, LEN, o, B_)
        yield 'postfix-binary', F(A_, '[', B_, ']', o, C_)
        yield 'postfix-binary', F(A_, '[', B_, ']', o, C_, '[', D_, ']', LEN)
        yield 'dangling', F(A_, o)
        yield 'dangling', F(o, A_)
        yield 'dangling', F(A_, o, ')')
        yield 'dangling', F('(', A_, o, B_)
    for toks in (F(A_, LEN, LEN), F(A_, '[', B_, ']', '[', C_, ']'), F(A_, '[', B_, ']', LEN, '[', C_, ']'),
                 F(A_, '.', B_), F(A_, '.'), F(A_, '['), F(A_, '[', ']'), F(A_, '[', B_), F('v0', LEN),
                 F('v0'), F('i101', LEN), F('t', '[', 'f', ']'), F(P(A_)), F(P(P(A_))), F('(', ')'),
                 F('(', A_), F(')'), F(), F(A_, B_), F(A_, 'i1'), F(A_, ','), F(',')):
        yield 'postfix-misc', toks


def gen_tree(rng, d, you=True, bad=0.0):
    """Random tree of depth <= d.  `bad` = probability of deliberately ill-formed choices."""
    if d <= 1 or rng.random() < 0.12:
        r = rng.random()
        if r < 0.55:
            return ('Var', rng.choice([0, 1, 2, 3, 4, 5]) if rng.random() < 0.1 else rng.randint(1, 5))
        if r < 0.85:
            # (a negative IntToken does not exist: the lexer reads `-5` as SUB 5; not generated)
            return ('Int', rng.choice([0, 1, 2, 7, 255, 256, 65535, 2 ** 31,
                                       rng.randint(0, 10 ** 6)]))
        return ('Bool', rng.random() < 0.5)
    r = rng.random()
    if r < 0.50:
        return (rng.choice(BINOPS), gen_tree(rng, d - 1, you, bad), gen_tree(rng, d - 1, you, bad))
    if r < 0.64:
        return (rng.choice(UNOPS), gen_tree(rng, d - 1, you, bad))
    if r < 0.74:
        t = rng.choice(TYPES[:4])
        if rng.random() < bad:
            t = 'empty'
        return ('Is', gen_tree(rng, d - 1, you, bad), t, rng.random() < 0.3)
    if r < 0.82:
        return ('Len', gen_tree(rng, d - 1, you, bad))
    if r < 0.92:
        return ('Idx', gen_tree(rng, d - 1, you, bad), gen_tree(rng, d - 1, you, bad))
    if you or rng.random() < bad:
        return ('Spec', gen_tree(rng, d - 1, False, bad), gen_tree(rng, d - 1, False, bad))
    return (rng.choice(BINOPS), gen_tree(rng, d - 1, you, bad), gen_tree(rng, d - 1, you, bad))


ALPHABET = (['v0', 'v1', 'v2', 'v3', 'i0', 'i101', 't', 'f', '(', ')', '[', ']', '.', ',']
            + OPS14 + ['oNOT', 'oIS'] + ['y' + t for t in TYPES])


def gen_malformed(rng):
    n = rng.randint(1, 9)
    return [rng.choice(ALPHABET) for _ in range(n)]


# ------------------------------------------------------------------------------------------------
# shrinking
# ------------------------------------------------------------------------------------------------

def shrink_tokens(toks, you, bad):
    """Greedy delta debugging on the token list; `bad(toks, you)` is the failure predicate."""
    toks = list(toks)
    changed = True
    while changed:
        changed = False
        for width in (4, 3, 2, 1):
            i = 0
            while i + width <= len(toks):
                cand = toks[:i] + toks[i + width:]
                if cand and bad(cand, you):
                    toks = cand
                    changed = True
                else:
                    i += 1
        # remove a matching pair of parentheses
        for i, t in enumerate(toks):
            if t != '(':
                continue
            lvl = 0
            for j in range(i, len(toks)):
                lvl += (toks[j] == '(') - (toks[j] == ')')
                if lvl == 0:
                    cand = toks[:i] + toks[i + 1:j] + toks[j + 1:]
                    if bad(cand, you):
                        toks = cand
                        changed = True
                    break
            if changed:
                break
    return toks


def shrink_tree(e, bad):
    """Replace sub-trees by their children / by an atom while `bad(tree)` holds."""
    def variants(x):
        for c in children(x):
            yield c
        if x[0] not in ('Int', 'Bool', 'Var'):
            yield ('Var', 1)
        cs = children(x)
        for i, c in enumerate(cs):
            for v in variants(c):
                yield with_children(x, cs[:i] + [v] + cs[i + 1:])
    changed = True
    while changed:
        changed = False
        for v in variants(e):
            if bad(v):
                e = v
                changed = True
                break
    return e


# ------------------------------------------------------------------------------------------------
# the run
# ------------------------------------------------------------------------------------------------

def nontrivial(toks):
    """at least two operator occurrences (binary, unary, `is`, `??`, `.`, `[`): a grouping
    decision exists"""
    return sum(1 for t in toks if t[0] == 'o' or t in ('.', '[')) >= 2


def run(tier='quick', seed=0, workdir=None):
    t0 = time.time()
    own = workdir is None
    if own:
        workdir = os.path.join(VERIF, '.work', 'parser', 'corr-%d' % os.getpid())
    os.makedirs(workdir, exist_ok=True)
    rng = random.Random(seed)
    try:
        exe, info = build_model(workdir, REPO)
        model = Model(exe)
        impl = Impl(REPO)
        t_build = time.time() - t0

        thorough = (tier == 'thorough')
        max_depth = 8 if thorough else 6
        n_trees = 40000 if thorough else 3000
        n_malformed = 60000 if thorough else 4000

        cases = []          # (category, tokens, you, expected tree or None)
        dist = {}

        def add(cat, toks, you, tree=None):
            cases.append((cat, toks, you, tree))
            dist[cat] = dist.get(cat, 0) + 1

        for cat, toks in exhaustive_cases(thorough):
            add(cat, toks, True)
            if 'oSPECULATION' in toks:
                add(cat + '/noyou', toks, False)
        n_exh = len(cases)

        # random trees
        trees = []
        for i in range(n_trees):
            d = 2 + (i % (max_depth - 1))
            bad = 0.03 if i % 5 == 0 else 0.0
            trees.append(gen_tree(rng, d, True, bad))
        printed = model.batch(['R ' + prefix(e) for e in trees])
        printer_mismatch = []
        depth_hist = {}
        for e, line in zip(trees, printed):
            mt = line.split()
            depth_hist[depth(e)] = depth_hist.get(depth(e), 0) + 1
            if mt != py_tokens(e):
                printer_mismatch.append({'input': sexp(e), 'model': ' '.join(mt),
                                         'impl': ' '.join(py_tokens(e)),
                                         'kind': 'printers-differ'})
            ok = wf(e)
            add('tree-min' if ok else 'tree-min-illformed', mt, True, e if ok else None)
            add('tree-redundant' if ok else 'tree-redundant-illformed',
                py_tokens(e, rng, 0.25), True, e if ok else None)
            if ok and not any(c[0] == 'Spec' for c in _subtrees(e)):
                add('tree-min/noyou', mt, False, e)
        for _ in range(n_malformed):
            add('malformed', gen_malformed(rng), rng.random() < 0.8)

        mouts = model.batch(['P %d %s' % (1 if you else 0, ' '.join(toks))
                             for _, toks, you, _ in cases])
        disagreements = list(printer_mismatch)
        samples = []
        seen = set()
        nontriv = set()
        skipped = 0
        kinds = {}

        def differs(toks, you):
            m = model.parse(toks, you)
            return m != 'UNSUP' and m != impl.parse(toks, you)

        for (cat, toks, you, tree), m in zip(cases, mouts):
            key = ('%d ' % you) + ' '.join(toks)
            h = sha(key)
            if m == 'UNSUP':
                skipped += 1
                continue
            seen.add(h)
            if nontrivial(toks):
                nontriv.add(h)
            r = impl.parse(toks, you)
            kinds[r.split(' ')[0]] = kinds.get(r.split(' ')[0], 0) + 1
            if len(samples) < 12 and len(seen) % 997 == 1:
                samples.append({'category': cat, 'text': impl.text(toks), 'you': you, 'result': r})
            if m != r:
                small = shrink_tokens(toks, you, differs)
                disagreements.append({
                    'kind': 'model-vs-impl', 'category': cat, 'you': you,
                    'input': impl.text(small), 'tokens': ' '.join(small),
                    'model': model.parse(small, you), 'impl': impl.parse(small, you),
                    'original_input': impl.text(toks)})
            elif tree is not None and r != 'OK %s | ' % sexp(tree):
                # the property's round trip, on the implementation
                def rt_bad(x):
                    if not wf(x, you):
                        return False
                    tk = model.batch(['R ' + prefix(x)])[0].split()
                    return impl.parse(tk, you) != 'OK %s | ' % sexp(x)
                if cat.startswith('tree-min') or rt_bad(tree):
                    small = shrink_tree(tree, rt_bad)
                    tk = model.batch(['R ' + prefix(small)])[0].split()
                else:
                    small, tk = tree, toks
                disagreements.append({
                    'kind': 'roundtrip', 'category': cat, 'you': you,
                    'input': impl.text(tk), 'tree': sexp(small),
                    'model': 'OK %s | ' % sexp(small), 'impl': impl.parse(tk, you)})
            if len(disagreements) >= 25:
                break

        dist['_tree_depth'] = depth_hist
        dist['_impl_result_kinds'] = kinds
        res = {
            'component': 'parser', 'property': 'C11', 'tier': tier, 'seed': seed,
            'repo': REPO,
            'evaluations': len(cases),
            'distinct_nontrivial': len(nontriv),
            'rule': 'distinct (context, token sequence) with at least two operator occurrences '
                    '(binary, unary, is, ??, ., [), so that a grouping decision exists; '
                    'hashed on the canonical token string',
            'samples': samples,
            'disagreements': disagreements,
            'exhaustive': False,
            'exhaustive_domains': {
                'cases': n_exh,
                'what': 'all pairs and triples of the 13 binary operators and ??, in every '
                        'parenthesisation; every unary x binary, unary x unary, unary x is, '
                        'is x binary, is x is, postfix x binary combination listed in '
                        'exhaustive_cases()'},
            'distribution': dist,
            'skipped_unsupported': skipped,
            'model_build': info,
            'seconds': {'build': round(t_build, 1), 'total': round(time.time() - t0, 1)},
        }
        return res
    finally:
        if own:
            shutil.rmtree(workdir, ignore_errors=True)


def _subtrees(e):
    yield e
    for c in children(e):
        yield from _subtrees(c)


def main():
    ap = argparse.ArgumentParser()
    ap.add_argument('--tier', default=os.environ.get('VERIF_TIER', 'quick'),
                    choices=['quick', 'thorough'])
    ap.add_argument('--seed', type=int, default=int(os.environ.get('VERIF_SEED', '0')))
    ap.add_argument('--workdir', default=None)
    ap.add_argument('--json', action='store_true')
    a = ap.parse_args()
    res = run(a.tier, a.seed, a.workdir)
    if a.json:
        print(json.dumps(res, indent=1, default=str))
    else:
        print('corr_parser: tier=%s seed=%d repo=%s' % (a.tier, a.seed, res['repo']))
        print('  model build: %s' % res['model_build'])
        print('  evaluations=%d distinct_nontrivial=%d skipped_unsupported=%d'
              % (res['evaluations'], res['distinct_nontrivial'], res['skipped_unsupported']))
        print('  distribution: %s' % json.dumps(res['distribution'], default=str))
        print('  seconds: %s' % res['seconds'])
        for s in res['samples'][:5]:
            print('  sample: %s' % s)
        print('  disagreements: %d' % len(res['disagreements']))
        for d in res['disagreements'][:10]:
            print('   ', json.dumps(d, default=str))
    return 1 if res['disagreements'] else 0


if __name__ == '__main__':
    sys.exit(main())
