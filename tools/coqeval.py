"""Evaluate model definitions inside Coq (vm_compute) for correspondence checks."""
import os, re, subprocess
from common import VERIF

def coq_run(text, workdir, name='cases', timeout=600):
    os.makedirs(workdir, exist_ok=True)
    path = os.path.join(workdir, name + '.v')
    with open(path, 'w') as f:
        f.write(text)
    p = subprocess.run(['timeout', str(timeout), 'coqc', '-Q', os.path.join(VERIF, 'coq'), 'HidV', path],
                       stdout=subprocess.PIPE, stderr=subprocess.STDOUT, cwd=workdir)
    return p.returncode, p.stdout.decode(errors='replace')

def zlist(bs):
    return '[' + '; '.join(str(int(b)) for b in bs) + ']'

def parse_zlist_result(out):
    """parse `= [a; b; c]` (possibly wrapped) from an Eval vm_compute -> list of ints"""
    m = re.search(r'=\s*\[(.*?)\]\s*:\s*list', out, re.S)
    if not m:
        return None
    body = m.group(1).strip()
    if not body:
        return []
    return [int(x.replace('%Z', '').replace('(', '').replace(')', '').strip()) for x in body.split(';')]
