"""Translator for the `context` component (property C06).

Reads hidc/parser/grammar.py and hidc/lexer/tokens.py of the repository's *working tree* with
Python's `ast` module (nothing is imported or executed) and emits coq/Gen/GenContext.v:

  * the members of `BlockContext` with their integer values (the `|` literals are evaluated here),
  * the `flavors` property and the `_missing_` validity test,
  * for every construct site of the parser, the context expression that is passed down and the
    membership test that guards the construct, as Coq functions on `N` bit-vectors.

Fail closed.  Each function that decides something about contexts (ps_ident, ps_func_call,
ps_expr, ps_stmt, ps_block, ps_func, ps_program, class BlockContext) is unified against a
*template* of the shape this translator understands; the only free positions ("holes") are the
context expressions, the guard tests and the flag / flavour names.  Any other difference raises
`CannotTranslate`.  Every remaining function must forward its `ctx` parameter unchanged to every
context-taking parser routine it calls (checked, listed in the output as a comment).

    generate(repo_root) -> {relative path under /verif: text}
"""
import ast
import os
import sys

sys.path.insert(0, os.path.dirname(os.path.abspath(__file__)))
from common import CannotTranslate, REPO, VERIF, write_if_changed  # noqa: E402

GRAMMAR = 'hidc/parser/grammar.py'
TOKENS = 'hidc/lexer/tokens.py'
OUT = 'coq/Gen/GenContext.v'

HOLE = 'HOLE_'          # expression hole
ANYSTR = '*'            # a string constant '*' in a template matches any string constant


# --------------------------------------------------------------------------------------------
# templates (Python source with holes)
# --------------------------------------------------------------------------------------------

T_PS_IDENT = '''
@Parser.routine('*')
async def ps_ident(allowed_flavors):
    if ident := await Instance(Ident):
        if ident.token.flavor in allowed_flavors:
            return ident

        raise ParserError(HOLE_msg, ident.span)
'''

T_PS_FUNC_CALL = '''
@Parser.routine('*')
async def ps_func_call(ctx):
    if HOLE_call_skip: return
    if ident := await ps_ident(HOLE_call_flavors):
        if await Exact(BracToken.LPAREN):
            args = await comma_list(ps_expr(HOLE_call_arg_ctx))
            end = await expect(Exact(BracToken.RPAREN))
            return FuncCall(ident.token, args, ident.span | end.span)
'''

T_PS_EXPR = '''
@Parser.routine('*')
async def ps_expr(ctx):
    prev_node = await CurrentNode()
    if not (left := await ps_expr8(HOLE_spec_first_ctx)): return
    if lxm := await Exact(OpToken.SPECULATION):
        if HOLE_spec_reject:
            raise ParserError('*', lxm.span)
        await Teleport(prev_node)
        new_ctx = HOLE_new_ctx
        left = await expect(ps_expr8(HOLE_spec_left_ctx))
        await expect(Exact(OpToken.SPECULATION))
        right = await expect(ps_expr8(HOLE_spec_right_ctx))
        return Speculation(lxm.span, left, right)
    else:
        return left
'''

T_PS_STMT = '''
@Parser.routine('*')
async def ps_stmt(ctx):
    if tok := await Exact(StmtToken.BREAK):
        if HOLE_break_reject:
            raise ParserError('*', tok.span)
        return BreakStatement(tok.span)
    elif tok := await Exact(StmtToken.CONTINUE):
        if HOLE_continue_reject:
            raise ParserError('*', tok.span)
        return ContinueStatement(tok.span)
    elif tok := await Exact(StmtToken.RETURN):
        return ReturnStatement(tok.span, await ps_expr(HOLE_return_ctx))
    return await ps_plain_stmt(HOLE_plain_ctx)
'''

T_PS_BLOCK = '''
@Parser.routine('*')
async def ps_block(ctx):
    start = await cursor()
    if await Exact(BlockToken.IF):
        await expect(Exact(BracToken.LPAREN))
        cond = await expect(ps_expr(HOLE_if_cond_ctx))
        await expect(Exact(BracToken.RPAREN))
        body = await expect(ps_block(HOLE_if_then_ctx))
        if await Exact(BlockToken.ELSE):
            return IfBlock(start, body, cond, await expect(ps_block(HOLE_if_else_ctx)))
        return IfBlock(start, body, cond, CodeBlock.empty(body.span.end))
    elif await Exact(BlockToken.WHILE):
        await expect(Exact(BracToken.LPAREN))
        cond = await expect(ps_expr(HOLE_while_cond_ctx))
        await expect(Exact(BracToken.RPAREN))
        body = await expect(ps_block(HOLE_while_body_ctx))
        return LoopBlock.while_loop(start, body, cond)
    elif await Exact(BlockToken.FOR):
        await expect(Exact(BracToken.LPAREN))
        init = await ps_plain_stmt(HOLE_for_init_ctx, allow_decl=True)
        await expect(Exact(SepToken.SEMICOLON),
                     expected='*' if not init else '*')
        cond = await ps_expr(HOLE_for_cond_ctx)
        await expect(Exact(SepToken.SEMICOLON),
                     expected='*' if not cond else '*')
        cont = await ps_plain_stmt(HOLE_for_cont_ctx, allow_decl=False)
        await expect(Exact(BracToken.RPAREN),
                     expected='*' if not cont else '*')
        body = await expect(ps_block(HOLE_for_body_ctx))
        return LoopBlock.for_loop(start, body, init, cond, cont)
    elif await Exact(BlockToken.TRY):
        if HOLE_try_reject:
            raise ParserError('*', start)
        body = await expect(ps_block(HOLE_try_body_ctx))
        handler_blocks = {BlockToken.UNDO: UndoBlock, BlockToken.STOP: StopBlock}
        lxm = await expect(OneOf(handler_blocks))
        handler = handler_blocks[lxm.token](lxm.span.start, await expect(ps_block(HOLE_handler_ctx)))
        return TryBlock(start, body, handler)
    elif await Exact(BlockToken.PREEMPT):
        if HOLE_preempt_reject:
            raise ParserError('*', start)
        return PreemptBlock(start, await expect(ps_block(HOLE_preempt_body_ctx)))
    return await ps_code_block(HOLE_code_ctx)
'''

# the flavour -> context chain of ps_func is matched separately (variable length)
T_PS_FUNC_HEAD = '''
@Parser.routine('*')
async def ps_func():
    if not (tp := await Instance(DataType)): return
    if not (name := await Instance(Ident)): return
    if not await Exact(BracToken.LPAREN): return

    ret_type = tp.token
    HOLE_chain

    params = await comma_list(ps_param())
    end_decl = await expect(Exact(BracToken.RPAREN))
    body = await expect(ps_code_block(HOLE_func_body_ctx))
    return FuncDeclaration(
        tp.span | end_decl.span, ret_type,
        name.token, params, body
    )
'''

T_PS_PROGRAM = '''
@Parser.routine('*')
async def ps_program():
    var_decls = []
    func_decls = []

    while await CurrentNode():
        if func := await ps_func():
            func_decls.append(func)
        elif not await Exact(SepToken.SEMICOLON):
            var = await expect(
                ps_vdecl(HOLE_global_ctx),
                expected='*'
            )

            await expect(Exact(SepToken.SEMICOLON))
            var_decls.append(var)

    return Program(tuple(var_decls), tuple(func_decls))
'''

T_MISSING = '''
@classmethod
def _missing_(cls, value):
    bad = HOLE_bad
    if (bad & value) == bad:
        raise ValueError(HOLE_msg)
    return super()._missing_(value)
'''

# Functions that decide nothing: every context-taking routine they call must receive `ctx`.
CTX_ROUTINES = ('ps_vdecl', 'ps_func_call', 'ps_expr0', 'ps_expr1', 'ps_expr2', 'ps_expr3',
                'ps_expr4', 'ps_expr5', 'ps_expr6', 'ps_expr7', 'ps_expr8', 'ps_expr',
                'ps_assignment', 'ps_plain_stmt', 'ps_stmt', 'ps_code_block', 'ps_block')
PASS_THROUGH = ('ps_vdecl', 'ps_expr0', 'ps_expr1', 'ps_expr2', 'ps_expr3', 'ps_expr4',
                'ps_expr5', 'ps_expr6', 'ps_expr7', 'ps_expr8', 'ps_assignment',
                'ps_plain_stmt', 'ps_code_block')
TEMPLATED = ('ps_ident', 'ps_func_call', 'ps_expr', 'ps_stmt', 'ps_block', 'ps_func',
             'ps_program')
NO_CTX = ('ps_data_type', 'ps_decl', 'comma_list', 'if_expect', 'bin_op', 'ps_param')


# --------------------------------------------------------------------------------------------
# unification of a template with the source
# --------------------------------------------------------------------------------------------

def _src(node):
    try:
        return ast.unparse(node)
    except Exception:           # pragma: no cover
        return '<%s>' % type(node).__name__


def unify(t, s, binds, item):
    """Structural equality of template `t` and source `s`, binding holes."""
    if isinstance(t, ast.Name) and t.id.startswith(HOLE):
        key = t.id[len(HOLE):]
        if key in binds:
            raise CannotTranslate(item, 'template hole %s used twice' % key)
        binds[key] = s
        return
    if isinstance(t, ast.Expr) and isinstance(t.value, ast.Name) and t.value.id.startswith(HOLE):
        # statement hole
        binds[t.value.id[len(HOLE):]] = s
        return
    if type(t) is not type(s):
        raise CannotTranslate(item, 'expected %s, found %s at line %s: %s' % (
            type(t).__name__, type(s).__name__, getattr(s, 'lineno', '?'), _src(s)[:80]))
    if isinstance(t, ast.Constant):
        if isinstance(t.value, str) and t.value == ANYSTR and isinstance(s.value, str):
            return
        if type(t.value) is not type(s.value) or t.value != s.value:
            raise CannotTranslate(item, 'constant %r where %r expected (line %s)' % (
                s.value, t.value, getattr(s, 'lineno', '?')))
        return
    for field in t._fields:
        tv, sv = getattr(t, field, None), getattr(s, field, None)
        if isinstance(tv, list):
            if not isinstance(sv, list) or len(tv) != len(sv):
                raise CannotTranslate(item, '%s.%s has %s entries, template has %d (line %s)' % (
                    type(t).__name__, field, len(sv) if isinstance(sv, list) else '?', len(tv),
                    getattr(s, 'lineno', '?')))
            for a, b in zip(tv, sv):
                unify(a, b, binds, item)
        elif isinstance(tv, ast.AST):
            if not isinstance(sv, ast.AST):
                raise CannotTranslate(item, 'missing %s.%s (line %s)' % (
                    type(t).__name__, field, getattr(s, 'lineno', '?')))
            unify(tv, sv, binds, item)
        else:
            if tv != sv:
                raise CannotTranslate(item, '%s.%s is %r, expected %r (line %s)' % (
                    type(t).__name__, field, sv, tv, getattr(s, 'lineno', '?')))


def match_template(template, node, item):
    t = ast.parse(template).body[0]
    binds = {}
    unify(t, node, binds, item)
    return binds


# --------------------------------------------------------------------------------------------
# translation of hole contents to Coq
# --------------------------------------------------------------------------------------------

class Tr:
    def __init__(self, members, flavor_names):
        self.members = members              # name -> int
        self.flavor_names = flavor_names    # list of names
        self.env = {}                       # local python variable -> Coq term (on `ctx`)
        self.bad = None                     # numeric mask of BlockContext._missing_

    def const(self, e, item):
        """numeric value of a closed flag expression (members and `|` only)"""
        if self.flag(e, item) is not None:
            return self.members[e.attr]
        if isinstance(e, ast.BinOp) and isinstance(e.op, ast.BitOr):
            return self.const(e.left, item) | self.const(e.right, item)
        raise CannotTranslate(item, 'operand of ~ is not a closed flag expression: %s' % _src(e))

    def inverted(self, e, item, var):
        """`x & ~E`: E must be closed, and ~E must be constructible: enum.Flag.__invert__ builds
        BlockContext(~value), which BlockContext._missing_ refuses when (bad & ~value) == bad."""
        v = self.const(e, item)
        if self.bad is None:
            raise CannotTranslate(item, '_missing_ mask unknown')
        if (self.bad & ~v) == self.bad:
            raise CannotTranslate(item, '~(%s) raises ValueError in BlockContext._missing_' % _src(e))
        return self.ctx(e, item, var)

    def flag(self, e, item):
        if (isinstance(e, ast.Attribute) and isinstance(e.value, ast.Name)
                and e.value.id == 'BlockContext' and isinstance(e.ctx, ast.Load)):
            if e.attr not in self.members:
                raise CannotTranslate(item, 'unknown BlockContext member %s' % e.attr)
            return 'BC_' + e.attr
        return None

    def ctx(self, e, item, var='ctx'):
        """Context-valued expression -> Coq term of type N."""
        f = self.flag(e, item)
        if f is not None:
            return f
        if isinstance(e, ast.Name) and isinstance(e.ctx, ast.Load):
            if e.id == var:
                return var
            if e.id in self.env:
                return '(%s)' % self.env[e.id]
            raise CannotTranslate(item, 'unknown name %s in context expression' % e.id)
        if isinstance(e, ast.BinOp):
            if isinstance(e.op, ast.BitOr):
                return '(N.lor %s %s)' % (self.ctx(e.left, item, var), self.ctx(e.right, item, var))
            if isinstance(e.op, ast.BitAnd):
                l_inv = isinstance(e.left, ast.UnaryOp) and isinstance(e.left.op, ast.Invert)
                r_inv = isinstance(e.right, ast.UnaryOp) and isinstance(e.right.op, ast.Invert)
                if r_inv and not l_inv:
                    return '(N.ldiff %s %s)' % (self.ctx(e.left, item, var),
                                                self.inverted(e.right.operand, item, var))
                if l_inv and not r_inv:
                    return '(N.ldiff %s %s)' % (self.ctx(e.right, item, var),
                                                self.inverted(e.left.operand, item, var))
                if not l_inv and not r_inv:
                    return '(N.land %s %s)' % (self.ctx(e.left, item, var),
                                               self.ctx(e.right, item, var))
        raise CannotTranslate(item, 'context expression not understood: %s' % _src(e))

    def test(self, e, item, var='ctx'):
        """Boolean guard -> Coq term of type bool."""
        if isinstance(e, ast.Compare) and len(e.ops) == 1 and len(e.comparators) == 1:
            op = e.ops[0]
            if isinstance(op, (ast.In, ast.NotIn)):
                m = '(mem %s %s)' % (self.ctx(e.left, item, var),
                                     self.ctx(e.comparators[0], item, var))
                return m if isinstance(op, ast.In) else '(negb %s)' % m
            if isinstance(op, (ast.Eq, ast.NotEq)):
                m = '(N.eqb %s %s)' % (self.ctx(e.left, item, var),
                                       self.ctx(e.comparators[0], item, var))
                return m if isinstance(op, ast.Eq) else '(negb %s)' % m
        if isinstance(e, ast.UnaryOp) and isinstance(e.op, ast.Not):
            return '(negb %s)' % self.test(e.operand, item, var)
        if isinstance(e, ast.BoolOp):
            parts = [self.test(v, item, var) for v in e.values]
            op = 'andb' if isinstance(e.op, ast.And) else 'orb'
            out = parts[-1]
            for p in reversed(parts[:-1]):
                out = '(%s %s %s)' % (op, p, out)
            return out
        raise CannotTranslate(item, 'guard not understood: %s' % _src(e))

    def flavor(self, e, item):
        if (isinstance(e, ast.Attribute) and isinstance(e.value, ast.Name)
                and e.value.id == 'Flavor' and e.attr in self.flavor_names):
            return 'Flavor_' + e.attr
        raise CannotTranslate(item, 'flavour not understood: %s' % _src(e))

    def flavor_set(self, e, item, var='ctx'):
        """Set of flavours -> Coq term of type list flavor."""
        if isinstance(e, ast.Set):
            return '[%s]' % '; '.join(self.flavor(x, item) for x in e.elts)
        if (isinstance(e, ast.Attribute) and e.attr == 'flavors' and isinstance(e.ctx, ast.Load)):
            return '(flavors %s)' % self.ctx(e.value, item, var)
        raise CannotTranslate(item, 'flavour set not understood: %s' % _src(e))


# --------------------------------------------------------------------------------------------
# individual items
# --------------------------------------------------------------------------------------------

def read_flavors(tokens_tree):
    for node in tokens_tree.body:
        if isinstance(node, ast.ClassDef) and node.name == 'Flavor':
            if [_src(b) for b in node.bases] != ['enum.Enum']:
                raise CannotTranslate('Flavor', 'bases changed')
            out = []
            for st in node.body:
                if isinstance(st, ast.Assign):
                    if (len(st.targets) != 1 or not isinstance(st.targets[0], ast.Name)
                            or not isinstance(st.value, ast.Constant)
                            or not isinstance(st.value.value, str)):
                        raise CannotTranslate('Flavor', 'member not NAME = "sigil"')
                    out.append((st.targets[0].id, st.value.value))
                elif isinstance(st, ast.FunctionDef) and st.name == '__str__':
                    continue
                else:
                    raise CannotTranslate('Flavor', 'unexpected statement %s' % _src(st)[:60])
            if len({s for _, s in out}) != len(out) or not out:
                raise CannotTranslate('Flavor', 'sigils not distinct')
            return out
    raise CannotTranslate('Flavor', 'class not found')


def eval_member(e, members, item):
    if isinstance(e, ast.Constant) and type(e.value) is int and e.value >= 0:
        return e.value
    if isinstance(e, ast.Name) and e.id in members:
        return members[e.id]
    if isinstance(e, ast.BinOp) and isinstance(e.op, ast.BitOr):
        return eval_member(e.left, members, item) | eval_member(e.right, members, item)
    raise CannotTranslate(item, 'member value not a literal |-expression: %s' % _src(e))


def read_block_context(cls, tr_factory):
    item = 'BlockContext'
    if [_src(b) for b in cls.bases] != ['enum.IntFlag'] or cls.keywords or cls.decorator_list:
        raise CannotTranslate(item, 'not a plain enum.IntFlag class')
    members = {}
    order = []
    funcs = {}
    for st in cls.body:
        if isinstance(st, ast.Assign):
            if funcs:
                raise CannotTranslate(item, 'member after method')
            if len(st.targets) != 1 or not isinstance(st.targets[0], ast.Name):
                raise CannotTranslate(item, 'member assignment shape')
            name = st.targets[0].id
            if name in members or name.startswith('_'):
                raise CannotTranslate(item, 'member %s' % name)
            members[name] = eval_member(st.value, members, item)
            order.append(name)
        elif isinstance(st, ast.FunctionDef):
            funcs[st.name] = st
        else:
            raise CannotTranslate(item, 'unexpected statement %s' % _src(st)[:60])
    if set(funcs) != {'_missing_', 'flavors'}:
        raise CannotTranslate(item, 'methods are %s' % sorted(funcs))
    return members, order, funcs


def read_missing(fn, tr):
    item = 'BlockContext._missing_'
    b = match_template(T_MISSING, fn, item)
    # bad = cls.YOU.value | cls.DEFEAT.value

    def val(e):
        if (isinstance(e, ast.Attribute) and e.attr == 'value' and isinstance(e.value, ast.Attribute)
                and isinstance(e.value.value, ast.Name) and e.value.value.id == 'cls'
                and e.value.attr in tr.members):
            return 'BC_' + e.value.attr
        if isinstance(e, ast.BinOp) and isinstance(e.op, ast.BitOr):
            return '(N.lor %s %s)' % (val(e.left), val(e.right))
        raise CannotTranslate(item, 'bad-mask not understood: %s' % _src(e))

    def num(e):
        if isinstance(e, ast.BinOp):
            return num(e.left) | num(e.right)
        return tr.members[e.value.attr]
    text = val(b['bad'])
    return text, num(b['bad'])


def read_flavors_property(fn, tr):
    item = 'BlockContext.flavors'
    if [_src(d) for d in fn.decorator_list] != ['cached_property']:
        raise CannotTranslate(item, 'decorator')
    if [a.arg for a in fn.args.args] != ['self'] or fn.args.vararg or fn.args.kwarg \
            or fn.args.kwonlyargs or fn.args.defaults:
        raise CannotTranslate(item, 'signature')
    body = fn.body
    if len(body) < 2 or _src(body[0]) != 'flavors = frozenset({})' or _src(body[-1]) != 'return flavors':
        raise CannotTranslate(item, 'prologue/epilogue')
    parts = []
    for st in body[1:-1]:
        ok = (isinstance(st, ast.If) and not st.orelse and len(st.body) == 1
              and isinstance(st.body[0], ast.AugAssign)
              and isinstance(st.body[0].op, ast.BitOr)
              and isinstance(st.body[0].target, ast.Name) and st.body[0].target.id == 'flavors'
              and isinstance(st.body[0].value, ast.Set))
        if not ok:
            raise CannotTranslate(item, 'statement not `if F in self: flavors |= {...}`: %s'
                                  % _src(st)[:80])
        guard = tr.test(st.test, item, var='self')
        parts.append('(if %s then %s else [])' % (guard.replace('self', 'ctx'),
                                                  tr.flavor_set(st.body[0].value, item)))
    return ' ++ '.join(parts + ['[]'])


def read_func_chain(st, tr):
    """if name.token.flavor == Flavor.X: ctx = E1 elif ...: ... else: ctx = En"""
    item = 'ps_func'
    arms = []
    cur = st
    while True:
        if not isinstance(cur, ast.If):
            raise CannotTranslate(item, 'flavour chain is not an if/elif/else')
        t = cur.test
        if not (isinstance(t, ast.Compare) and len(t.ops) == 1 and isinstance(t.ops[0], ast.Eq)
                and _src(t.left) == 'name.token.flavor'):
            raise CannotTranslate(item, 'chain test not `name.token.flavor == Flavor.X`')
        fl = tr.flavor(t.comparators[0], item)
        arms.append((fl, assigned_ctx(cur.body, tr, item)))
        if len(cur.orelse) == 1 and isinstance(cur.orelse[0], ast.If):
            cur = cur.orelse[0]
            continue
        default = assigned_ctx(cur.orelse, tr, item)
        break
    out = default
    for fl, c in reversed(arms):
        out = '(if flavor_eqb fl %s then %s else %s)' % (fl, c, out)
    return out


def assigned_ctx(body, tr, item):
    if (len(body) == 1 and isinstance(body[0], ast.Assign) and len(body[0].targets) == 1
            and isinstance(body[0].targets[0], ast.Name) and body[0].targets[0].id == 'ctx'):
        return tr.ctx(body[0].value, item, var='\0')     # no variable allowed: closed expression
    raise CannotTranslate(item, 'chain arm is not `ctx = <expr>`')


def check_ctx_signature(fn, item):
    a = fn.args
    names = [x.arg for x in a.args]
    if not names or names[0] != 'ctx' or a.vararg or a.kwarg or a.defaults or a.posonlyargs:
        raise CannotTranslate(item, 'first parameter is not ctx')


def check_no_ctx_store(fn, item, allowed=()):
    for n in ast.walk(fn):
        if isinstance(n, ast.Name) and isinstance(n.ctx, (ast.Store, ast.Del)) \
                and n.id in ('ctx', 'new_ctx') and n.id not in allowed:
            raise CannotTranslate(item, '%s is reassigned (line %d)' % (n.id, n.lineno))
        if isinstance(n, (ast.Global, ast.Nonlocal)):
            raise CannotTranslate(item, 'global/nonlocal')
        if isinstance(n, (ast.FunctionDef, ast.AsyncFunctionDef, ast.Lambda)) and n is not fn:
            raise CannotTranslate(item, 'nested function')


def check_pass_through(fn):
    """Every call of a context-taking routine inside fn passes exactly `ctx` first."""
    item = fn.name
    check_ctx_signature(fn, item)
    check_no_ctx_store(fn, item)
    sites = []
    for n in ast.walk(fn):
        if isinstance(n, ast.Name) and n.id in CTX_ROUTINES and isinstance(n.ctx, ast.Load):
            sites.append(n)
    calls = {}
    for n in ast.walk(fn):
        if isinstance(n, ast.Call) and isinstance(n.func, ast.Name) and n.func.id in CTX_ROUTINES:
            calls[id(n.func)] = n
    out = []
    for s in sites:
        c = calls.get(id(s))
        if c is None:
            raise CannotTranslate(item, '%s is used other than by a direct call (line %d)'
                                  % (s.id, s.lineno))
        if not c.args or not (isinstance(c.args[0], ast.Name) and c.args[0].id == 'ctx'):
            raise CannotTranslate(item, '%s is called with %s instead of ctx (line %d)' % (
                s.id, _src(c.args[0]) if c.args else 'nothing', s.lineno))
        for extra in list(c.args[1:]) + [k.value for k in c.keywords]:
            for m in ast.walk(extra):
                if isinstance(m, ast.Name) and m.id in ('ctx', 'new_ctx', 'BlockContext'):
                    raise CannotTranslate(item, 'context used in a secondary argument')
        out.append((s.lineno, s.col_offset, s.id))
    # ctx must not be used in any other way (e.g. aliased)
    for n in ast.walk(fn):
        if isinstance(n, ast.Name) and n.id == 'BlockContext':
            raise CannotTranslate(item, 'BlockContext used in a pass-through routine')
    ctx_uses = [n for n in ast.walk(fn) if isinstance(n, ast.Name) and n.id == 'ctx']
    if len(ctx_uses) != len(out):
        raise CannotTranslate(item, 'ctx is used outside routine calls')
    out.sort()
    return [name for _, _, name in out]


def only_names(fn, item, forbidden=('ctx', 'new_ctx', 'BlockContext') + CTX_ROUTINES):
    for n in ast.walk(fn):
        if isinstance(n, ast.Name) and n.id in forbidden:
            raise CannotTranslate(item, 'unexpected use of %s (line %d)' % (n.id, n.lineno))


# --------------------------------------------------------------------------------------------
# generate
# --------------------------------------------------------------------------------------------

def generate(repo_root=REPO):
    try:
        with open(os.path.join(repo_root, GRAMMAR)) as f:
            gsrc = f.read()
        with open(os.path.join(repo_root, TOKENS)) as f:
            tsrc = f.read()
    except OSError as e:
        raise CannotTranslate('source', str(e))
    try:
        gtree = ast.parse(gsrc)
        ttree = ast.parse(tsrc)
    except SyntaxError as e:
        raise CannotTranslate('source', 'syntax error: %s' % e)

    flavor_members = read_flavors(ttree)
    flavor_names = [n for n, _ in flavor_members]

    funcs = {}
    cls = None
    for node in gtree.body:
        if isinstance(node, (ast.FunctionDef, ast.AsyncFunctionDef)):
            if node.name in funcs:
                raise CannotTranslate(node.name, 'defined twice')
            funcs[node.name] = node
        elif isinstance(node, ast.ClassDef):
            if node.name != 'BlockContext' or cls is not None:
                raise CannotTranslate('grammar.py', 'unexpected class %s' % node.name)
            cls = node
        elif isinstance(node, (ast.Import, ast.ImportFrom)):
            continue
        else:
            raise CannotTranslate('grammar.py', 'unexpected top-level statement (line %d): %s'
                                  % (node.lineno, _src(node)[:60]))
    if cls is None:
        raise CannotTranslate('BlockContext', 'class not found')
    expected = set(PASS_THROUGH) | set(TEMPLATED) | set(NO_CTX)
    if set(funcs) != expected:
        raise CannotTranslate('grammar.py', 'routines differ: missing %s, extra %s' % (
            sorted(expected - set(funcs)), sorted(set(funcs) - expected)))
    # nobody may rebind the routines or the class at module level (checked above: only defs,
    # imports and the class); the star imports must be the known ones
    imports = sorted(_src(n) for n in gtree.body if isinstance(n, (ast.Import, ast.ImportFrom)))
    if imports != sorted(['from .rules import *', 'from hidc.lexer.tokens import *',
                          'from hidc.ast import *', 'from hidc.errors import ParserError',
                          'import enum', 'from functools import cached_property']):
        raise CannotTranslate('grammar.py', 'imports changed: %s' % imports)

    members, order, methods = read_block_context(cls, None)
    tr = Tr(members, flavor_names)
    flavors_body = read_flavors_property(methods['flavors'], tr)
    bad_mask, tr.bad = read_missing(methods['_missing_'], tr)

    defs = []   # (name, params, type, body, comment)

    # ps_ident: `ident.token.flavor in allowed_flavors` (template is rigid)
    match_template(T_PS_IDENT, funcs['ps_ident'], 'ps_ident')

    # ps_func_call
    b = match_template(T_PS_FUNC_CALL, funcs['ps_func_call'], 'ps_func_call')
    check_no_ctx_store(funcs['ps_func_call'], 'ps_func_call')
    defs.append(('call_skip', 'ctx', 'bool', tr.test(b['call_skip'], 'ps_func_call'),
                 'ps_func_call: `if %s: return`' % _src(b['call_skip'])))
    defs.append(('call_flavors', 'ctx', 'list flavor',
                 tr.flavor_set(b['call_flavors'], 'ps_func_call'),
                 'ps_func_call: ps_ident(%s)' % _src(b['call_flavors'])))
    defs.append(('call_arg_ctx', 'ctx', 'N', tr.ctx(b['call_arg_ctx'], 'ps_func_call'),
                 'ps_func_call: comma_list(ps_expr(%s))' % _src(b['call_arg_ctx'])))

    # ps_expr0: the identifier alternatives (variable lookup) -- literal flavour set
    var_sets = []
    for n in ast.walk(funcs['ps_expr0']):
        if isinstance(n, ast.Call) and isinstance(n.func, ast.Name) and n.func.id == 'ps_ident':
            if len(n.args) != 1 or n.keywords:
                raise CannotTranslate('ps_expr0', 'ps_ident call shape')
            var_sets.append(n.args[0])
    if len(var_sets) != 1:
        raise CannotTranslate('ps_expr0', 'expected exactly one ps_ident alternative')
    defs.append(('var_flavors', '', 'list flavor', tr.flavor_set(var_sets[0], 'ps_expr0', var='\0'),
                 'ps_expr0: ps_ident(%s) (variable lookup)' % _src(var_sets[0])))
    # the call alternative must come before the variable alternative
    order_names = [n.func.id for n in sorted(
        (n for n in ast.walk(funcs['ps_expr0']) if isinstance(n, ast.Call)
         and isinstance(n.func, ast.Name) and n.func.id in ('ps_func_call', 'ps_ident')),
        key=lambda n: (n.lineno, n.col_offset))]
    if order_names != ['ps_func_call', 'ps_ident']:
        raise CannotTranslate('ps_expr0', 'call/variable alternatives: %s' % order_names)

    # ps_expr
    b = match_template(T_PS_EXPR, funcs['ps_expr'], 'ps_expr')
    check_no_ctx_store(funcs['ps_expr'], 'ps_expr', allowed=('new_ctx',))
    defs.append(('spec_first_ctx', 'ctx', 'N', tr.ctx(b['spec_first_ctx'], 'ps_expr'),
                 'ps_expr: first parse of the left operand, ps_expr8(%s)' % _src(b['spec_first_ctx'])))
    defs.append(('spec_reject', 'ctx', 'bool', tr.test(b['spec_reject'], 'ps_expr'),
                 'ps_expr: `if %s: raise`' % _src(b['spec_reject'])))
    tr.env['new_ctx'] = tr.ctx(b['new_ctx'], 'ps_expr')
    defs.append(('spec_left_ctx', 'ctx', 'N', tr.ctx(b['spec_left_ctx'], 'ps_expr'),
                 'ps_expr: new_ctx = %s; left = ps_expr8(%s)' % (_src(b['new_ctx']),
                                                                 _src(b['spec_left_ctx']))))
    defs.append(('spec_right_ctx', 'ctx', 'N', tr.ctx(b['spec_right_ctx'], 'ps_expr'),
                 'ps_expr: right = ps_expr8(%s)' % _src(b['spec_right_ctx'])))
    del tr.env['new_ctx']

    # ps_stmt
    b = match_template(T_PS_STMT, funcs['ps_stmt'], 'ps_stmt')
    check_no_ctx_store(funcs['ps_stmt'], 'ps_stmt')
    for k, what in (('break_reject', 'break'), ('continue_reject', 'continue')):
        defs.append((k, 'ctx', 'bool', tr.test(b[k], 'ps_stmt'),
                     'ps_stmt: %s: `if %s: raise`' % (what, _src(b[k]))))
    defs.append(('return_ctx', 'ctx', 'N', tr.ctx(b['return_ctx'], 'ps_stmt'),
                 'ps_stmt: return ps_expr(%s)' % _src(b['return_ctx'])))
    defs.append(('plain_ctx', 'ctx', 'N', tr.ctx(b['plain_ctx'], 'ps_stmt'),
                 'ps_stmt: ps_plain_stmt(%s)' % _src(b['plain_ctx'])))

    # ps_block
    b = match_template(T_PS_BLOCK, funcs['ps_block'], 'ps_block')
    check_no_ctx_store(funcs['ps_block'], 'ps_block')
    for k in ('if_cond_ctx', 'if_then_ctx', 'if_else_ctx', 'while_cond_ctx', 'while_body_ctx',
              'for_init_ctx', 'for_cond_ctx', 'for_cont_ctx', 'for_body_ctx'):
        defs.append((k, 'ctx', 'N', tr.ctx(b[k], 'ps_block'), 'ps_block: %s = %s' % (k, _src(b[k]))))
    defs.append(('try_reject', 'ctx', 'bool', tr.test(b['try_reject'], 'ps_block'),
                 'ps_block: try: `if %s: raise`' % _src(b['try_reject'])))
    defs.append(('try_body_ctx', 'ctx', 'N', tr.ctx(b['try_body_ctx'], 'ps_block'),
                 'ps_block: try body = ps_block(%s)' % _src(b['try_body_ctx'])))
    defs.append(('handler_ctx', 'ctx', 'N', tr.ctx(b['handler_ctx'], 'ps_block'),
                 'ps_block: undo/stop handler = ps_block(%s)' % _src(b['handler_ctx'])))
    defs.append(('preempt_reject', 'ctx', 'bool', tr.test(b['preempt_reject'], 'ps_block'),
                 'ps_block: preempt: `if %s: raise`' % _src(b['preempt_reject'])))
    defs.append(('preempt_body_ctx', 'ctx', 'N', tr.ctx(b['preempt_body_ctx'], 'ps_block'),
                 'ps_block: preempt body = ps_block(%s)' % _src(b['preempt_body_ctx'])))
    defs.append(('code_ctx', 'ctx', 'N', tr.ctx(b['code_ctx'], 'ps_block'),
                 'ps_block: ps_code_block(%s)' % _src(b['code_ctx'])))

    # ps_func
    b = match_template(T_PS_FUNC_HEAD, funcs['ps_func'], 'ps_func')
    chain = read_func_chain(b['chain'], tr)
    stores = [n for n in ast.walk(funcs['ps_func'])
              if isinstance(n, ast.Name) and n.id == 'ctx' and isinstance(n.ctx, ast.Store)]
    chain_stores = [n for n in ast.walk(b['chain'])
                    if isinstance(n, ast.Name) and n.id == 'ctx' and isinstance(n.ctx, ast.Store)]
    if len(stores) != len(chain_stores):
        raise CannotTranslate('ps_func', 'ctx assigned outside the flavour chain')
    defs.append(('func_ctx', 'fl:flavor', 'N', chain,
                 'ps_func: flavour of the declared name -> context'))
    defs.append(('func_body_ctx', 'ctx', 'N', tr.ctx(b['func_body_ctx'], 'ps_func'),
                 'ps_func: body = ps_code_block(%s)' % _src(b['func_body_ctx'])))

    # ps_program
    b = match_template(T_PS_PROGRAM, funcs['ps_program'], 'ps_program')
    defs.append(('global_ctx', '', 'N', tr.ctx(b['global_ctx'], 'ps_program', var='\0'),
                 'ps_program: ps_vdecl(%s)' % _src(b['global_ctx'])))

    # the rest forwards ctx unchanged
    passed = []
    for name in PASS_THROUGH:
        passed.append((name, check_pass_through(funcs[name])))
    for name in NO_CTX:
        only_names(funcs[name], name)

    # ---------------------------------------------------------------------------------------
    out = []
    w = out.append
    w('(* GENERATED by tools/regen_context.py from %s and %s -- DO NOT EDIT.' % (GRAMMAR, TOKENS))
    w('   Flag arithmetic of BlockContext and the context expression / guard at every construct')
    w('   site of the parser, as functions on N bit-vectors. *)')
    w('From Coq Require Import NArith List Bool.')
    w('Import ListNotations.')
    w('Local Open Scope N_scope.')
    w('')
    w('(* hidc/lexer/tokens.py: class Flavor *)')
    w('Inductive flavor : Set := %s.' % ' | '.join('Flavor_' + n for n in flavor_names))
    w('Definition flavor_sigil (f : flavor) : list N :=   (* code points of the prefix *)')
    w('  match f with')
    for n, s in flavor_members:
        w('  | Flavor_%s => [%s]' % (n, '; '.join(str(ord(ch)) for ch in s)))
    w('  end.')
    w('Definition flavor_eqb (a b : flavor) : bool :=')
    w('  match a, b with')
    for n in flavor_names:
        w('  | Flavor_%s, Flavor_%s => true' % (n, n))
    if len(flavor_names) > 1:
        w('  | _, _ => false')
    w('  end.')
    w('')
    w('(* class BlockContext(enum.IntFlag) *)')
    for n in order:
        w('Definition BC_%s : N := %d.' % (n, members[n]))
    w('')
    w('(* enum.Flag.__contains__: `flag in ctx`  <->  ctx & flag == flag *)')
    w('Definition mem (flag ctx : N) : bool := N.eqb (N.land ctx flag) flag.')
    w('(* ps_ident: `ident.token.flavor in allowed_flavors` *)')
    w('Definition allowed (fls : list flavor) (f : flavor) : bool := existsb (flavor_eqb f) fls.')
    w('')
    w('(* BlockContext._missing_: values for which construction raises ValueError *)')
    w('Definition invalid_ctx (value : N) : bool :=')
    w('  let bad := %s in N.eqb (N.land bad value) bad.' % bad_mask)
    w('')
    w('(* BlockContext.flavors *)')
    w('Definition flavors (ctx : N) : list flavor :=')
    w('  %s.' % flavors_body)
    w('')
    for name, params, ty, body, comment in defs:
        w('(* %s *)' % comment.replace('(*', '( *').replace('*)', '* )'))
        if params == '':
            w('Definition %s : %s := %s.' % (name, ty, body))
        elif ':' in params:
            w('Definition %s (%s) : %s := %s.' % (name, params, ty, body))
        else:
            w('Definition %s (%s : N) : %s := %s.' % (name, params, ty, body))
    w('')
    w('(* Routines checked to forward `ctx` unchanged to every context-taking routine they call:')
    for name, callees in passed:
        w('     %s -> %s' % (name, ' '.join(callees) if callees else '(none)'))
    w('*)')
    w('')
    return {OUT: '\n'.join(out)}


def main(argv):
    repo = argv[1] if len(argv) > 1 else REPO
    try:
        files = generate(repo)
    except CannotTranslate as e:
        print('CannotTranslate: %s' % e)
        return 2
    for rel, text in files.items():
        changed = write_if_changed(os.path.join(VERIF, rel), text)
        print('%s %s' % ('wrote' if changed else 'unchanged', rel))
    return 0


if __name__ == '__main__':
    sys.exit(main(sys.argv))
