"""Correspondence check for the `lowerbool` component (C01 item 2, C09 item 6).

Ties the Coq model of hidc's `bool_expr_branch` (coq/Codegen/LowerBoolModel.v, extracted through
coq/Extract/ExtractLowerBool.v, driven by ocaml/hidlower.ml) TEXTUALLY to the real compiler.

For every generated program of one of the shapes

    'if'    empty @is_you(int a, int b, int c) {
                bool p = <D0>;  bool q = <D1>;  [p = <V>;]
                if (<C>) { write('T'); } else { write('F'); } }
    'defs'  empty @is_you(int a, int b, int c) {                       (static defeat)
                bool p = <D0>;  bool q = <D1>;
                try { !truth_is_defeat(<C>); write('f'); } undo { write('t'); } }
    'defv'  empty !chk(int a, int b, int c) {                           (virtual defeat: the try/stop
                bool p = <D0>;  bool q = <D1>;                           in @is_you virtualises it)
                !truth_is_defeat(<C>); write('g'); }
            empty @is_you(int a, int b, int c) { try { !chk(a, b, c); } stop { write('s'); } }

(D0, D1, V, C boolean expression trees of F_model: comparisons of int operands -- int parameters,
integer literals from a boundary grid, nested + - * arithmetic over them --, bool locals, bool
literals, not/and/or) the real front end type-checks it,
the CHECKED tree of each statement is turned into the model's input (so the model sees exactly
what `bool_expr_branch` sees, constant folding included), hidc compiles it (checked build) at each
word size, the emitted text is cut into statement segments at the `; Statement @ ..` metadata,
comment lines are dropped, and every segment that goes through `bool_expr_branch` is compared
LINE BY LINE, labels included, with `print_aline` of the model's output:

    Declaration   push_expr(r1, e)                       Model.declare_bool  (BooleanOp keep=True, or a
                                                                             value into r1 and a byte push)
    Assignment    get_expr_value(r1, e); access.set       Model.assign_bool
    IfBlock       bool_expr_branch(cond, (), goto else)  Model.if_block
    FuncCall      !truth_is_defeat(e)                    Model.lower_defeat  (static / virtual)

The label counters are threaded by the model through the statements of a program, so the
numbering discipline of `add_label` is part of what is compared.

Stand-alone:  python tools/corr_lowerbool.py --tier quick --seed 0
"""
import argparse, collections, json, os, random, shutil, subprocess, sys, time
sys.path.insert(0, os.path.dirname(os.path.abspath(__file__)))
from common import REPO, VERIF, CannotTranslate, write_if_changed

COQ_DEPS = ['Sphinx/Machine.vo', 'Sphinx/WordLemmas.vo', 'Gen/GenTables.vo', 'Codegen/OpTables.vo']
COQ_FILES = ['Codegen/LowerBoolModel.v', 'Extract/ExtractLowerBool.v']
RULE = ('for every generated program and word size, every statement segment that lowers a boolean expression '
        '(Declaration / Assignment of a bool local, IfBlock condition, !truth_is_defeat call with static or '
        'virtual defeat) equals, line for line and label for label, print_aline of the extracted Coq model run '
        'on the checked tree of the same statement, with the label counters and the frame offset threaded '
        'through the program')

OPS = {'lt': '<', 'gt': '>', 'le': '<=', 'ge': '>=', 'eq': '==', 'ne': '!='}
GRID = [0, 1, -1, 2, 3, 5, 127, 128, -128, -129, 255, 256, 32767, 32768, -32768, -32769, 65535, 65536,
        8388607, 8388608, -8388608, 2147483647, 2147483648, -2147483648, -2147483649, 4294967295, 4294967296]
INTS = ['a', 'b', 'c']
BOOLS = ['p', 'q']


# ------------------------------------------------------------------------------------ trees
# E ::= ('lit', bool) | ('bvar', j) | ('cmp', op, A, A) | ('not', E) | ('and', E, E) | ('or', E, E)
# A ::= ('i', k) | ('n', z) | ('ar', op, A, A) | ('un', 'neg'|'pos', A)
AOPS = {'add': '+', 'sub': '-', 'mul': '*'}


def gen_opd(rng, depth=2):
    r = rng.random()
    if depth > 0 and r < 0.22:
        return ('ar', rng.choice(list(AOPS)), gen_opd(rng, depth - 1), gen_opd(rng, depth - 1))
    if depth > 0 and r < 0.30:
        return ('un', 'neg' if rng.random() < 0.6 else 'pos', gen_opd(rng, depth - 1))
    return ('i', rng.randrange(3)) if r < 0.7 else ('n', rng.choice(GRID))


def gen_atom(rng, nbools):
    r = rng.random()
    if r < 0.62 or (nbools == 0 and r < 0.9):
        a, b = gen_opd(rng), gen_opd(rng)
        if a[0] == 'n' and b[0] == 'n' and rng.random() < 0.8:      # mostly avoid foldable atoms
            a = ('i', rng.randrange(3))
        return ('cmp', rng.choice(list(OPS)), a, b)
    if r < 0.9:
        return ('bvar', rng.randrange(nbools))
    return ('lit', rng.random() < 0.5)


def gen_expr(rng, depth, nbools):
    if depth <= 0 or rng.random() < 0.18:
        return gen_atom(rng, nbools)
    r = rng.random()
    if r < 0.2:
        return ('not', gen_expr(rng, depth - 1, nbools))
    k = 'and' if r < 0.6 else 'or'
    return (k, gen_expr(rng, depth - 1, nbools), gen_expr(rng, depth - 1, nbools))


def gen_value_expr(rng, depth, nbools):
    """top node a comparison / and / or (the shapes that reach bool_expr_branch in value position)"""
    for _ in range(50):
        e = gen_expr(rng, depth, nbools)
        if e[0] in ('cmp', 'and', 'or'):
            return e
    return ('cmp', 'lt', ('i', 0), ('i', 1))


def opd_src(a):
    if a[0] == 'i':
        return INTS[a[1]]
    if a[0] == 'n':
        return str(a[1]) if a[1] >= 0 else '(%d)' % a[1]
    if a[0] == 'un':
        return '(%s%s)' % ('-' if a[1] == 'neg' else '+', opd_src(a[2]))
    return '(%s %s %s)' % (opd_src(a[2]), AOPS[a[1]], opd_src(a[3]))


def expr_src(e):
    k = e[0]
    if k == 'lit':
        return 'true' if e[1] else 'false'
    if k == 'bvar':
        return BOOLS[e[1]]
    if k == 'cmp':
        return '(%s %s %s)' % (opd_src(e[2]), OPS[e[1]], opd_src(e[3]))
    if k == 'not':
        return '(not %s)' % expr_src(e[1])
    return '(%s %s %s)' % (expr_src(e[1]), k, expr_src(e[2]))


def depth_of(e):
    if e[0] in ('lit', 'bvar', 'cmp'):
        return 0
    return 1 + max(depth_of(x) for x in e[1:])


def nodes_of(e, out):
    out[e[0]] += 1
    if e[0] in ('not', 'and', 'or'):
        for x in e[1:]:
            nodes_of(x, out)


def subtrees(e):
    if e[0] in ('not', 'and', 'or'):
        for x in e[1:]:
            yield x
            yield from subtrees(x)


# a program: {'d0': E, 'd1': E, 'v': E | None, 'c': E}
def program_src(pr):
    shape = pr.get('shape', 'if')
    body = 'bool p = %s; bool q = %s; ' % (expr_src(pr['d0']), expr_src(pr['d1']))
    if shape == 'if':
        if pr['v'] is not None:
            body += 'p = %s; ' % expr_src(pr['v'])
        body += "if (%s) { write('T'); } else { write('F'); }" % expr_src(pr['c'])
        return 'empty @is_you(int a, int b, int c) { %s }\n' % body
    if shape == 'defs':
        body += "try { !truth_is_defeat(%s); write('f'); } undo { write('t'); }" % expr_src(pr['c'])
        return 'empty @is_you(int a, int b, int c) { %s }\n' % body
    body += "!truth_is_defeat(%s); write('g');" % expr_src(pr['c'])
    return ('empty !chk(int a, int b, int c) { %s }\n'
            "empty @is_you(int a, int b, int c) { try { !chk(a, b, c); } stop { write('s'); } }\n" % body)


# ------------------------------------------------------------------------------------ impl side
class Outside(Exception):
    pass


def opd_sx(o, A, O):
    """checked int operand -> s-expression"""
    ar_names = {O.Add: 'add', O.Sub: 'sub', O.Mul: 'mul'}
    if type(o) is A.IntValue:
        if o.is_char and 0 <= o.data <= 255:
            raise Outside('char literal')
        return '(n %d)' % o.data
    if type(o) is A.VariableLookup and str(o.var.name) in INTS:
        return '(i %d)' % INTS.index(str(o.var.name))
    if type(o) in ar_names:
        return '(ar %s %s %s)' % (ar_names[type(o)], opd_sx(o.left, A, O), opd_sx(o.right, A, O))
    if type(o) in (O.Neg, O.Pos):
        return '(un %s %s)' % ('neg' if type(o) is O.Neg else 'pos', opd_sx(o.arg, A, O))
    raise Outside('operand ' + type(o).__name__)


def checked_sx(x, A, O):
    """checked expression of hidc's front end -> the model's s-expression (Outside if not in F_model)"""
    T = type(x)
    cmp_names = {O.Lt: 'lt', O.Gt: 'gt', O.Le: 'le', O.Ge: 'ge', O.Eq: 'eq', O.Ne: 'ne'}
    if T is A.BoolValue:
        return '(lit %d)' % (1 if x.data else 0)
    if T is A.VariableLookup:
        name = str(x.var.name)
        if name in BOOLS:
            return '(bvar %d)' % BOOLS.index(name)
        raise Outside('variable ' + name)
    if T in cmp_names:
        return '(cmp %s %s %s)' % (cmp_names[T], opd_sx(x.left, A, O), opd_sx(x.right, A, O))
    if T is O.Not:
        return '(not %s)' % checked_sx(x.arg, A, O)
    if T is O.And:
        return '(and %s %s)' % (checked_sx(x.left, A, O), checked_sx(x.right, A, O))
    if T is O.Or:
        return '(or %s %s)' % (checked_sx(x.left, A, O), checked_sx(x.right, A, O))
    raise Outside(T.__name__)


def value_stmt_sx(x, head, A, O):
    """Declaration / Assignment of a bool local: every F_model shape is modelled"""
    return '(%s %s)' % (head, checked_sx(x, A, O))


def impl_run(src, w, shape='if'):
    """-> ('ok', [segments of hidc], model_line, [statements]) | ('outside', why) | ('error', why)"""
    from hidc.lexer import SourceCode
    from hidc.parser import parse
    from hidc.ast import Environment
    from hidc.ast import expressions as A, operators as O, blocks as B, statements as S
    from hidc.codegen import CodeGen
    from hidc.errors import CompilerError
    try:
        env = Environment.empty()
        prog = parse(SourceCode.from_string(src)).evaluate(env)
        funcs = {str(f.name): f for f in prog.func_decls}
        cg = CodeGen(env, word_size=w, stack_size=64, unchecked=False)
        lines = list(cg.gen_lines())
    except CompilerError as e:
        return ('error', '%s: %s' % (type(e).__name__, str(e).split('\n')[0][:100]))
    except Exception as e:                                  # noqa
        return ('error', 'internal %s: %s' % (type(e).__name__, str(e)[:100]))
    # model input from the checked tree, in the order in which the statements are emitted
    sx = []
    try:
        if shape == 'defv':
            # @is_you is emitted first: TryBlock, the call of !chk, write('s'), the implicit return
            sx += ['(skip)'] * 4 + ['(newfun 3)']
            stmts = [f for n, f in funcs.items() if n.endswith('chk')][0].body.stmts
        else:
            stmts = [f for n, f in funcs.items() if n.endswith('is_you')][0].body.stmts
        for s in stmts:
            if isinstance(s, S.Declaration):
                sx.append(value_stmt_sx(s.init, 'decl', A, O))
            elif isinstance(s, S.Assignment):
                sx.append(value_stmt_sx(s.expr, 'assign %d' % BOOLS.index(str(s.lookup.var.name)), A, O))
            elif isinstance(s, B.IfBlock):
                sx.append('(if %s)' % checked_sx(s.cond, A, O))
            elif isinstance(s, B.TryBlock):
                call = s.body.stmts[0]
                sx += ['(skip)', '(defeat s %s)' % checked_sx(call.args[0], A, O)]
            elif isinstance(s, A.FuncCall) and 'truth_is_defeat' in str(s.func):
                sx.append('(defeat v %s)' % checked_sx(s.args[0], A, O))
            else:
                break                                       # write(..) / the implicit return
    except Outside as e:
        return ('outside', str(e))
    # cut the emitted text into statement segments
    segs, cur = [], None
    for ln in lines:
        t = ln.strip()
        if t.startswith(b'; Statement @'):
            cur = []
            segs.append(cur)
            continue
        if t.startswith(b';') or cur is None:
            continue
        if t.endswith(b':') and (t.startswith(b'func_') or t in (b'all_is_win:',)):
            cur = None                                      # the next function / the stdlib
            continue
        cur.append(t.decode())
    nseg = len([x for x in sx if not x.startswith('(newfun')])
    return ('ok', segs[:nseg], '%d 3 %s' % (w, ' '.join(sx)), [x for x in sx if not x.startswith('(newfun')])


# ------------------------------------------------------------------------------------ model side
def _stale(out, srcs):
    try:
        t = os.path.getmtime(out)
    except OSError:
        return True
    return any(os.path.exists(s) and os.path.getmtime(s) >= t for s in srcs)


def build_model(workdir, log):
    """regenerate Gen/GenTables.v from REPO (recompiling it and OpTables.v only if the text changed),
    compile the model and its extraction when stale, build the driver in workdir -> path of the
    executable.  (No flock here: under ./check the caller holds /verif/.work/build.lock; stand-alone,
    run under `flock /verif/.work/build.lock`.)"""
    import regen
    coq = os.path.join(VERIF, 'coq')

    def coqc(f):
        p = subprocess.run(['timeout', '900', 'coqc', '-Q', '.', 'HidV', f], cwd=coq, capture_output=True, text=True)
        if p.returncode != 0:
            raise RuntimeError('coqc %s failed:\n%s' % (f, (p.stderr or p.stdout)[-1500:]))
        log.append('compiled ' + f)

    text = regen.gen_tables(REPO)                          # may raise CannotTranslate
    if write_if_changed(os.path.join(VERIF, 'coq/Gen/GenTables.v'), text):
        log.append('regenerated coq/Gen/GenTables.v')
        coqc('Gen/GenTables.v')
        coqc('Codegen/OpTables.v')
    prev = [os.path.join(coq, d) for d in COQ_DEPS]
    core = os.path.join(VERIF, 'ocaml', 'hidlower_core.ml')
    for f in COQ_FILES:
        src = os.path.join(coq, f)
        if _stale(src + 'o', [src] + prev) or (f.startswith('Extract/') and not os.path.exists(core)):
            coqc(f)
        prev.append(src + 'o')
    os.makedirs(workdir, exist_ok=True)
    oc = os.path.join(VERIF, 'ocaml')
    for f in ('hidlower_core.ml', 'hidlower_core.mli', 'hidlower.ml'):
        shutil.copy(os.path.join(oc, f), os.path.join(workdir, f))
    p = subprocess.run(['timeout', '300', 'ocamlfind', 'ocamlopt', 'hidlower_core.mli', 'hidlower_core.ml', 'hidlower.ml',
                        '-o', 'hidlower'], cwd=workdir, capture_output=True, text=True)
    if p.returncode != 0:
        raise RuntimeError('ocaml build failed:\n' + (p.stderr or p.stdout)[-1500:])
    return os.path.join(workdir, 'hidlower')


def model_all(exe, lines):
    if not lines:
        return []
    p = subprocess.run([exe], input='\n'.join(lines) + '\n', capture_output=True, text=True, timeout=900)
    out = p.stdout.split('\n')
    if out and out[-1] == '':
        out.pop()
    if p.returncode != 0 or len(out) != len(lines):
        raise RuntimeError('model driver failed (%d lines for %d inputs): %s' % (len(out), len(lines), p.stderr[-500:]))
    return out


def model_segments(text):
    if text.startswith('ERROR'):
        return None
    return [([] if s == '' else s.split('\t')) for s in text.split(' @@ ')]


# ------------------------------------------------------------------------------------ comparison
def compare(impl, model_text):
    """-> (lines compared, first difference | None)"""
    _, segs, _, sx = impl
    msegs = model_segments(model_text)
    if msegs is None:
        return 0, {'segment': -1, 'model': model_text, 'impl': ''}
    n = 0
    for k, (s, stmt) in enumerate(zip(segs, sx)):
        if stmt == '(skip)':
            continue
        want = list(msegs[k]) if k < len(msegs) else ['<no model segment>']
        if stmt.startswith('(defeat s'):
            s = s[:len(s) - 0]                              # the segment ends at the next statement
        n += len(s)
        if s != want:
            i = 0
            while i < min(len(s), len(want)) and s[i] == want[i]:
                i += 1
            return n, {'segment': k, 'statement': stmt, 'line': i,
                       'model': want[i] if i < len(want) else '<end>', 'impl': s[i] if i < len(s) else '<end>',
                       'model_len': len(want), 'impl_len': len(s)}
    if len(segs) != len(sx):
        return n, {'segment': -2, 'model': '%d statements' % len(sx), 'impl': '%d segments' % len(segs)}
    return n, None


def check_one(exe, pr, w):
    """-> (status, lines, diff)"""
    r = impl_run(program_src(pr), w, pr.get('shape', 'if'))
    if r[0] != 'ok':
        return r[0], 0, r[1]
    n, d = compare(r, model_all(exe, [r[2]])[0])
    return 'ok', n, d


def shrink(exe, pr, w):
    """greedy: smaller trees while some disagreement persists"""
    def bad(q):
        st, _, d = check_one(exe, q, w)
        return st == 'ok' and d is not None
    simple = ('cmp', 'lt', ('i', 0), ('i', 1))
    changed = True
    while changed:
        changed = False
        cands = []
        if pr.get('v') is not None:
            cands.append(dict(pr, v=None))
        for key in ('c', 'v', 'd1', 'd0'):
            e = pr.get(key)
            if e is None:
                continue
            alts = list(subtrees(e)) + [simple, ('lit', True)]
            for x in alts:
                if x != e and len(expr_src(x)) < len(expr_src(e)):
                    cands.append(dict(pr, **{key: x}))
        cands.sort(key=lambda q: len(program_src(q)))
        for q in cands:
            if bad(q):
                pr, changed = q, True
                break
    return pr


# ------------------------------------------------------------------------------------ inputs
def enumerated(tier):
    """small systematic family: every connective over every pair of atom shapes, with and without
    negation, in all three positions (the goto-omission variants of bool_expr_branch)"""
    atoms = [('cmp', 'lt', ('i', 0), ('i', 1)), ('cmp', 'eq', ('i', 1), ('n', 3)), ('cmp', 'le', ('n', 5), ('i', 2)),
             ('bvar', 0), ('lit', True), ('lit', False), ('not', ('bvar', 1)),
             ('cmp', 'lt', ('ar', 'add', ('i', 0), ('n', 1)), ('ar', 'mul', ('i', 1), ('i', 2))),      # left kept
             ('cmp', 'ge', ('i', 0), ('ar', 'sub', ('i', 1), ('n', 2))),                                  # unsafe right
             ('cmp', 'gt', ('un', 'pos', ('i', 0)), ('un', 'neg', ('ar', 'add', ('i', 1), ('i', 2))))]   # unary, left kept
    if tier != 'quick':
        atoms += [('cmp', 'eq', ('ar', 'add', ('i', 0), ('i', 1)), ('n', 3)),
                  ('cmp', 'ne', ('ar', 'sub', ('ar', 'add', ('i', 0), ('i', 1)), ('ar', 'mul', ('i', 2), ('n', 2))),
                   ('ar', 'add', ('ar', 'add', ('i', 0), ('n', 1)), ('ar', 'sub', ('n', 2), ('ar', 'mul', ('i', 1), ('i', 1)))))]
    if tier != 'quick':
        atoms += [('cmp', 'ne', ('n', -32769), ('n', 7)), ('cmp', 'ge', ('i', 2), ('i', 2)), ('cmp', 'gt', ('i', 0), ('n', 65536))]
    simple = ('cmp', 'lt', ('i', 0), ('i', 1))
    out = []
    for x in atoms:
        out.append({'d0': simple, 'd1': simple, 'v': None, 'c': x})
        for y in atoms:
            for k in ('and', 'or'):
                e = (k, x, y)
                out.append({'d0': simple, 'd1': simple, 'v': None, 'c': e})
                out.append({'d0': simple, 'd1': simple, 'v': None, 'c': ('not', e)})
                out.append({'d0': e if e[0] in ('and', 'or') else simple, 'd1': simple, 'v': e, 'c': ('bvar', 0)})
                for z in atoms[:4]:
                    for k2 in ('and', 'or'):
                        out.append({'d0': simple, 'd1': simple, 'v': None, 'c': (k2, e, z)})
                        if tier != 'quick':
                            out.append({'d0': simple, 'd1': simple, 'v': None, 'c': (k2, z, ('not', e))})
    # the same conditions under !truth_is_defeat, static and virtual
    extra = []
    for x in atoms:
        for shape in ('defs', 'defv'):
            extra.append({'shape': shape, 'd0': simple, 'd1': ('not', ('bvar', 0)), 'c': x})
            extra.append({'shape': shape, 'd0': simple, 'd1': ('bvar', 0), 'c': ('not', x)})
            extra.append({'shape': shape, 'd0': simple, 'd1': ('lit', True), 'c': ('not', ('not', x))})
            for y in atoms:
                for k in ('and', 'or'):
                    extra.append({'shape': shape, 'd0': simple, 'd1': simple, 'c': (k, x, y)})
                    if tier != 'quick' or atoms.index(y) < 4:
                        extra.append({'shape': shape, 'd0': simple, 'd1': simple, 'c': ('or', (k, x, y), ('not', y))})
    out += extra
    # d0 may not mention p or q, d1 may not mention q: patch offending enumerated declarations
    for pr in out:
        if 'bvar' in repr(pr['d0']):
            pr['d0'] = simple
    return out


def random_program(rng, maxdepth):
    d = rng.randint(0, maxdepth)
    shape = rng.choice(['if', 'if', 'defs', 'defv'])
    return {'shape': shape,
            'd0': gen_expr(rng, rng.randint(0, 2), 0),
            'd1': gen_expr(rng, rng.randint(0, 2), 1),
            'v': (gen_expr(rng, rng.randint(0, 3), 2) if rng.random() < 0.5 else None) if shape == 'if' else None,
            'c': gen_expr(rng, d, 2)}


# ------------------------------------------------------------------------------------ run
def run(tier, seed, workdir):
    t0 = time.time()
    rng = random.Random(seed)
    log = []
    sys.path.insert(0, REPO)
    exe = build_model(workdir, log)
    quick = tier == 'quick'
    words = [2, 4] if quick else [2, 3, 4, 8]
    nrand = 300 if quick else 3000
    maxdepth = 5 if quick else 7
    progs = enumerated(tier) + [random_program(rng, maxdepth) for _ in range(nrand)]

    dist = {'depth': collections.Counter(), 'nodes': collections.Counter(), 'word': collections.Counter(),
            'status': collections.Counter(), 'segments': collections.Counter(), 'operands': collections.Counter(), 'shape': collections.Counter()}
    jobs = []                                                   # (program index, w, impl result)
    for k, pr in enumerate(progs):
        src = program_src(pr)
        dist['depth'][depth_of(pr['c'])] += 1
        nodes_of(pr['c'], dist['nodes'])
        for w in words:
            r = impl_run(src, w, pr.get('shape', 'if'))
            dist['status'][r[0]] += 1
            dist['shape'][pr.get('shape', 'if')] += 1
            if r[0] == 'ok':
                jobs.append((k, w, r))
                dist['word'][w] += 1
                for s in r[3]:
                    dist['segments'][s.split(' ')[0].strip('(').strip(')')] += 1
                    dist['operands']['arith'] += s.count('(ar ')
                    dist['operands']['unary'] += s.count('(un ')
                    dist['operands']['local'] += s.count('(i ')
                    dist['operands']['literal'] += s.count('(n ')
            elif r[0] == 'error':
                log.append('impl error on %r: %s' % (src.strip(), r[1]))
    outs = model_all(exe, [r[2] for (_, _, r) in jobs])
    lines_compared, disagreements, seen_bad, samples = 0, [], set(), []
    distinct = set()
    for (k, w, r), mt in zip(jobs, outs):
        n, d = compare(r, mt)
        lines_compared += n
        c = progs[k]['c']
        if depth_of(c) >= 1:
            distinct.add(expr_src(c))
        if len(samples) < 3 and depth_of(c) >= 2 and n:
            samples.append({'source': program_src(progs[k]).strip(), 'w': w, 'model_input': r[2], 'lines': n})
        if d is not None and k not in seen_bad and len(disagreements) < 10:
            seen_bad.add(k)
            small = shrink(exe, progs[k], w)
            rs = impl_run(program_src(small), w, small.get('shape', 'if'))
            n2, d2 = compare(rs, model_all(exe, [rs[2]])[0]) if rs[0] == 'ok' else (0, d)
            d2 = d2 or d
            disagreements.append({'input': program_src(small).strip(), 'w': w, 'model': d2.get('model'), 'impl': d2.get('impl'),
                                  'detail': d2, 'original': program_src(progs[k]).strip()})
        elif d is not None:
            seen_bad.add(k)
    dist['programs_disagreeing'] = len(seen_bad)
    return {
        'evaluations': len(jobs),
        'distinct_nontrivial': len(distinct),
        'rule': RULE,
        'samples': samples,
        'disagreements': disagreements,
        'exhaustive': False,
        'distribution': {k: (dict(v) if isinstance(v, collections.Counter) else v) for k, v in dist.items()},
        'programs': len(progs),
        'lines_compared': lines_compared,
        'word_sizes': words,
        'log': log,
        'seconds': round(time.time() - t0, 1),
    }


if __name__ == '__main__':
    ap = argparse.ArgumentParser()
    ap.add_argument('--tier', default='quick', choices=['quick', 'thorough'])
    ap.add_argument('--seed', type=int, default=0)
    ap.add_argument('--workdir', default=os.path.join(VERIF, '.work', 'lowerbool', 'corr'))
    a = ap.parse_args()
    res = run(a.tier, a.seed, a.workdir)
    print(json.dumps(res, indent=1, default=str))
    sys.exit(1 if res['disagreements'] else 0)
