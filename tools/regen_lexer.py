"""Translator for the `lexer` component (property C12).

Reads hidc/lexer/tokens.py, hidc/lexer/readers.py and hidc/lexer/__init__.py of the repository's
*working tree* with Python's `ast` module (nothing is imported or executed) and emits
coq/Gen/GenLexer.v:

  * every `@include_enum` token class with member names and spellings (`enum_tokens`, in source
    order), and the `Flavor` members with their sigils,
  * `escape_codes`,
  * the source text of every `re.compile` regex of readers.py (`regex_texts`, source order),
  * the order of the readers in `lex()` (`reader_order`),
  * the literal / base pairs of the `if/elif` chain of `read_int_token` (`int_reader_cases`), and
    which of its returns are guarded by `try ... except ValueError: raise LexerError('Integer
    literal too large', scan.cursor)` (`int_reader_guards`),
  * the exception classes that `read_char_escape` turns into 'Invalid unicode codepoint'
    (`chr_excepts`),
  * for every function of readers.py: the regex names it passes to `scan.match` and the string
    constants it passes to `scan.exact`, in source order (`reader_uses`),
  * the direction of the `symbol_tokens` sort (`symbol_sort_reverse`).

Fail closed: any shape that is not the one described raises `CannotTranslate`.  The hand model
(coq/HiD/Lexer.v) pins all of these by `reflexivity`, so editing a regex, an escape code, a
spelling or the reader order changes this file and breaks a proof.

    generate(repo_root) -> {relative path under /verif: text}
"""
import ast
import os
import sys

sys.path.insert(0, os.path.dirname(os.path.abspath(__file__)))
from common import CannotTranslate, REPO, VERIF, write_if_changed  # noqa: E402

TOKENS = 'hidc/lexer/tokens.py'
READERS = 'hidc/lexer/readers.py'
INIT = 'hidc/lexer/__init__.py'
OUT = 'coq/Gen/GenLexer.v'


def _parse(root, rel):
    path = os.path.join(root, rel)
    try:
        with open(path, encoding='utf-8') as f:
            src = f.read()
    except OSError as e:
        raise CannotTranslate(rel, 'cannot read: %s' % e)
    try:
        return ast.parse(src, filename=rel)
    except SyntaxError as e:
        raise CannotTranslate(rel, 'syntax error: %s' % e)


def _same(node, text, item):
    """The node must unparse to exactly `text` (whitespace-normalised by ast.unparse)."""
    got = ast.unparse(node)
    want = ast.unparse(ast.parse(text).body[0])
    if got != want:
        raise CannotTranslate(item, 'unexpected shape:\n  got  %s\n  want %s' % (got, want))


def _ascii_printable(s, item):
    for ch in s:
        if not (32 <= ord(ch) < 127):
            raise CannotTranslate(item, 'non-printable / non-ASCII character %r in %r' % (ch, s))
    return s


# ------------------------------------------------------------------------------------------------
# tokens.py
# ------------------------------------------------------------------------------------------------

def read_tokens(tree):
    enum_classes = []       # (class, [(member, spelling)])
    flavors = None
    saw_include_enum = False
    saw_enum_tokens = False
    for node in tree.body:
        if isinstance(node, ast.Assign) and len(node.targets) == 1 and \
                isinstance(node.targets[0], ast.Name) and node.targets[0].id == 'enum_tokens':
            _same(node, 'enum_tokens = set()', 'tokens.enum_tokens')
            saw_enum_tokens = True
        elif isinstance(node, ast.FunctionDef) and node.name == 'include_enum':
            _same(node, 'def include_enum(cls):\n    enum_tokens.update(cls)\n    return cls',
                  'tokens.include_enum')
            saw_include_enum = True
        elif isinstance(node, ast.ClassDef):
            bases = [ast.unparse(b) for b in node.bases]
            decos = [ast.unparse(d) for d in node.decorator_list]
            if node.name == 'Flavor':
                if bases != ['enum.Enum'] or decos:
                    raise CannotTranslate('tokens.Flavor', 'bases/decorators changed')
                flavors = _members(node, 'tokens.Flavor', allow_empty_value=True)
            elif node.name == 'EnumToken':
                if bases != ['Token', 'enum.Enum']:
                    raise CannotTranslate('tokens.EnumToken', 'bases changed')
                for sub in node.body:
                    if isinstance(sub, ast.FunctionDef) and sub.name == '__str__':
                        _same(sub, 'def __str__(self):\n    return self.value',
                              'tokens.EnumToken.__str__')
                        break
                else:
                    raise CannotTranslate('tokens.EnumToken', 'no __str__')
            elif 'EnumToken' in bases:
                if bases != ['EnumToken']:
                    raise CannotTranslate('tokens.' + node.name, 'extra bases')
                if decos == ['include_enum']:
                    enum_classes.append((node.name, _members(node, 'tokens.' + node.name)))
                elif decos:
                    raise CannotTranslate('tokens.' + node.name, 'unknown decorators %s' % decos)
                # an undecorated EnumToken subclass is never lexed: not part of the table
            elif 'include_enum' in decos:
                raise CannotTranslate('tokens.' + node.name, '@include_enum on a non-EnumToken')
    if not (saw_include_enum and saw_enum_tokens):
        raise CannotTranslate('tokens.py', 'enum_tokens / include_enum not found')
    if flavors is None:
        raise CannotTranslate('tokens.Flavor', 'not found')
    if [m for m, _ in flavors] != ['NONE', 'YOU', 'DEFEAT']:
        raise CannotTranslate('tokens.Flavor', 'members are %s' % [m for m, _ in flavors])
    if not enum_classes:
        raise CannotTranslate('tokens.py', 'no @include_enum classes')
    return enum_classes, flavors


def _members(cls, item, allow_empty_value=False):
    out = []
    seen_vals = set()
    seen_names = set()
    for sub in cls.body:
        if isinstance(sub, ast.Assign):
            if len(sub.targets) != 1 or not isinstance(sub.targets[0], ast.Name):
                raise CannotTranslate(item, 'unsupported member assignment')
            name = sub.targets[0].id
            if not (isinstance(sub.value, ast.Constant) and isinstance(sub.value.value, str)):
                raise CannotTranslate(item + '.' + name, 'value is not a string literal')
            val = sub.value.value
            if not val and not allow_empty_value:
                raise CannotTranslate(item + '.' + name, 'empty spelling')
            _ascii_printable(val, item + '.' + name)
            if name.startswith('_') or not name.isidentifier():
                raise CannotTranslate(item + '.' + name, 'not a plain member name')
            if val in seen_vals or name in seen_names:
                raise CannotTranslate(item + '.' + name, 'duplicate value/name (enum alias)')
            seen_vals.add(val)
            seen_names.add(name)
            out.append((name, val))
        elif isinstance(sub, (ast.FunctionDef, ast.Pass)):
            pass
        elif isinstance(sub, ast.Expr) and isinstance(sub.value, ast.Constant):
            pass            # docstring
        elif isinstance(sub, ast.AnnAssign):
            raise CannotTranslate(item, 'annotated member')
        else:
            raise CannotTranslate(item, 'unsupported class body item %s' % type(sub).__name__)
    if not out:
        raise CannotTranslate(item, 'no members')
    return out


# ------------------------------------------------------------------------------------------------
# readers.py
# ------------------------------------------------------------------------------------------------

T_KEYWORDS = '''keyword_tokens = {
    str(tok): tok for tok in tokens.enum_tokens
    if ident_pattern.fullmatch(str(tok))
}'''


def read_readers(tree):
    regexes = []            # (name, pattern)
    escape_codes = None
    functions = []          # FunctionDef in order
    sort_reverse = None
    saw_keywords = False
    for node in tree.body:
        if isinstance(node, (ast.Import, ast.ImportFrom)):
            continue
        if isinstance(node, ast.FunctionDef):
            if node.decorator_list:
                raise CannotTranslate('readers.' + node.name, 'decorated')
            functions.append(node)
            continue
        if not (isinstance(node, ast.Assign) and len(node.targets) == 1 and
                isinstance(node.targets[0], ast.Name)):
            raise CannotTranslate('readers.py', 'unsupported top-level statement: %s'
                                  % ast.unparse(node)[:60])
        name = node.targets[0].id
        val = node.value
        if isinstance(val, ast.Call) and ast.unparse(val.func) == 're.compile':
            if len(val.args) != 1 or val.keywords or not (
                    isinstance(val.args[0], ast.Constant) and isinstance(val.args[0].value, str)):
                raise CannotTranslate('readers.' + name, 're.compile with flags / non-literal')
            regexes.append((name, _ascii_printable(val.args[0].value, 'readers.' + name)))
        elif name == 'escape_codes':
            escape_codes = _escape_codes(val)
        elif name == 'keyword_tokens':
            _same(node, T_KEYWORDS, 'readers.keyword_tokens')
            saw_keywords = True
        elif name == 'symbol_tokens':
            sort_reverse = _symbol_sort(val)
        else:
            raise CannotTranslate('readers.' + name, 'unknown module-level name')
    if escape_codes is None or sort_reverse is None or not saw_keywords:
        raise CannotTranslate('readers.py', 'escape_codes / symbol_tokens / keyword_tokens missing')
    names = [n for n, _ in regexes]
    if len(set(names)) != len(names):
        raise CannotTranslate('readers.py', 'regex name bound twice')
    fnames = [f.name for f in functions]
    if len(set(fnames)) != len(fnames):
        raise CannotTranslate('readers.py', 'function defined twice')
    uses = [(f.name, _uses(f, set(names))) for f in functions]
    int_cases = None
    chr_excepts = None
    for f in functions:
        if f.name == 'read_int_token':
            int_cases = _int_cases(f)
        if f.name == 'read_char_escape':
            chr_excepts = _chr_excepts(f)
    if int_cases is None:
        raise CannotTranslate('readers.read_int_token', 'not found')
    if chr_excepts is None:
        raise CannotTranslate('readers.read_char_escape', 'not found')
    return regexes, escape_codes, uses, int_cases, chr_excepts, sort_reverse


def _escape_codes(val):
    item = 'readers.escape_codes'
    if not (isinstance(val, ast.Call) and ast.unparse(val.func) == 'dict' and len(val.args) == 1
            and not val.keywords and isinstance(val.args[0], ast.List)):
        raise CannotTranslate(item, 'not dict([...])')
    out = []
    for e in val.args[0].elts:
        if not (isinstance(e, ast.Constant) and isinstance(e.value, str) and len(e.value) == 2):
            raise CannotTranslate(item, 'entry is not a two-character string literal')
        k, v = ord(e.value[0]), ord(e.value[1])
        if k in [x for x, _ in out]:
            raise CannotTranslate(item, 'duplicate key %r' % e.value[0])
        out.append((k, v))
    return out


def _symbol_sort(val):
    item = 'readers.symbol_tokens'
    if not (isinstance(val, ast.Call) and ast.unparse(val.func) == 'sorted' and len(val.args) == 1):
        raise CannotTranslate(item, 'not sorted(<genexp>, ...)')
    _same(ast.Expr(val.args[0]),
          '(tok for tok in tokens.enum_tokens if not ident_pattern.fullmatch(str(tok)))', item)
    kws = {k.arg: k.value for k in val.keywords}
    if set(kws) - {'key', 'reverse'} or 'key' not in kws:
        raise CannotTranslate(item, 'unexpected keywords %s' % sorted(map(str, kws)))
    _same(ast.Expr(kws['key']), 'lambda tok: len(str(tok))', item + ' key')
    if 'reverse' not in kws:
        return False
    r = kws['reverse']
    if not (isinstance(r, ast.Constant) and isinstance(r.value, bool)):
        raise CannotTranslate(item, 'reverse= is not a bool literal')
    return r.value


def _uses(fn, regex_names):
    """scan.match(<regex name>) and scan.exact(<str literal>) calls in source order."""
    found = []
    for node in ast.walk(fn):
        if isinstance(node, ast.Call) and isinstance(node.func, ast.Attribute) and \
                isinstance(node.func.value, ast.Name) and node.func.value.id == 'scan':
            item = 'readers.%s' % fn.name
            pos = (node.lineno, node.col_offset)
            if node.func.attr == 'match':
                if len(node.args) != 1 or not isinstance(node.args[0], ast.Name) or \
                        node.args[0].id not in regex_names:
                    raise CannotTranslate(item, 'scan.match of something that is not a regex name')
                found.append((pos, 'M', node.args[0].id))
            elif node.func.attr == 'exact' and len(node.args) == 1 and \
                    fn.name == 'read_symbol_token' and ast.unparse(node.args[0]) == 'str(symbol)':
                _same(fn, 'def read_symbol_token(scan):\n    for symbol in symbol_tokens:\n'
                          '        if scan.exact(str(symbol)):\n            return symbol',
                      item)
                found.append((pos, 'S', 'symbol_tokens'))
            elif node.func.attr == 'exact':
                if len(node.args) != 1 or not (isinstance(node.args[0], ast.Constant) and
                                               isinstance(node.args[0].value, str)):
                    raise CannotTranslate(item, 'scan.exact of a non-literal')
                found.append((pos, 'E', _ascii_printable(node.args[0].value, item)))
            elif node.func.attr == 'read':
                if not (len(node.args) == 1 and isinstance(node.args[0], ast.Constant)
                        and node.args[0].value == 1):
                    raise CannotTranslate(item, 'scan.read(n) with n != 1')
                found.append((pos, 'R', '1'))
            elif node.func.attr in ('linebreak',):
                found.append((pos, 'L', ''))
            else:
                raise CannotTranslate(item, 'unknown scanner method %s' % node.func.attr)
    found.sort()
    return [(k, v) for _, k, v in found]


T_INT_GUARD = """try:
    return X
except ValueError:
    raise LexerError('Integer literal too large', scan.cursor)
"""


def _int_cases(fn):
    """-> [(regex name, base, guard)], guard = '' (plain return) or the name of the exception
    that is turned into LexerError('Integer literal too large', scan.cursor)."""
    item = 'readers.read_int_token'
    if len(fn.body) != 1 or not isinstance(fn.body[0], ast.If):
        raise CannotTranslate(item, 'body is not a single if/elif chain')
    cases = []
    node = fn.body[0]
    while True:
        t = node.test
        ok = (isinstance(t, ast.NamedExpr) and isinstance(t.target, ast.Name)
              and isinstance(t.value, ast.Call) and ast.unparse(t.value.func) == 'scan.match'
              and len(t.value.args) == 1 and isinstance(t.value.args[0], ast.Name)
              and len(node.body) == 1)
        if not ok:
            raise CannotTranslate(item, 'unexpected test/body')
        var = t.target.id
        stmt = node.body[0]
        guard = ''
        if isinstance(stmt, ast.Try):
            if not (len(stmt.body) == 1 and isinstance(stmt.body[0], ast.Return)
                    and len(stmt.handlers) == 1 and not stmt.orelse and not stmt.finalbody):
                raise CannotTranslate(item, 'unexpected try statement')
            shape = ast.parse(T_INT_GUARD).body[0]
            shape.body[0] = stmt.body[0]
            _same(stmt, ast.unparse(shape), item + ' (guard)')
            guard = 'ValueError'
            stmt = stmt.body[0]
        if not isinstance(stmt, ast.Return):
            raise CannotTranslate(item, 'branch body is neither a return nor a guarded return')
        ret = stmt.value
        if not (isinstance(ret, ast.Call) and ast.unparse(ret.func) == 'tokens.IntToken'
                and len(ret.args) == 1 and isinstance(ret.args[0], ast.Call)
                and ast.unparse(ret.args[0].func) == 'int' and len(ret.args[0].args) == 2
                and isinstance(ret.args[0].args[0], ast.Name) and ret.args[0].args[0].id == var
                and isinstance(ret.args[0].args[1], ast.Constant)
                and type(ret.args[0].args[1].value) is int):
            raise CannotTranslate(item, 'return is not tokens.IntToken(int(%s, <base>))' % var)
        cases.append((t.value.args[0].id, ret.args[0].args[1].value, guard))
        if not node.orelse:
            break
        if len(node.orelse) != 1 or not isinstance(node.orelse[0], ast.If):
            raise CannotTranslate(item, 'else branch is not an elif')
        node = node.orelse[0]
    return cases


def _chr_excepts(fn):
    """read_char_escape: the exception classes of the `try: return chr(codepoint)` that become
    LexerError('Invalid unicode codepoint: ...', scan.cursor)."""
    item = 'readers.read_char_escape'
    tries = [n for n in ast.walk(fn) if isinstance(n, ast.Try)]
    if len(tries) != 1:
        raise CannotTranslate(item, 'expected exactly one try statement')
    t = tries[0]
    if not (len(t.body) == 1 and ast.unparse(t.body[0]) == 'return chr(codepoint)'
            and len(t.handlers) == 1 and not t.orelse and not t.finalbody
            and t.handlers[0].name is None):
        raise CannotTranslate(item, 'unexpected try statement')
    h = t.handlers[0]
    if isinstance(h.type, ast.Name):
        names = [h.type.id]
    elif isinstance(h.type, ast.Tuple) and all(isinstance(e, ast.Name) for e in h.type.elts):
        names = [e.id for e in h.type.elts]
    else:
        raise CannotTranslate(item, 'except clause is not a class or a tuple of classes')
    _same(ast.Module(body=h.body, type_ignores=[]).body[0] if len(h.body) == 1 else ast.Pass(),
          "raise LexerError(f'Invalid unicode codepoint: {codepoint:X}', scan.cursor)", item + ' (handler)')
    return names


# ------------------------------------------------------------------------------------------------
# __init__.py : reader order in lex()
# ------------------------------------------------------------------------------------------------

T_LEX_REST = '''def lex(source):
    scan = Scanner(source)
    marker = scan.mark()
    while True:
        readers.skip_whitespace(scan)
        if not scan:
            return marker.cursor
        marker = scan.mark()
        for reader in tok_readers:
            tok = reader(scan)
            if tok is not None:
                yield Lexeme(tok, marker.advance())
                break
        else:
            raise LexerError.unhelpful(scan.cursor)
'''


def read_order(tree):
    for node in tree.body:
        if isinstance(node, ast.FunctionDef) and node.name == 'lex':
            if not node.body:
                break
            first = node.body[0]
            if not (isinstance(first, ast.Assign) and len(first.targets) == 1
                    and isinstance(first.targets[0], ast.Name)
                    and first.targets[0].id == 'tok_readers' and isinstance(first.value, ast.List)):
                raise CannotTranslate('lexer.lex', 'first statement is not tok_readers = [...]')
            order = []
            for e in first.value.elts:
                if not (isinstance(e, ast.Attribute) and isinstance(e.value, ast.Name)
                        and e.value.id == 'readers'):
                    raise CannotTranslate('lexer.lex', 'reader is not readers.<name>')
                order.append(e.attr)
            rest = ast.FunctionDef(name=node.name, args=node.args, body=node.body[1:],
                                   decorator_list=node.decorator_list, returns=node.returns,
                                   type_comment=None, lineno=0, col_offset=0)
            try:
                rest.type_params = []
            except Exception:
                pass
            _same(rest, T_LEX_REST, 'lexer.lex (main loop)')
            return order
    raise CannotTranslate('lexer.lex', 'not found')


# ------------------------------------------------------------------------------------------------
# Coq output
# ------------------------------------------------------------------------------------------------

def _cstr(s):
    return '"' + s.replace('"', '""') + '"'


def _codes(s):
    return '[' + '; '.join(str(ord(c)) for c in s) + ']'


def emit(enum_classes, flavors, regexes, escape_codes, uses, int_cases, chr_excepts, sort_reverse,
         order):
    o = []
    w = o.append
    w('(* GENERATED by tools/regen_lexer.py from %s, %s and %s -- DO NOT EDIT.' % (TOKENS, READERS, INIT))
    w('   Spelling tables, escape table, regex source texts, reader order. *)')
    w('From Coq Require Import ZArith List String.')
    w('Import ListNotations.')
    w('Local Open Scope Z_scope.')
    w('Local Open Scope string_scope.')
    w('')
    w('(* A token tag is (class name, member name). *)')
    w('Definition tag : Type := (string * string)%type.')
    w('')
    w('(* tokens.py: every @include_enum class, members in source order: (spelling, tag). *)')
    w('Definition enum_tokens : list (list Z * tag) :=')
    rows = []
    for cls, members in enum_classes:
        for name, val in members:
            safe = all(ch.isalnum() or ch in '+-/%=<>!?;,.[]{}' for ch in val)
            rows.append('   %s(%s, (%s, %s))' % ('(* %s *) ' % val if safe else '', _codes(val),
                                               _cstr(cls), _cstr(name)))
    w('  [\n' + ';\n'.join(rows) + '\n  ].')
    w('')
    w('Definition enum_classes : list string :=')
    w('  [' + '; '.join(_cstr(c) for c, _ in enum_classes) + '].')
    w('')
    w('(* tokens.py: class Flavor: (member, sigil). *)')
    w('Definition flavors : list (string * list Z) :=')
    w('  [' + '; '.join('(%s, %s)' % (_cstr(n), _codes(v)) for n, v in flavors) + '].')
    w('')
    w('(* readers.py: escape_codes: (character after the backslash, code point it denotes). *)')
    w('Definition escape_codes : list (Z * Z) :=')
    w('  [' + '; '.join('(%d, %d)' % kv for kv in escape_codes) + '].')
    w('')
    w('(* readers.py: every re.compile, in source order: (name, pattern text). *)')
    w('Definition regex_texts : list (string * string) :=')
    w('  [\n' + ';\n'.join('   (%s, %s)' % (_cstr(n), _cstr(p)) for n, p in regexes) + '\n  ].')
    w('')
    w('(* lexer/__init__.py: tok_readers of lex(), in order (the rest of lex() is shape-checked). *)')
    w('Definition reader_order : list string :=')
    w('  [' + '; '.join(_cstr(n) for n in order) + '].')
    w('')
    w('(* readers.py: read_int_token: the if/elif chain, (regex name, base given to int()). *)')
    w('Definition int_reader_cases : list (string * Z) :=')
    w('  [' + '; '.join('(%s, %d)' % (_cstr(n), b) for n, b, _ in int_cases) + '].')
    w('')
    w('(* readers.py: read_int_token: per case, the exception class of a `try: return ...` that is')
    w('   re-raised as LexerError(\'Integer literal too large\', scan.cursor); "" = plain return. *)')
    w('Definition int_reader_guards : list (string * string) :=')
    w('  [' + '; '.join('(%s, %s)' % (_cstr(n), _cstr(g)) for n, _, g in int_cases) + '].')
    w('')
    w('(* readers.py: read_char_escape: exception classes of `try: return chr(codepoint)` that are')
    w('   re-raised as LexerError(\'Invalid unicode codepoint: ...\', scan.cursor). *)')
    w('Definition chr_excepts : list string :=')
    w('  [' + '; '.join(_cstr(n) for n in chr_excepts) + '].')
    w('')
    w('(* readers.py: for every function, the scanner calls in source order:')
    w('   "M" scan.match(<regex name>), "E" scan.exact(<literal>), "R" scan.read(1), "L" linebreak. *)')
    w('Definition reader_uses : list (string * list (string * string)) :=')
    rows = []
    for fn, us in uses:
        rows.append('   (%s, [%s])' % (_cstr(fn), '; '.join('(%s, %s)' % (_cstr(k), _cstr(v)) for k, v in us)))
    w('  [\n' + ';\n'.join(rows) + '\n  ].')
    w('')
    w('(* readers.py: symbol_tokens = sorted(<non-identifier enum tokens>, key=len(str), reverse=?). *)')
    w('Definition symbol_sort_reverse : bool := %s.' % ('true' if sort_reverse else 'false'))
    w('')
    return '\n'.join(o)


def generate(repo_root=REPO):
    enum_classes, flavors = read_tokens(_parse(repo_root, TOKENS))
    regexes, escape_codes, uses, int_cases, chr_excepts, sort_reverse = \
        read_readers(_parse(repo_root, READERS))
    order = read_order(_parse(repo_root, INIT))
    known = [f for f, _ in uses]
    for r in order:
        if r not in known:
            raise CannotTranslate('lexer.lex', 'reader %s is not defined in readers.py' % r)
    for n, _, _ in int_cases:
        if n not in [x for x, _ in regexes]:
            raise CannotTranslate('readers.read_int_token', 'unknown regex %s' % n)
    return {OUT: emit(enum_classes, flavors, regexes, escape_codes, uses, int_cases, chr_excepts,
                      sort_reverse, order)}


def main():
    files = generate(REPO)
    for rel, text in files.items():
        changed = write_if_changed(os.path.join(VERIF, rel), text)
        print('%s %s' % ('wrote' if changed else 'unchanged', rel))


if __name__ == '__main__':
    try:
        main()
    except CannotTranslate as e:
        print('CannotTranslate: %s' % e, file=sys.stderr)
        sys.exit(2)
