"""Correspondence check for the `lexer` component (property C12).

Runs the extracted Coq lexer (ocaml/hidlex, from coq/HiD/Lexer.v) and the implementation
(`hidc.lexer.lex(SourceCode.from_string(text))`) on the same texts and compares tokens with their
payloads, spans (line, start col, end col), the final outcome (generator return value / error
kind, argument and position / leaked non-LexerError exception).  It also checks the property
itself on the implementation: hidc's token sequence (and, for whole programs, the emitted
instruction stream) is unchanged under re-layout.

Comment syntax of hidc (readers.py `ignore`): only `//` to end of line.  There are no block
comments; `/* */` is lexed as operator tokens by both sides (covered by the `soup` inputs).

    run(tier, seed, workdir) -> dict      python tools/corr_lexer.py --tier quick --seed 0
"""
import argparse
import json
import os
import random
import re
import subprocess
import sys
import time

HERE = os.path.dirname(os.path.abspath(__file__))
sys.path.insert(0, HERE)
from common import REPO, VERIF, CannotTranslate, write_if_changed  # noqa: E402

sys.path.insert(0, REPO)

COQ = os.path.join(VERIF, 'coq')
OCAML = os.path.join(VERIF, 'ocaml')
DEFAULT_WORK = os.path.join(VERIF, '.work', 'lexer')
HIDLEX = [os.path.join(OCAML, 'hidlex')]             # the driver binary (like ocaml/hidvm)
COQ_FILES = ['Gen/GenLexer.v', 'HiD/Lexer.v', 'Extract/ExtractLexer.v']


# ------------------------------------------------------------------------------------------------
# build
# ------------------------------------------------------------------------------------------------

def _newer(a, b):
    return (not os.path.exists(b)) or os.path.getmtime(a) > os.path.getmtime(b)


def ensure_built(workdir=None):
    """regen -> coqc (tables, model, extraction) -> ocamlfind -> ocaml/hidlex.
    Raises RuntimeError / CannotTranslate on any failure."""
    import regen_lexer
    for rel, text in regen_lexer.generate(REPO).items():
        write_if_changed(os.path.join(VERIF, rel), text)
    stale = False
    for f in COQ_FILES:
        src = os.path.join(COQ, f)
        vo = src[:-2] + '.vo'
        if stale or _newer(src, vo):
            stale = True
            p = subprocess.run(['timeout', '900', 'coqc', '-Q', '.', 'HidV', f], cwd=COQ,
                               stdout=subprocess.PIPE, stderr=subprocess.STDOUT)
            if p.returncode != 0:
                raise RuntimeError('coqc %s failed:\n%s' % (f, p.stdout.decode()[-2000:]))
    binary = HIDLEX[0]
    srcs = [os.path.join(OCAML, n) for n in ('hidlex_core.mli', 'hidlex_core.ml', 'hidlex.ml')]
    if stale or any(_newer(x, binary) for x in srcs):
        p = subprocess.run(['timeout', '600', 'ocamlfind', 'ocamlopt', '-O2', '-w', '-a',
                            'hidlex_core.mli', 'hidlex_core.ml', 'hidlex.ml', '-o', 'hidlex'],
                           cwd=OCAML, stdout=subprocess.PIPE, stderr=subprocess.STDOUT)
        if p.returncode != 0:
            raise RuntimeError('ocaml build failed:\n%s' % p.stdout.decode()[-2000:])
    return binary


# ------------------------------------------------------------------------------------------------
# the two sides
# ------------------------------------------------------------------------------------------------

_RE_S = re.compile(r'\s')
_RE_W = re.compile(r'\w')
_RE_D = re.compile(r'\d')


def oracle_header(texts):
    """\\s \\w \\d (with int() value) for every non-ASCII code point used, computed with `re`."""
    cps = set()
    for t in texts:
        for ch in t:
            if ord(ch) >= 128:
                cps.add(ord(ch))
    S, W, D = [], [], []
    for cp in sorted(cps):
        ch = chr(cp)
        if _RE_S.match(ch):
            S.append(str(cp))
        if _RE_W.match(ch):
            W.append(str(cp))
        if _RE_D.match(ch):
            D.append('%d:%d' % (cp, int(ch)))
    return 'S %s\nW %s\nD %s\n' % (' '.join(S), ' '.join(W), ' '.join(D))


def model_lex(texts):
    """-> list of canonical result strings (one per text)."""
    if not texts:
        return []
    data = oracle_header(texts) + ''.join(
        'T ' + ' '.join(str(ord(c)) for c in t) + '\n' for t in texts)
    cmd = 'ulimit -s unlimited 2>/dev/null || ulimit -s 1000000 2>/dev/null; exec "%s"' % HIDLEX[0]
    p = subprocess.run(['bash', '-c', cmd], input=data.encode(), stdout=subprocess.PIPE,
                       stderr=subprocess.PIPE, timeout=900)
    lines = p.stdout.decode().split('\n')
    if lines and lines[-1] == '':
        lines.pop()
    if p.returncode != 0 or len(lines) != len(texts):
        raise RuntimeError('hidlex failed rc=%s, %d/%d results: %s'
                           % (p.returncode, len(lines), len(texts), p.stderr.decode()[-500:]))
    return lines


_FLAV = {'NONE': 'N', 'YOU': 'Y', 'DEFEAT': 'D'}
_SURR = re.compile(r"can't encode character '\\u([0-9a-fA-F]{4})' in position 0: surrogates not allowed")


def _b(v):
    return format(v, 'b')


def _err_kind(msg):
    if msg == 'Invalid syntax':
        return 'InvalidSyntax'
    if msg == 'Invalid syntax, expected character':
        return 'ExpectedCharacter'
    if msg == "Invalid syntax, expected '":
        return 'ExpectedQuote'
    if msg == 'Invalid byte escape sequence':
        return 'BadByteEscape'
    if msg.startswith('Invalid unicode codepoint: '):
        return 'BadCodepoint ' + _b(int(msg[len('Invalid unicode codepoint: '):], 16))
    if msg == 'Invalid unicode escape sequence':
        return 'BadUnicodeEscape'
    if msg.startswith('Invalid escape sequence: \\') and len(msg) == len('Invalid escape sequence: \\') + 1:
        return 'BadEscape ' + _b(ord(msg[-1]))
    m = _SURR.search(msg)
    if m and msg.startswith("'utf-8' codec"):
        return 'Surrogate ' + _b(int(m.group(1), 16))
    if msg == 'Integer literal too large':
        return 'IntTooLarge'
    if msg == 'Unclosed character literal':
        return 'UnclosedChar'
    if msg == 'Unclosed string literal':
        return 'UnclosedString'
    if msg.startswith('Unicode is not allowed in character literals'):
        return 'UnicodeInChar'
    m = re.fullmatch(r'Invalid (\w+) identifier', msg)
    if m and m.group(1) in _FLAV:
        return 'BadFlavorIdent ' + _FLAV[m.group(1)]
    return 'Unknown<%s>' % msg


def _tok(tok, T):
    if isinstance(tok, T.EnumToken):
        return 'E %s.%s' % (type(tok).__name__, tok.name)
    if isinstance(tok, T.Ident):
        return 'I %s %s' % (_FLAV[tok.flavor.name], ','.join(str(ord(c)) for c in tok.base_name))
    if isinstance(tok, T.IntToken):
        return 'N ' + _b(tok.data)
    if isinstance(tok, T.CharToken):
        return 'C ' + _b(tok.data)
    if isinstance(tok, T.StringToken):
        return 'S ' + ','.join(_b(b) for b in tok.data)
    return 'Unknown<%r>' % (tok,)


def impl_lex_raw(text):
    """-> (list of (token string, span string), outcome string)"""
    from hidc.lexer import lex, SourceCode
    from hidc.lexer import tokens as T
    from hidc.errors import LexerError
    out = []
    try:
        g = lex(SourceCode.from_string(text))
        while True:
            lx = next(g)
            s, e = lx.span.start, lx.span.end
            sp = '@%d:%d:%d' % (s.line, s.col, e.col)
            if s.line != e.line:
                sp += '!endline%d' % e.line
            out.append((_tok(lx.token, T), sp))
    except StopIteration as e:
        cur = e.value
        outcome = 'DONE %d %d' % (cur.line, cur.col)
    except LexerError as e:
        ctx = e.context
        if len(ctx) != 1 or not hasattr(ctx[0], 'col'):
            outcome = 'ERR %s ?context=%r' % (_err_kind(str(e)), ctx)
        else:
            outcome = 'ERR %s %d %d' % (_err_kind(str(e)), ctx[0].line, ctx[0].col)
    except UnicodeEncodeError:
        outcome = 'CRASH EncodeRaw'
    except Exception as e:      # anything else is a disagreement by construction
        outcome = 'CRASH %s<%s>' % (type(e).__name__, e)
    return out, outcome


def impl_lex(text):
    toks, outcome = impl_lex_raw(text)
    return ';'.join('%s %s' % ts for ts in toks) + '|' + outcome


def impl_tokens_only(text):
    toks, outcome = impl_lex_raw(text)
    if outcome.startswith('DONE'):
        outcome = 'DONE'
    elif outcome.startswith('ERR'):
        outcome = outcome.rsplit(' ', 2)[0]         # positions move with the layout
    return [t for t, _ in toks], outcome


# ------------------------------------------------------------------------------------------------
# generators
# ------------------------------------------------------------------------------------------------

WS_ASCII = [' ', ' ', ' ', '\t', '\r', '\x0b', '\x0c', '\x1c', '\x1d', '\x1e', '\x1f']
WS_UNI = ['\x85', '\xa0', '\u1680', '\u2000', '\u2003', '\u200a', '\u2028', '\u2029', '\u202f',
          '\u205f', '\u3000']
UNI_DIGITS = ['\u0663', '\u0669', '\u06f4', '\u0967', '\uff15', '\U0001d7d8']
UNI_WORD = ['\xe9', '\xdf', '\u03bb', '\u4e2d', '\xb2', '\xaa']
UNI_OTHER = ['\u0300', '\u203f', '\xd7', '\xa7', '\u2014', '\u20ac', '\U0001f4a9', '\ufeff', '\u200b', '\ufffd']


def enum_spellings():
    from hidc.lexer import tokens as T
    return sorted(str(t) for t in T.enum_tokens)


def gen_ident(rnd, kws):
    r = rnd.random()
    if r < 0.15:
        base = rnd.choice(kws) + rnd.choice(['x', '_', '1', 'ever', rnd.choice(kws)])
    elif r < 0.25:
        base = rnd.choice(['_', '__', '_1', 'x0', 'a_b', 'xo', 'b1', 'o7', 'x1f', 'e', 'u', 'n'])
    elif r < 0.32:
        base = rnd.choice('abcxyz_') + ''.join(rnd.choice(UNI_WORD + UNI_DIGITS + ['a', '1', '_'])
                                               for _ in range(rnd.randint(1, 3)))
    else:
        first = rnd.choice('abcdefghijklmnopqrstuvwxyzABCXYZ_')
        base = first + ''.join(rnd.choice('abcxyzABC0123456789_') for _ in range(rnd.randint(0, 6)))
    if base in kws:
        base += '_'
    return rnd.choice(['', '', '', '@', '!']) + base


DIGITS = {16: '0123456789abcdefABCDEF', 8: '01234567', 2: '01', 10: '0123456789'}
PREFIX = {16: '0x', 8: '0o', 2: '0b', 10: ''}


def gen_int(rnd, uni=False):
    base = rnd.choice([16, 8, 2, 10, 10])
    n = rnd.choice([1, 1, 2, 3, 5, 9, 17, 40])
    alphabet = DIGITS[base]
    if uni and base in (10, 16):
        alphabet = alphabet + ''.join(UNI_DIGITS)
    s = PREFIX[base]
    for i in range(n):
        if i and rnd.random() < 0.3:
            s += '_'
        s += rnd.choice(alphabet)
    return s


SIMPLE_ESC = ['a', 'b', 'f', 'n', 'r', 't', '0', "'", '"', '\\']


def gen_str_item(rnd, quote):
    r = rnd.random()
    if r < 0.35:
        c = rnd.choice('abcdefghijklmnopqrstuvwxyzABCDEFGHIJKLMNOPQRSTUVWXYZ0123456789 !#$%&()*+,-./:;<=>?@[]^_`{|}~' + ("'" if quote == '"' else '"'))
        return c
    if r < 0.5:
        return '\\x' + rnd.choice('0123456789abcdefABCDEF') + rnd.choice('0123456789abcdefABCDEF')
    if r < 0.65:
        return '\\' + rnd.choice(SIMPLE_ESC)
    if r < 0.8:
        cp = rnd_scalar(rnd)
        h = '%x' % cp
        if rnd.random() < 0.5:
            h = h.upper()
        if rnd.random() < 0.2:
            h = '0' * rnd.randint(1, 3) + h
        return '\\u{' + h + '}'
    if r < 0.95:
        return chr(rnd_scalar(rnd, avoid='\n\\' + quote))
    return rnd.choice(['//', '/', ' ', '\t', '@', '!'])


def rnd_scalar(rnd, avoid=''):
    while True:
        r = rnd.random()
        if r < 0.25:
            cp = rnd.randint(0, 0x7f)
        elif r < 0.45:
            cp = rnd.randint(0x80, 0x7ff)
        elif r < 0.7:
            cp = rnd.randint(0x800, 0xffff)
        elif r < 0.9:
            cp = rnd.randint(0x10000, 0x10ffff)
        else:
            cp = rnd.choice([0x7f, 0x80, 0x7ff, 0x800, 0xd7ff, 0xe000, 0xffff, 0x10000, 0x10ffff])
        if 0xd800 <= cp <= 0xdfff or chr(cp) in avoid or cp == 10:
            continue
        return cp


def gen_string(rnd):
    return '"' + ''.join(gen_str_item(rnd, '"') for _ in range(rnd.choice([0, 1, 1, 2, 3, 6]))) + '"'


def gen_char(rnd):
    r = rnd.random()
    if r < 0.4:
        return "'" + rnd.choice('abcxyzABC019 +-/"{}') + "'"
    if r < 0.6:
        return "'\\" + rnd.choice(SIMPLE_ESC) + "'"
    if r < 0.85:
        return "'\\x%02x'" % rnd.randint(0, 255)
    return "'\\u{%x}'" % rnd.randint(0, 0x7f)


BRACKETISH = set('(){}[];,')


def gen_tokens(rnd, spellings, kws, n, literals=True):
    out = []
    for _ in range(n):
        r = rnd.random()
        if r < 0.4:
            out.append(rnd.choice(spellings))
        elif r < 0.6:
            out.append(gen_ident(rnd, kws))
        elif r < 0.75 or not literals:
            out.append(gen_int(rnd))
        elif r < 0.9:
            out.append(gen_string(rnd))
        else:
            out.append(gen_char(rnd))
    return out


def can_abut(a, b):
    """conservative: the two spellings may be written without anything between them"""
    if a.startswith(('"', "'")) or b.startswith(('"', "'")):
        return (a.startswith(('"', "'")) and not (b[0].isalnum() or b[0] == '_')
                and b[0] in BRACKETISH) or (b.startswith(('"', "'")) and a[-1] in BRACKETISH)
    return (len(a) == 1 and a in BRACKETISH) or (len(b) == 1 and b in BRACKETISH)


def gen_gap(rnd, must_separate, last=False, uni_ws=False):
    r = rnd.random()
    if not must_separate and r < 0.35:
        return ''
    parts = []
    ws = WS_ASCII + (WS_UNI if uni_ws else [])
    for _ in range(rnd.choice([1, 1, 1, 2, 3])):
        k = rnd.random()
        if k < 0.55:
            parts.append(''.join(rnd.choice(ws) for _ in range(rnd.randint(1, 3))))
        elif k < 0.8:
            parts.append('\n')
        else:
            body = ''.join(rnd.choice('abc xyz/*"\'\\@!0_=<>\t{}') for _ in range(rnd.randint(0, 8)))
            lead = rnd.choice(['', ' ', '\t '])
            parts.append(lead + '//' + body + '\n')
    s = ''.join(parts)
    if must_separate and not s:
        s = ' '
    return s


def render_layout(rnd, toks, uni_ws=False, tail_comment=True):
    s = gen_gap(rnd, False, uni_ws=uni_ws) if rnd.random() < 0.5 else ''
    for i, t in enumerate(toks):
        s += t
        if i + 1 < len(toks):
            gap = gen_gap(rnd, not can_abut(t, toks[i + 1]), uni_ws=uni_ws)
            if t.endswith('/') and gap.startswith('/'):
                gap = ' ' + gap             # `/` directly followed by `//...` would be a comment
            s += gap
    if rnd.random() < 0.5:
        gap = gen_gap(rnd, True, uni_ws=uni_ws)
        if toks and toks[-1].endswith('/') and gap.startswith('/'):
            gap = ' ' + gap
        s += gap
        if tail_comment and rnd.random() < 0.5:
            s += ' // trailing ' + rnd.choice(['', '"', "'", '\\', '/*'])
    return s


def canonical_layout(toks):
    return ' '.join(toks)


# ---- the input kinds ----------------------------------------------------------------------------

def inputs_layout(rnd, n_seq, n_layouts):
    """-> list of groups; each group = list of texts that must have the same token sequence"""
    from hidc.lexer import readers
    spellings = enum_spellings()
    kws = sorted(readers.keyword_tokens)
    groups = []
    for i in range(n_seq):
        toks = gen_tokens(rnd, spellings, kws, rnd.choice([1, 2, 3, 5, 8, 13]),
                          literals=(i % 4 != 0))
        texts = [canonical_layout(toks)]
        for j in range(n_layouts):
            texts.append(render_layout(rnd, toks, uni_ws=(j % 5 == 4)))
        groups.append(texts)
    return groups


def inputs_int(rnd, n):
    fixed = ['0x', '1__2', '09', '0b2', '0o8', '0x_1', '1_', '_1', '0xg', '0B1', '0X1f', '0O7',
             '0', '00', '0_0', '0x0', '0xff', '0xFF', '0xfF_Ff', '0o70', '0b101', '1_000', '0b1_1',
             '_1000', '0_', '1__000', '0b', '0b_', '0b_0', '0b0_', '0x1_', '0x1__2', '0o1_8',
             '0b1_2', '0b12', '0o78', '0x1g', '1a', '1_a', '1x', '0xx1', '0x0x1', '00x1', '0b0b1',
             '1 2', '1_2_3_4', '9' * 30, '0x' + 'f' * 40, '0b' + '1' * 70, '0o' + '7' * 33,
             '1' * 4300, '1' * 4301, '1_' * 4300 + '1', '0x' + '1' * 4400, '0' * 4301,
             '\u0663\u0664', '0x\u0663f', '1\u0663', '\u0663_\u0664', '0b\u0661', '0o\u0667',
             '\uff11\uff12', '1\xb2', '\xb2', '0x\xb2', '12.5', '1.', '.5', '1e5', '-1', '+1', '1-1']
    out = list(fixed)
    for _ in range(n):
        s = gen_int(rnd, uni=rnd.random() < 0.15)
        r = rnd.random()
        if r < 0.15:
            s += rnd.choice(['_', '__1', 'g', 'x1', 'o7', 'b1', ' ', '8', '2', 'f', '_f', '.', "'"])
        elif r < 0.25:
            k = rnd.randint(0, len(s))
            s = s[:k] + rnd.choice(['_', '__', 'x', 'o', 'b', '0', ' ']) + s[k:]
        out.append(s)
    return out


def inputs_byte(rnd, tier):
    out = []
    for b in range(256):
        out.append('"\\x%02x"' % b)
        out.append('"\\x%02X"' % b)
        out.append("'\\x%02x'" % b)
        out.append("'\\x%02X'" % b)
        out.append('"%s"' % chr(b))                 # raw (10 splits the line; 34, 92 special)
        out.append("'%s'" % chr(b))
        out.append('"a%sb"' % chr(b))
        out.append('a%sb' % chr(b))                 # bare between identifiers: \s / \w exactness
        out.append('1%s2' % chr(b))
        out.append(chr(b))
        out.append('"\\x%02x\\x%02x"' % (b, rnd.randint(0, 255)))
        out.append('"\\x%s"' % chr(b))              # malformed \x
        out.append('"\\x1%s"' % chr(b))
    pairs = range(256) if tier == 'thorough' else [rnd.randint(0, 255) for _ in range(24)]
    for a in pairs:
        for b in (range(256) if tier == 'thorough' else [rnd.randint(0, 255) for _ in range(8)]):
            out.append('"\\x%02x\\x%02x"' % (a, b))
    return out


def inputs_escape(rnd):
    out = []
    for c in SIMPLE_ESC:
        out += ['"\\%s"' % c, "'\\%s'" % c, '"x\\%sy"' % c, '\\%s' % c]
    for b in list(range(256)) + [0x3bb, 0x2028, 0x1f4a9]:
        out += ['"\\%s"' % chr(b), "'\\%s'" % chr(b), '"\\%s' % chr(b), "'\\%s" % chr(b)]
    out += ['"\\', "'\\", '\\', '"\\"', "'\\'", '"\\\\"', "'\\\\'", "'''", "''", "'\"'", '"\'"',
            "'ab'", "'a", "'", '"', '"abc', '"abc\n"', "'\n'", "'a\n'", '"a\\\nb"', '"a" "b"',
            '"a""b"', "'a''b'", "'a'b'", '"//"', "'/'", '"a//b" // c', "'//'"]
    return out


def inputs_unicode(rnd, n):
    out = ['"\\u{ff}"', "'\\u{ff}'", "'\\u{42}'", "'\\u{7f}'", "'\\u{80}'", '"\\u{1F4A9}"',
           '"\U0001f4a9"', '"\\u"', '"\\u{ff"', '"\\u{}"', '"\\u{g}"', '"\\u{1g}"', '"\\u{ 1}"',
           '"\\u{d800}"', '"\\u{dfff}"', '"\\u{d7ff}"', '"\\u{e000}"', "'\\u{d800}'",
           '"\\u{110000}"', '"\\u{10ffff}"', '"\\u{10FFFF}"', '"\\u{7fffffff}"', '"\\u{80000000}"',
           '"\\u{FFFFFFFFF}"', '"\\u{0000000000000041}"', '"\\u{00110000}"', "'\\u{110000}'",
           "'\\u{80000000}'", '"\\U{41}"', '"\\u41"', '"\\u{41}}"', '"\\u{\u0663}"', '"\\u{4\u0661}"',
           '"\\x\u0663\u0663"', "'\\x\uff14\uff11'", '"\ud800"', "'\ud800'", '"a\udfffb"', '\ud800',
           'a\ud800', '"\\u{41}\ud800"', '// \ud800', '"\xe9"', "'\xe9'", '\xe9', 'x\xe9', '@\xe9',
           '\u03bbx', 'x\u03bb', 'x\xb2', '\xb2', '1\xb2', 'a\u2028b', 'a\x85b', 'a\xa0b', '\ufeffa',
           'a\u200bb', '"\u2028"', "'\u2028'"]
    for _ in range(n):
        cp = rnd_scalar(rnd)
        ch = chr(cp)
        h = ('%x' if rnd.random() < 0.5 else '%X') % cp
        out += ['"%s"' % ch, "'%s'" % ch, '"\\u{%s}"' % h, "'\\u{%s}'" % h, 'a%sb' % ch, ch,
                '1%s2' % ch, '"x%s\\u{%s}y"' % (ch, h)]
        s = rnd.randint(0xd800, 0xdfff)
        if rnd.random() < 0.2:
            out += ['"\\u{%x}"' % s, '"%s"' % chr(s), "'%s'" % chr(s), "'\\u{%X}'" % s]
        if rnd.random() < 0.2:
            big = rnd.choice([0x110000, rnd.randint(0x110000, 2 ** 31 - 1), 2 ** 31 - 1, 2 ** 31,
                              rnd.randint(2 ** 31, 2 ** 70)])
            out += ['"\\u{%x}"' % big, "'\\u{%X}'" % big]
    for c in WS_UNI + UNI_DIGITS + UNI_WORD + UNI_OTHER:
        out += ['a%sb' % c, '1%s2' % c, c, '"%s"' % c, '@%s' % c, 'a %s' % c, '%s//x' % c]
    return out


def inputs_soup(rnd, n):
    out = ['/* a */', '/**/', '/ / /', '///', '// /', '/ //', 'a/b', 'a//b', 'a/=b', 'a/ =b',
           '<==', '<<=', '===', '!==', '!!=', '! =', '!=', '=!', '???', '? ?', '?', '&', '|', '~',
           '^', '#', '$', '`', ':', '\\', '@', '!', '@!x', '!@x', '@@x', '@ x', '! x', '@1', '!1',
           '@if', '!if', '@iff', '!true', '@_', '!_', 'x@y', 'x!y', 'x!=y', 'x! =y', '', ' ', '\n',
           '\n\n', ' \n ', '\t', '//', '//\n', '\n//', 'a\n', '\na', 'a\n\nb', 'a // c\n// d\nb',
           '+-*/%', '+=-=*=/=%=', '<=>=', '< = > =', '()[]{};,.', '..', '1.2', 'a.b', 'if(x){y}']
    alpha = '0123456789abcxob_\'"\\/{}u!@=<>+-?. \n\t;,()[]%*fn'
    for i in range(n):
        r = rnd.random()
        if r < 0.5:
            out.append(bytes(rnd.randint(0, 255) for _ in range(rnd.randint(0, 40))).decode('latin-1'))
        elif r < 0.9:
            out.append(''.join(rnd.choice(alpha) for _ in range(rnd.randint(0, 30))))
        else:
            out.append(''.join(chr(rnd_scalar(rnd)) if rnd.random() < 0.3 else rnd.choice(alpha)
                               for _ in range(rnd.randint(0, 20))))
    return out


def inputs_classes(tier):
    """every code point of a range, bare, between identifier / digit neighbours: \\s \\w \\d"""
    hi = 0x3000 if tier == 'thorough' else 0x250
    out = []
    for cp in list(range(hi)) + [0x1680, 0x2000, 0x200a, 0x2028, 0x2029, 0x202f, 0x205f, 0x3000,
                                 0x660, 0x669, 0xff10, 0xff19, 0x1d7ce]:
        if 0xd800 <= cp <= 0xdfff:
            continue
        ch = chr(cp)
        out += ['a%sb' % ch, '1%s2' % ch, '0x%sf' % ch]
    return out


# ------------------------------------------------------------------------------------------------
# whole programs under re-layout (the implementation's own behaviour)
# ------------------------------------------------------------------------------------------------

def compile_text(text):
    from hidc.lexer import SourceCode
    from hidc.parser import parse
    from hidc.ast import Environment
    from hidc.codegen import CodeGen
    try:
        env = Environment.empty(unreachable_error=False)
        ast_ = parse(SourceCode.from_string(text)).evaluate(env)
        return b'\n'.join(CodeGen(env, 2, 500, False).gen_lines())
    except Exception as e:                      # noqa: BLE001
        return ('%s: %s' % (type(e).__name__, e)).encode()


def strip_asm_comments(asm):
    out = []
    for line in asm.split(b'\n'):
        # a ';' outside quotes starts a comment
        q = None
        cut = len(line)
        i = 0
        while i < len(line):
            c = line[i:i + 1]
            if q:
                if c == b'\\':
                    i += 1
                elif c == q:
                    q = None
            elif c in (b'"', b"'"):
                q = c
            elif c == b';':
                cut = i
                break
            i += 1
        out.append(line[:cut].rstrip())
    return b'\n'.join(l for l in out if l)


def relayout_program(rnd, text):
    """re-render the program's own lexemes (their source slices) under a random layout"""
    from hidc.lexer import lex, SourceCode
    lines = text.split('\n')
    toks = []
    for lx in lex(SourceCode.from_string(text)):
        toks.append(lines[lx.span.start.line][lx.span.start.col:lx.span.end.col])
    return toks, render_layout(rnd, toks)


# ------------------------------------------------------------------------------------------------
# shrinking
# ------------------------------------------------------------------------------------------------

def disagreeing(texts):
    ms = model_lex(texts)
    return [m != impl_lex(t) for m, t in zip(ms, texts)]


def shrink(text, budget=40):
    cur = text
    rounds = 0
    n = 2
    while len(cur) >= 1 and rounds < budget:
        rounds += 1
        size = max(1, len(cur) // n)
        cands = []
        for i in range(0, len(cur), size):
            c = cur[:i] + cur[i + size:]
            if c != cur:
                cands.append(c)
        # also try simplifying single characters
        if size == 1:
            for i, ch in enumerate(cur):
                if ch not in 'a0 ':
                    for rep in 'a0 ':
                        cands.append(cur[:i] + rep + cur[i + 1:])
        if not cands:
            break
        flags = disagreeing(cands)
        hit = [c for c, f in zip(cands, flags) if f]
        if hit:
            cur = min(hit, key=len)
            n = max(n - 1, 2)
        elif size == 1:
            break
        else:
            n = min(n * 2, len(cur))
    return cur


# ------------------------------------------------------------------------------------------------
# run
# ------------------------------------------------------------------------------------------------

SIZES = {
    'quick':    dict(seq=400, layouts=10, ints=1500, uni=250, soup=3000, progs=3),
    'thorough': dict(seq=6000, layouts=10, ints=30000, uni=4000, soup=60000, progs=25),
}


def run(tier='quick', seed=0, workdir=None, build=True):
    t0 = time.time()
    tier = os.environ.get('VERIF_TIER', tier)
    if build and not os.environ.get('VERIF_LEXER_NOBUILD'):
        ensure_built(workdir)
    if not os.path.exists(HIDLEX[0]):
        raise RuntimeError('driver %s not built' % HIDLEX[0])
    rnd = random.Random(seed)
    sz = SIZES[tier]
    dist = {}
    cases = []          # (kind, text)

    groups = inputs_layout(rnd, sz['seq'], sz['layouts'])
    for g in groups:
        for t in g:
            cases.append(('layout', t))
    for t in inputs_int(rnd, sz['ints']):
        cases.append(('int', t))
    for t in inputs_byte(rnd, tier):
        cases.append(('byte', t))
    for t in inputs_escape(rnd):
        cases.append(('escape', t))
    for t in inputs_unicode(rnd, sz['uni']):
        cases.append(('unicode', t))
    for t in inputs_soup(rnd, sz['soup']):
        cases.append(('soup', t))
    for t in inputs_classes(tier):
        cases.append(('charclass', t))

    # whole programs
    prog_dir = os.path.join(REPO, 'examples')
    progs = []
    if os.path.isdir(prog_dir):
        for fn in sorted(os.listdir(prog_dir)):
            if fn.endswith('.hid'):
                with open(os.path.join(prog_dir, fn), encoding='utf-8') as f:
                    progs.append((fn, f.read()))
    relayouts = []      # (name, original, variant)
    for fn, text in progs:
        cases.append(('program', text))
        for _ in range(sz['progs']):
            try:
                _, variant = relayout_program(rnd, text)
            except Exception as e:      # noqa: BLE001
                variant = None
            if variant is not None:
                relayouts.append((fn, text, variant))
                cases.append(('program', variant))

    for k, _ in cases:
        dist[k] = dist.get(k, 0) + 1

    texts = [t for _, t in cases]
    model = model_lex(texts)
    disagreements = []
    seen = set()
    nontrivial = 0
    for (kind, t), m in zip(cases, model):
        im = impl_lex(t)
        if t not in seen:
            seen.add(t)
            if t.strip() and (';' in im or not im.startswith('|DONE') or im.split('|')[0]):
                nontrivial += 1
        if m != im:
            disagreements.append({'kind': kind, 'input': t, 'model': m, 'impl': im})

    # the property on the implementation: token sequence invariant under re-layout
    relayout_checked = 0
    for g in groups:
        base = impl_tokens_only(g[0])
        for t in g[1:]:
            relayout_checked += 1
            got = impl_tokens_only(t)
            if got != base:
                disagreements.append({'kind': 'relayout-tokens', 'input': t,
                                      'model': 'same tokens as %r: %r' % (g[0], base),
                                      'impl': repr(got)})
    asm_checked = 0
    for fn, text, variant in relayouts:
        a = strip_asm_comments(compile_text(text))
        b = strip_asm_comments(compile_text(variant))
        asm_checked += 1
        if a != b:
            disagreements.append({'kind': 'relayout-asm', 'input': variant,
                                  'model': 'same instructions as %s' % fn,
                                  'impl': 'instruction stream differs (%d vs %d bytes)' % (len(a), len(b))})

    # shrink (model-vs-impl disagreements only; at most 10)
    shrunk = []
    shrunk_seen = set()
    for d in disagreements[:12]:
        if d['kind'] in ('relayout-tokens', 'relayout-asm'):
            shrunk.append(d)
            continue
        s = shrink(d['input'])
        if s in shrunk_seen:
            continue
        shrunk_seen.add(s)
        m = model_lex([s])[0]
        shrunk.append({'kind': d['kind'], 'input': s, 'input_codepoints': [ord(c) for c in s],
                       'model': m, 'impl': impl_lex(s), 'original_input': d['input']})
    shrunk += disagreements[12:40]

    samples = []
    for kind in dist:
        ks = [(k, t, m) for (k, t), m in zip(cases, model) if k == kind and len(t) < 60]
        for k, t, m in ks[:: max(1, len(ks) // 3)][:3]:
            samples.append({'kind': k, 'input': t, 'result': m})
    return {
        'evaluations': len(cases) + relayout_checked + asm_checked,
        'distinct_nontrivial': nontrivial,
        'rule': 'distinct non-blank input texts on which hidc yields at least one token or a '
                'non-DONE outcome; model result string (tokens, payloads, spans, outcome with '
                'error kind/argument/position) must equal the implementation\'s',
        'samples': samples,
        'disagreements': shrunk,
        'n_disagreements': len(disagreements),
        'exhaustive': False,
        'exhaustive_parts': ['all 256 byte values via \\xHH (both cases) and raw, in strings and '
                             'chars', 'all simple escapes', 'every code point < 0x%x bare between '
                             'identifier/digit neighbours' % (0x3000 if tier == 'thorough' else 0x250)],
        'distribution': dist,
        'relayout_token_checks': relayout_checked,
        'relayout_asm_checks': asm_checked,
        'seconds': round(time.time() - t0, 2),
        'tier': tier, 'seed': seed, 'repo': REPO,
    }


def main():
    ap = argparse.ArgumentParser()
    ap.add_argument('--tier', default='quick', choices=['quick', 'thorough'])
    ap.add_argument('--seed', type=int, default=int(os.environ.get('VERIF_SEED', '0')))
    ap.add_argument('--workdir', default=None)
    ap.add_argument('--no-build', action='store_true',
                    help='use the existing ocaml/hidlex (e.g. to run the model of the unchanged '
                         'tree against a mutated HIDC_REPO)')
    ap.add_argument('--json', action='store_true')
    a = ap.parse_args()
    try:
        res = run(a.tier, a.seed, a.workdir, build=not a.no_build)
    except (RuntimeError, CannotTranslate) as e:
        print('BUILD-FAILED: %s' % e)
        return 3
    if a.json:
        print(json.dumps(res, indent=1, ensure_ascii=True))
    else:
        print('tier=%s seed=%d repo=%s' % (res['tier'], res['seed'], res['repo']))
        print('evaluations=%d distinct_nontrivial=%d seconds=%s' % (
            res['evaluations'], res['distinct_nontrivial'], res['seconds']))
        print('distribution=%s' % json.dumps(res['distribution'], sort_keys=True))
        print('relayout token checks=%d  relayout asm checks=%d' % (
            res['relayout_token_checks'], res['relayout_asm_checks']))
        print('disagreements=%d' % res['n_disagreements'])
        for d in res['disagreements'][:10]:
            print('  [%s] input=%r\n     model=%s\n     impl =%s' % (
                d['kind'], d['input'], d['model'], d['impl']))
    return 1 if res['n_disagreements'] else 0


if __name__ == '__main__':
    sys.exit(main())
