"""Regenerate the seeded-change table of DESIGN.md §10.2 from seeded/*/meta.json."""
import json, os, re
V = os.path.abspath(os.path.join(os.path.dirname(os.path.abspath(__file__)), '..'))
rows = []
for s in sorted(os.listdir(os.path.join(V, 'seeded'))):
    m = json.load(open(os.path.join(V, 'seeded', s, 'meta.json')))
    rows.append('| %s | %s | %s |' % (s, m['needs_to_manifest'], ', '.join(m['detected_by']) or '**MISSED**'))
p = os.path.join(V, 'DESIGN.md')
t = open(p).read()
head = '| seed | needs | detected by (quick tier) |\n|---|---|---|\n'
i = t.index(head) + len(head)
j = i
while t[j:j + 2] == '| ':
    j = t.index('\n', j) + 1
t = t[:i] + '\n'.join(rows) + '\n' + t[j:]
open(p, 'w').write(t)
print(len(rows), 'seeds;', sum('MISSED' in r for r in rows), 'missed')
