"""Differential execution: real hidc output on the verified VM vs the reference semantics.

Work unit = one source text with several configurations; the (slow) front end of hidc runs once
per unit, code generation once per (w, stack, unchecked), the VM and the reference once per run.
"""
import os, sys, traceback
from collections import namedtuple
from concurrent.futures import ProcessPoolExecutor
HERE = os.path.dirname(os.path.abspath(__file__))
sys.path.insert(0, HERE)
import hidrun, hidref, sasm, vmrun
from hidrun import Case, Run

Cfg = namedtuple('Cfg', 'args w stack unchecked')
Cfg.__new__.__defaults__ = ((), 2, 300, False)
# result of one configuration
Res = namedtuple('Res', 'cfg run ref diff extra')
Res.__new__.__defaults__ = (None,)
NOVERDICT = ('diverged', 'uninit', 'undefined', 'unsupported')


def compare(run, ref):
    """-> None if consistent / not comparable, else a description of the disagreement."""
    end_r, flags_r, out_r, info = ref
    if end_r in NOVERDICT:
        return None
    vend, vflags, vout = hidrun.terminal(run)
    if end_r == 'compile_error':
        return None
    if vend in ('fuel', 'compile_error', 'stop'):
        return None
    if vend == end_r and vflags == flags_r and vout == out_r:
        return None
    # stack overflow is a property of the compiled program, not of the source semantics
    if vend == 'error' and vflags[-2:] == ['stack_overflow', 'error'] and out_r.startswith(vout) \
            and flags_r[:len(vflags) - 2] == vflags[:-2]:
        return None
    return 'vm=%r ref=%r' % ((vend, vflags, vout[:200]), (end_r, flags_r, out_r[:200]))


def _unit(a):
    src, cfgs, fuel, ref_fuel, watch_labels, want_ref, opts = a
    watch_yields = watch_labels == 'yields'
    monitor = watch_labels == 'monitor'
    if watch_yields or monitor:
        watch_labels = None
    from hidc.errors import CompilerError
    from hidc.codegen import CodeGen
    out = []
    try:
        prog, env = hidref.front_end(src, opts)
        fe = None
    except CompilerError as e:
        fe = ('compile_error', '%s: %s' % (type(e).__name__, (str(e).splitlines() or [''])[0]))
    except RecursionError:
        fe = ('compile_error', 'RecursionError')
    except Exception as e:
        fe = ('internal_error', '%s: %s' % (type(e).__name__, traceback.format_exc(limit=4)[-500:]))
    if fe:
        r = Run(fe[0], fe[1], None, None, b'', [], [], [], None)
        return [Res(c, r, ('compile_error', [], b'', fe[1]), None) for c in cfgs]
    gens = {}
    texts, slots = [], []
    for i, c in enumerate(cfgs):
        key = (c.w, c.stack, c.unchecked)
        if key not in gens:
            try:
                gens[key] = ('ok', list(CodeGen(env, word_size=c.w, stack_size=c.stack, unchecked=c.unchecked).gen_lines()))
            except CompilerError as e:
                gens[key] = ('compile_error', '%s: %s' % (type(e).__name__, (str(e).splitlines() or [''])[0]))
            except RecursionError:
                gens[key] = ('compile_error', 'RecursionError')
            except Exception as e:
                gens[key] = ('internal_error', '%s: %s' % (type(e).__name__, traceback.format_exc(limit=4)[-500:]))
        st, val = gens[key]
        if st != 'ok':
            out.append((i, Run(st, val, None, None, b'', [], [], [], None)))
            continue
        try:
            p = sasm.assemble(val, c.args)
        except sasm.AsmTooBig as e:
            out.append((i, Run('too_big', str(e), None, None, b'', [], [], [], None)))
            continue
        except sasm.AsmError as e:
            out.append((i, Run('asm_error', str(e), None, None, b'', [], [], [], None)))
            continue
        watch = ()
        if watch_labels:
            watch = sorted({ad for n, ad in p.labels.items() if p.label_sections[n] == 'code' and watch_labels(n)})
        if watch_yields:
            watch = [k for k, (op, _) in enumerate(p.code) if op == 'yield']
        texts.append(sasm.to_driver(p, str(i), fuel, watch, monitor=monitor and not c.unchecked))
        slots.append((i, p))
    if texts:
        for (i, p), r in zip(slots, vmrun.run_batch(texts)):
            run = Run('ran', '', r.kind, r.pc, r.out, r.flags, r.events, r.snaps,
                      {a: n for n, a in p.labels.items() if p.label_sections[n] == 'code'} if watch_labels else ({'stack_start': p.labels.get('stack_start')} if watch_yields else None))
            out.append((i, run))
    out.sort(key=lambda x: x[0])
    res = []
    refs = {}
    for i, run in out:
        c = cfgs[i]
        if not want_ref:
            res.append(Res(c, run, None, None))
            continue
        key = (c.args, c.w, c.unchecked)
        if key not in refs:
            rr = hidref.Ref(prog, env, c.w, c.unchecked, ref_fuel)
            refs[key] = rr.run(c.args) + (rr.alloc_marks, rr.wrapped, rr.replays, ref_fuel - rr.fuel)
        ref = refs[key]
        res.append(Res(c, run, ref[:4], compare(run, ref[:4]), {'alloc_marks': ref[4], 'wrapped': ref[5], 'replays': ref[6], 'ref_steps': ref[7]}))
    return res


def run_units(units, fuel=400_000, ref_fuel=300_000, procs=None, watch_labels=None, want_ref=True, opts=None):
    """units: list of (src, [Cfg]) -> list of [Res] (same order)"""
    units = list(units)
    if not units:
        return []
    procs = procs or min(15, os.cpu_count() or 4)
    work = [(src, list(cfgs), fuel, ref_fuel, watch_labels, want_ref, opts) for src, cfgs in units]
    if procs == 1 or len(work) == 1:
        return [_unit(w) for w in work]
    with ProcessPoolExecutor(max_workers=procs) as ex:
        return list(ex.map(_unit, work, chunksize=max(1, len(work) // (procs * 8))))


if __name__ == '__main__':
    import argparse
    ap = argparse.ArgumentParser()
    ap.add_argument('file')
    ap.add_argument('args', nargs='*')
    ap.add_argument('-m', type=int, default=2)
    ap.add_argument('-s', type=int, default=64)
    ap.add_argument('--unchecked', action='store_true')
    a = ap.parse_args()
    (res,), = run_units([(open(a.file).read(), [Cfg(tuple(a.args), a.m, a.s, a.unchecked)])], 3_000_000, 3_000_000, procs=1)
    print('VM :', hidrun.terminal(res.run), res.run.detail)
    print('REF:', res.ref)
    print('DIFF:', res.diff)
