"""Behavioural sweeps shared by the property modules: real hidc output on the verified VM versus
the reference semantics (tools/hidref.py), on generated programs (tools/gen.py, tools/genhist.py).
They are the *search for a failing input* of DESIGN §2.3 step 5 and the validation of the models;
they never stand in for a theorem."""
import collections, os, random, sys
import gen, diffrun, hidrun
from diffrun import Cfg

ALL = ['arrays', 'strings', 'calls', 'globals', 'overloads']
WS = [2, 3, 4, 8]


def program_units(rng, n, features, ws, cfgs_per=3, stack=300, unchecked=False, nargs=3, size=1.0, seed_base=0):
    units = []
    for i in range(n):
        src = gen.gen_program(seed_base * 1_000_003 + i, features, nargs, size)
        cfgs = []
        for k in range(cfgs_per):
            w = ws[(i + k) % len(ws)]
            cfgs.append(Cfg(gen.gen_args(rng, nargs, w), w, stack, unchecked))
        units.append((src, cfgs))
    return units


class Stats:
    def __init__(self):
        self.outcomes = collections.Counter()
        self.distinct = set()
        self.noverdict = collections.Counter()
        self.features = collections.Counter()
        self.samples = []
        self.runs = 0

    def feed(self, src, res):
        self.runs += 1
        vend = hidrun.terminal(res.run)[0]
        rend = res.ref[0] if res.ref else '-'
        self.outcomes['%s/%s' % (vend, rend)] += 1
        if res.ref and res.ref[0] in diffrun.NOVERDICT:
            self.noverdict[res.ref[0] + ':' + res.ref[3][:30]] += 1
        elif res.run.status == 'ran' and vend not in ('fuel',):
            self.distinct.add(hash((src, res.cfg)))

    def note_features(self, src):
        for kw in ('try', 'undo', 'stop', 'preempt', '??', 'while', 'for', 'break', 'continue', 'return', '[]', '!truth_is_defeat', '!is_defeat', '/', '%'):
            if kw in src:
                self.features[kw] += 1


def describe(src, res):
    c = res.cfg
    return dict(source=src, args=list(c.args), w=c.w, stack=c.stack, unchecked=c.unchecked,
                vm=[_pr(x)[:300] if isinstance(_pr(x), str) else x for x in hidrun.terminal(res.run)], ref=[_pr(x)[:300] if isinstance(_pr(x), str) else x for x in (res.ref[:3] if res.ref else [])],
                detail=res.run.detail, how='/venv/bin/python tools/diffrun.py <source file> %s -m %d -s %d%s' % (
                    ' '.join(c.args), c.w, c.stack, ' --unchecked' if c.unchecked else ''))


def _pr(x):
    return x.decode('latin1') if isinstance(x, bytes) else x


def diff_sweep(ctx, label, units, what='compiled program disagrees with the reference semantics',
               fuel=400_000, extra=None, stats=None, monitor=False):
    """run units; every disagreement is a violation.  extra(src, res) may add checks."""
    st = stats or Stats()
    results = diffrun.run_units(units, fuel=fuel, watch_labels='monitor' if monitor else None)
    nviol = 0
    for (src, _), rs in zip(units, results):
        st.note_features(src)
        for res in rs:
            st.feed(src, res)
            if res.run.status == 'internal_error':
                ctx.violate('compiler raised an internal exception', cls='internal_error', **describe(src, res))
                nviol += 1
            elif res.run.status == 'asm_error':
                ctx.violate('emitted assembly rejected by the strict assembler', cls='asm_error', **describe(src, res))
                nviol += 1
            elif res.diff:
                if nviol < 40:
                    ctx.violate(what, cls='semantic', label=label, diff=res.diff, **describe(src, res))
                nviol += 1
            if extra:
                extra(src, res)
    ctx.cov['evaluations'] += st.runs
    ctx.cov['distinct_nontrivial'] = ctx.cov.get('distinct_nontrivial', 0) + len(st.distinct)
    ctx.cov.setdefault('distribution', {})[label] = {'outcomes(vm/ref)': dict(st.outcomes), 'no_verdict': dict(st.noverdict),
                                                     'programs_using': dict(st.features), 'programs': len(units)}
    if units and len(ctx.cov['samples']) < 4:
        src, cfgs = units[len(units) // 2]
        ctx.cov['samples'].append({'stream': label, 'source': src[:1500], 'configs': [list(c) for c in cfgs][:2]})
    return results, st


RULE = ('type-directed random HiD programs (tools/gen.py; features per stream in `distribution`) and history templates, each compiled by hidc '
        'at several word sizes / inputs and run on the verified VM; compared with the reference semantics tools/hidref.py on output bytes, '
        'flags and final state; a case is non-trivial and distinct if the VM reached a verdict, the reference reached a verdict '
        '(not diverged/uninitialised/undefined/unsupported) and (program, configuration) was not seen before')


# ---------------------------------------------------------------- C03: committed halts
def halts_extra(ctx):
    def extra(src, res):
        r = res.run
        if r.status == 'ran' and r.kind == 'HALT':
            ref_ok = res.ref is None or res.ref[0] not in ('undefined', 'uninit')
            if ref_ok:
                ctx.violate('the emitted machine halts on its committed timeline (vm_sound: OHalt is a proof of Halts)',
                            cls='committed_halt', **describe(src, res))
        if r.status == 'ran' and r.kind == 'STOP' and not res.cfg.unchecked:
            ref_ok = res.ref is None or res.ref[0] not in ('uninit',)
            if ref_ok:
                ctx.violate('un-entitled memory access in a checked build (entitlement monitor coq/Sphinx/Monitor.v: direct operand into the stack, computed access into the registers / across regions, frame access outside [ap, fp), array access above ap)',
                            cls='unentitled_access', access_pc=r.pc, **describe(src, res))
        if r.status == 'ran' and r.kind == 'FAULT' and not res.cfg.unchecked:
            ref_ok = res.ref is None or res.ref[0] not in ('uninit',)
            if ref_ok:
                ctx.violate('machine fault in a checked build (access outside a section / pc outside code / division by zero)',
                            cls='machine_fault', fault_pc=r.pc, **describe(src, res))
    return extra


# ---------------------------------------------------------------- C16: falling off a function's end
# loops whose back edge, break target or implicit return could be thought dead: bodies that never complete, `continue`/`break` hidden in
# bare nested blocks, if arms, try bodies, handlers and preempt blocks; each function is LAST before another one, so running off its end is visible
C16_DIRECTED = [
    'int up(int n) { while (true) { { if (n % 4 != 0) { n += 1; continue; } } return n; } }\nempty boom() { write("BOOM"); }\nempty @is_you(int a, int b) { write(up(a + 4)); write(up(b + 5)); write(up(8)); if (a > 100) { boom(); } }\n',
    'int f(int n) { for (;;) { { { if (n < 10) { n += 3; continue; } } } if (n > 20) { { break; } } return n; } return 0 - n; }\nempty tail() { write("TAIL"); }\nempty @is_you(int a, int b) { write(f(a)); write(f(b + 30)); write(f(12)); if (a > 100) { tail(); } }\n',
    'int g(int n) { while (true) { n += 1; { if (n < 5) { continue; } } { if (n > 7) { break; } } } return n; }\nint h(int n) { for (int i = 0; ; i += 1) { { if (i < n) { continue; } } return i; } }\nempty z() { write("Z"); }\n'
    'empty @is_you(int a, int b) { write(g(a)); write(h(b + 2)); write(g(9)); if (a > 100) { z(); } }\n',
    'empty !dd(int c) { !truth_is_defeat(c > 2); }\nint @w(int n) { while (true) { try { !dd(n); return n; } undo { { n -= 1; continue; } } } }\nint @v(int n) { while (true) { { try { !dd(n); { break; } } stop { n -= 2; } } } return n; }\nempty q() { write("Q"); }\n'
    'empty @is_you(int a, int b) { write(@w(a + 3)); write(@v(b + 4)); if (a > 100) { q(); } }\n',
    'empty p(int n) { while (n > 0) { { n -= 1; { if (n == 2) { continue; } } } write(n); } }\nempty r(int n) { for (int i = 0; i < n; i += 1) { { { continue; } } } write("r"); }\nempty last() { write("L"); }\n'
    'empty @is_you(int a, int b) { p(a + 3); r(b); if (a > 100) { last(); } }\n',
]


def c16_fallthrough(ctx):
    """Committed pc trace: entering a function's first instruction other than by a taken jump.
    Watched: every func_* label; the state recorded just before must be a `j`/goto, which we
    check structurally on the emitted text instead (the instruction before each func_* label and
    before the stdlib must be an unconditional `halt` following a `j`)."""
    rng = random.Random(ctx.seed + 16)
    n = 60 if ctx.tier == 'quick' else 400
    units = program_units(rng, n, ALL + ['tt'], [2, 4], cfgs_per=1, seed_base=ctx.seed + 1600)
    units += [(src, [Cfg(('1', '2'), 2, 300, False)]) for src in C16_DIRECTED]
    bad = 0
    total = 0
    for src, cfgs in units:
        try:
            lines = hidrun.compile_lines(src, cfgs[0].w, cfgs[0].stack)
        except Exception:
            continue
        total += 1
        body = [l.strip() for l in lines if l.strip() and not l.strip().startswith(b';')]
        try:
            start = body.index(b'%section code') + 1
        except ValueError:
            continue
        code = body[start:]
        for i, l in enumerate(code):
            if l.endswith(b':') and (l.startswith(b'func_') or l == b'all_is_win:'):
                # previous real instructions must be `j X` ; `halt`
                prev = [x for x in code[:i] if not x.endswith(b':')][-2:]
                if i == 0 or not prev:
                    continue
                if not (len(prev) == 2 and prev[0].startswith(b'j ') and prev[1] == b'halt'):
                    bad += 1
                    ctx.violate('a function\'s emitted code does not end with an unconditional transfer: control can run into %s' % l.decode(),
                                cls='fallthrough', source=src, w=cfgs[0].w, before=[p.decode() for p in prev])
                    break
    ctx.oblige('every function body in %d compiled programs ends in `j X; halt` (no fall-through into the next function)' % total, bad == 0)
    ctx.cov['evaluations'] += total


# ---------------------------------------------------------------- aliasing / evaluation-order corpus
ALIAS_DIRECTED = [
    'int g = 1;\nbyte fb() { g = 3; return \'Z\'; }\nint fi() { g = 0; return 90; }\nbool ft() { g = 2; return true; }\n'
    'empty @is_you(int a, int b) { byte[] buf = [\'a\', \'b\', \'c\', \'d\']; int[] nxt = [11, 22, 33, 44]; bool[] bs = [false, false, false, false];\n'
    '  g = a; buf[g] = fb(); g = a; nxt[g] = fi(); g = a; bs[g] = ft(); g = b; buf[g] += 1; g = b; nxt[g] += fi(); g = b; nxt[g] *= 2;\n'
    '  write(buf); for (int i = 0; i < 4; i += 1) { write(nxt[i]); write(\' \'); write(bs[i]); } write(g); }\n',
    'empty sw(int[] p, int[] q) { int t = p[0]; p[0] = q[1]; q[1] = t; p[1] += q[0]; }\nint touch(int[] p, int k) { p[k] = p[k] + 100; return p[k]; }\n'
    'empty @is_you(int a, int b) { int[] v = [a, b, 3]; sw(v, v); write(v[0]); write(\' \'); write(v[1]); write(\' \'); v[a] = touch(v, a) + v[a]; write(v[a]); write(\' \'); v[b] += touch(v, b); write(v[b]); int[] w2 = [touch(v, 0), v[0], touch(v, 0)]; write(w2[0] + w2[1] + w2[2]); }\n',
    'int g = 5;\nint bump() { g = g + 10; return g; }\nbyte bbump() { g = g + 1; return (g is byte); }\nbool tb() { g = g * 2; return g > 20; }\n'
    'empty @is_you(int a, int b) { write(g + bump()); write(\' \'); write(bump() + g); write(\' \'); write(g + bbump()); write(\' \'); write(g * (bbump() is int)); write(\' \'); write(g < bump()); write(\' \'); write((g > a) and tb()); write(\' \'); write(g - (g + bump())); write(\' \'); write([g, bump(), g][a]); write(\' \'); string s = "abcdefghijklmnopqrstuvwxyzabcdefghijklmnopqrstuvwxyz"; write(s[g - bump() + 12]); write(g); }\n',
    # every evaluation of an array literal is a NEW array (loops, repeated calls, recursion, literal arguments), whatever its elements
    'int bump(int[] c) { c[0] += 1; return c[0]; }\nbyte bb(byte[] c) { c[1] = c[0]; c[0] = \'!\'; return c[1]; }\nbool flip(bool[] m) { m[0] = not m[0]; return m[0]; }\n'
    'int tally(int n) { int[] acc = [0, 0]; for (int i = 0; i < n; i += 1) { acc[0] += 1; acc[1] += i; } return acc[0] * 100 + acc[1]; }\n'
    'int depth(int n) { bool[] seen = [false]; if (seen[0]) { return n; } seen[0] = true; if (n == 0) { return 0; } return depth(n - 1) + 1; }\n'
    'empty @is_you(int a, int b) { write(tally(3)); write(\' \'); write(tally(b + 1)); write(\' \'); for (int i = 0; i < 3; i += 1) { write(bump([0])); write(bump([7, 8])); write(bb([\'p\', \'q\'])); write(flip([false, true])); '
    'string[] ss = ["a", "b"]; write(ss[i % 2]); ss[0] = "z"; ss[1] = ss[0]; } write(depth(a + 2)); write(\' \');\n'
    '  for (int k = 0; k < 2; k += 1) { int[] v = [1, 2, 3]; byte[] w = [\'x\', \'y\']; bool[] m = [true, false, true, false, true, false, true, false, true]; write(v[k]); write(w[k]); write(m[k]); write(m[8]); v[k] = 9; v[k + 1] = 8; w[k] = \'#\'; m[k] = not m[k]; m[8] = false; } }\n',
    # constant arrays that look alike once emitted: bool arrays with equal packed bytes but different lengths, equal values at different widths
    'const bool[] s3 = [true, false, true];\nconst bool[] s6 = [true, false, true, false, false, false];\nint count(const bool[] m) { int n = 0; for (int i = 0; i < m.length; i += 1) { if (m[i]) { n += 1; } } return n * 10 + m.length; }\n'
    'empty @is_you(int a, int b) { const bool[] l2 = [true, false]; const bool[] l5 = [true, false, false, false, false]; const bool[] l8 = [true, false, false, false, false, false, false, false]; const bool[] l9 = [true, false, false, false, false, false, false, false, false];\n'
    '  write(s3.length); write(s6.length); write(l2.length); write(l5.length); write(l8.length); write(l9.length); write(count(s3)); write(count(s6)); write(count(l5)); write(count(l9)); write(l5[4]); write(s6[5]); write(l9[8]);\n'
    '  const int[] ci = [72, 105, 33]; const byte[] cb = [72, 105, 33]; const bool[] c1 = [true]; const byte[] c2 = [1]; const int[] c3 = [1]; write(cb); write(ci[1]); write(c1[0]); write(c2[0] is int); write(c3[0]); write(s6[a + 2] or l5[b + 1]); }\n',
    # a global that is only ever assigned in a for-loop increment clause / a while condition helper, used as an index next to a call that runs that loop
    'int pos = 0;\nint cur = 0;\nbyte adv(int n) { for (int k = 0; k < n; pos += 1) { k += 1; } return \'x\'; }\nint step(int n) { for (int k = 0; k < n; cur += 2) { k += 1; } return cur; }\n'
    'empty @is_you(int a, int b) { byte[] buf = [\'.\', \'.\', \'.\', \'.\', \'.\', \'.\', \'.\', \'.\']; byte[] nb = [\'-\', \'-\', \'-\', \'-\']; int[] iv = [0, 0, 0, 0, 0, 0, 0, 0];\n'
    '  buf[pos] = adv(a + 1); write(buf); write(nb); write(pos); buf[pos] = adv(b); write(buf); iv[cur] = step(a); write(iv[0]); write(iv[cur]); write(cur); write(pos + adv(1) + pos); }\n',
    'string gs = "hello";\nint chg() { gs = "HELLO WORLD"; return 1; }\nbyte[] gb = [\'x\', \'y\', \'z\'];\nint chb() { gb[1] = \'!\'; return 1; }\n'
    'empty @is_you(int a, int b) { write(gs[chg()]); write(gs.length + chg()); write(gb[chb()]); write(gb[a] is int + chb()); write(gs); write(gb); }\n',
]


def label_hygiene_program(rng):
    """identifiers that look like the suffixed labels the generator makes up (func_F_k, var_V_k, ...), overloads and instantiations of the
    same name: every function prints its own tag, so a label collision is an assembler error or a wrong call"""
    base = rng.choice(['test', 'f', 'go', 'func', 'var', 'loop', 'end', 'write_int', 'string', 'data', 'begin_try', 'halt', 'error', 'stack'])
    names = [base] + rng.sample([base + '_0', base + '_1', base + '_2', base + '_0_0', base + '_1_0', 'func_' + base, 'func_' + base + '_0', base + '0', base + '_'], rng.randint(2, 5))
    funcs, calls, tag = [], [], 0
    sigs = rng.sample(['int p', 'bool p', 'byte p', 'string p', 'const int[] p', 'int[] p', '', 'int p, int q'], rng.randint(2, 4))
    argfor = {'int p': '42', 'bool p': 'true', 'byte p': "'c'", 'string p': '"s"', 'const int[] p': 'ca', 'int[] p': 'ma', '': '', 'int p, int q': '1, 2'}
    for sg in sigs:   # overloads of the base name (and, for arrays, two access-mode instantiations)
        tag += 1
        funcs.append('empty %s(%s) { write("<%d>"); }' % (base, sg, tag))
        calls.append('%s(%s);' % (base, argfor[sg]))
        if sg == 'const int[] p':
            calls.append('%s(ma);' % base)
    for nm in names[1:]:
        tag += 1
        funcs.append('int %s(int p) { write("<%d>"); return p + %d; }' % (nm, tag, tag))
        calls.append('write(%s(%d));' % (nm, tag))
    rng.shuffle(funcs)
    rng.shuffle(calls)
    gl = ''.join('int %s = %d;\n' % (v, k + 1) for k, v in enumerate(rng.sample(['v', 'v_0', 'v_1', 'v_0_0', 'var_v_0', base + '_v'], 3)))
    return (gl + 'const int[] ca = [1, 2];\n' + '\n'.join(funcs) + '\nempty @is_you(int a, int b) { int[] ma = [a, b]; ' + ' '.join(calls)
            + ' write(a); ' + ' '.join('write(%s);' % ln.split()[1] for ln in gl.splitlines()) + ' }\n')


def alias_units(ws, stack=300):
    import random as _r
    rng = _r.Random(20260923)
    units = [(src, [Cfg((str(a), str(b)), w, stack, False) for a in (0, 1, 2) for b in (1, 2, 0) for w in ws]) for src in ALIAS_DIRECTED]
    units += [(label_hygiene_program(rng), [Cfg(('1', '2'), w, stack, False) for w in ws[:2]]) for _ in range(12)]
    return units


# ---------------------------------------------------------------- byte-granular stack boundary
FILL_BODIES = [
    ('int g(const int[] q) { return q[0] + q[3]; }\n', 'int[] v = [g([a, b, a, b]), 3, 4, 5, 6]; write(v[0] is byte); write(v[1] is byte); write(v[4] is byte);'),
    ('', 'int[] v = [4369, 8738, 13107, (b + 1) * ((b + 2) * ((b + 3) * (b + 4)))]; write(v[0] is byte); write(v[1] is byte); write(v[2] is byte); write(v[3] is byte);'),
    ('int g(int p, int q, int r) { return p + q * r; }\n', 'byte[] v = [\'a\', \'b\', \'c\', ((g(b, 2, 3) + 1) * (b + g(1, b, 2))) is byte]; write(v);'),
    ('', 'byte[] arr = [\'w\', \'x\', \'y\', \'z\']; byte c = \'a\'; write(arr[0]); write(arr[1]); write(arr[2]); write(arr[3]); write(c);'),
    ('', 'int[] v = [a, b]; bool t = b > 1; byte c = \'k\'; write(c); if (t) { write(\'T\'); } write(v[1] is byte); write(v[0] is byte);'),
    ('empty h(int x) { byte[] loc = [\'l\', \'m\', \'n\']; bool e = x > 0; byte d = \'d\'; loc[1] = \'7\'; write(d); write(loc[2]); write(loc[1]); write(loc[0]); }\n', 'h(b); h(a);'),
    ('', 'write(a); write(\' \'); write(b);'),
    ('', 'int[] v = [11111, 22222, a]; write(v[2]); write(\' \'); write(v[0]); write(v[1]);'),
    ('', 'byte[] arr = [\'w\', \'x\', \'y\', \'z\']; byte c = \'a\'; write(arr); write(c);'),
    ('', 'bool[] m = [true, false, true, true, false, true, false, true, true]; bool t = b > 1; byte c = \'q\'; write(a); write(m[8]); write(t); write(c);'),
    ('int f(int x) { byte k = \'k\'; int[] t = [x, x + 1]; write(k); write(t[1]); return t[0] * 2; }\n', 'int[] v = [f(b), f(a)]; write(v[0]); write(\' \'); write(v[1]);'),
    ('int r(int d, int x) { if (d <= 0) { write(x); return x; } byte[] pad2 = [\'p\', \'q\', \'r\']; int y = r(d - 1, x); write(pad2); return y; }\n', 'write(r(b, a));'),
    ('empty g(byte[] q, int k) { bool flag = k > 0; q[k] = \'!\'; write(q); write(flag); }\n', 'byte[] v = [\'a\', \'b\', \'c\']; g(v, 1); int m[b]; for (int i = 0; i < m.length; i += 1) { m[i] = a; } write(m[0]); g(v, 2);'),
    ('', 'string s = "hello"; write(s); write(s[1]); write(a); write(s is byte[]);'),
    ('empty !d(int x) { byte loc = \'L\'; !truth_is_defeat(x > 2); write(loc); write(x); }\n', 'try { int[] q = [a, b]; !d(b); write(q[0]); } stop { write("S"); write(a); }'),
]


def fill_sweep(ctx, bodies, ws, stacks, label='byte-granular stack boundary'):
    """For each body: a leading byte array of input-dependent size n eats the stack one byte at a
    time; every n from 0 to beyond capacity is run at a small stack and at a generous one.  The
    small-stack run must equal the generous run or end in stack_overflow after a prefix of it."""
    units, meta = [], []
    for prelude, body in bodies:
        src = (prelude + 'empty @is_you(int n, int a, int b) {\n  byte pad[n];\n  if (n > 0) { pad[0] = \'<\'; pad[n - 1] = \'>\'; }\n  '
               + body + '\n  if (n > 0) { write(pad[0]); write(pad[n - 1]); }\n}\n')
        for w in ws:
            a = -(1 << (8 * w - 1))
            for S in stacks:
                ns = list(range(0, S * w + 3))
                for bval in ('3', '1'):
                    cfgs = []
                    for n in ns:
                        cfgs.append(Cfg((str(n), str(a), bval), w, S, False))
                        cfgs.append(Cfg((str(n), str(a), bval), w, 400, False))
                    units.append((src, cfgs))
    results = diffrun.run_units(units, want_ref=False, watch_labels='monitor')
    total = 0
    nthr = 0
    distinct = set()
    for (src, _), rs in zip(units, results):
        seen_ok = seen_of = False
        for small, big in zip(rs[0::2], rs[1::2]):
            total += 2
            tb = hidrun.terminal(big.run)
            ts = hidrun.terminal(small.run)
            if big.run.status != 'ran' or small.run.status != 'ran' or tb[0] not in ('win', 'error') or 'stack_overflow' in tb[1]:
                continue
            distinct.add(hash((src, small.cfg)))
            if ts == tb:
                seen_ok = True
                continue
            if ts[0] == 'fuel':
                continue
            if ts[0] == 'error' and ts[1][-2:] == ['stack_overflow', 'error'] and tb[2].startswith(ts[2]) and tb[1][:len(ts[1]) - 2] == ts[1][:-2]:
                seen_of = True
                continue
            kind = 'machine_fault' if ts[0] in ('fault', 'halt') else 'unentitled_access' if ts[0] == 'stop' else 'stack_boundary'
            ctx.violate('with the stack filled to the byte, the run neither equals the generous-stack run nor ends in stack_overflow after a prefix of it (silent corruption / out-of-region access)',
                        cls=kind, source=src, args=list(small.cfg.args), w=small.cfg.w, stack=small.cfg.stack,
                        generous=[tb[0], tb[1], tb[2][:200].decode('latin1')], got=[ts[0], ts[1], ts[2][:200].decode('latin1')], detail=small.run.detail)
        if seen_ok and seen_of:
            nthr += 1
    ctx.cov['evaluations'] += total
    ctx.cov['distinct_nontrivial'] = ctx.cov.get('distinct_nontrivial', 0) + len(distinct)
    ctx.cov.setdefault('distribution', {})[label] = {'programs': len(units), 'programs_whose_threshold_was_crossed': nthr, 'runs': total}
    return nthr
