"""Behavioural sweeps shared by the property modules: real hidc output on the verified VM versus
the reference semantics (tools/hidref.py), on generated programs (tools/gen.py, tools/genhist.py).
They are the *search for a failing input* of DESIGN §2.3 step 5 and the validation of the models;
they never stand in for a theorem."""
import collections, os, random, sys
import gen, diffrun, hidrun
from diffrun import Cfg

ALL = ['arrays', 'strings', 'calls', 'globals', 'overloads']
WS = [2, 3, 4, 8]


def program_units(rng, n, features, ws, cfgs_per=3, stack=300, unchecked=False, nargs=3, size=1.0, seed_base=0):
    units = []
    for i in range(n):
        src = gen.gen_program(seed_base * 1_000_003 + i, features, nargs, size)
        cfgs = []
        for k in range(cfgs_per):
            w = ws[(i + k) % len(ws)]
            cfgs.append(Cfg(gen.gen_args(rng, nargs, w), w, stack, unchecked))
        units.append((src, cfgs))
    return units


class Stats:
    def __init__(self):
        self.outcomes = collections.Counter()
        self.distinct = set()
        self.noverdict = collections.Counter()
        self.features = collections.Counter()
        self.samples = []
        self.runs = 0

    def feed(self, src, res):
        self.runs += 1
        vend = hidrun.terminal(res.run)[0]
        rend = res.ref[0] if res.ref else '-'
        self.outcomes['%s/%s' % (vend, rend)] += 1
        if res.ref and res.ref[0] in diffrun.NOVERDICT:
            self.noverdict[res.ref[0] + ':' + res.ref[3][:30]] += 1
        elif res.run.status == 'ran' and vend not in ('fuel',):
            self.distinct.add(hash((src, res.cfg)))

    def note_features(self, src):
        for kw in ('try', 'undo', 'stop', 'preempt', '??', 'while', 'for', 'break', 'continue', 'return', '[]', '!truth_is_defeat', '!is_defeat', '/', '%'):
            if kw in src:
                self.features[kw] += 1


def describe(src, res):
    c = res.cfg
    return dict(source=src, args=list(c.args), w=c.w, stack=c.stack, unchecked=c.unchecked,
                vm=list(map(_pr, hidrun.terminal(res.run))), ref=[_pr(x) for x in (res.ref[:3] if res.ref else [])],
                detail=res.run.detail, how='/venv/bin/python tools/diffrun.py <source file> %s -m %d -s %d%s' % (
                    ' '.join(c.args), c.w, c.stack, ' --unchecked' if c.unchecked else ''))


def _pr(x):
    return x.decode('latin1') if isinstance(x, bytes) else x


def diff_sweep(ctx, label, units, what='compiled program disagrees with the reference semantics',
               fuel=400_000, extra=None, stats=None):
    """run units; every disagreement is a violation.  extra(src, res) may add checks."""
    st = stats or Stats()
    results = diffrun.run_units(units, fuel=fuel)
    nviol = 0
    for (src, _), rs in zip(units, results):
        st.note_features(src)
        for res in rs:
            st.feed(src, res)
            if res.run.status == 'internal_error':
                ctx.violate('compiler raised an internal exception', cls='internal_error', **describe(src, res))
                nviol += 1
            elif res.run.status == 'asm_error':
                ctx.violate('emitted assembly rejected by the strict assembler', cls='asm_error', **describe(src, res))
                nviol += 1
            elif res.diff:
                if nviol < 40:
                    ctx.violate(what, cls='semantic', label=label, diff=res.diff, **describe(src, res))
                nviol += 1
            if extra:
                extra(src, res)
    ctx.cov['evaluations'] += st.runs
    ctx.cov['distinct_nontrivial'] = ctx.cov.get('distinct_nontrivial', 0) + len(st.distinct)
    ctx.cov.setdefault('distribution', {})[label] = {'outcomes(vm/ref)': dict(st.outcomes), 'no_verdict': dict(st.noverdict),
                                                     'programs_using': dict(st.features), 'programs': len(units)}
    if units and len(ctx.cov['samples']) < 4:
        src, cfgs = units[len(units) // 2]
        ctx.cov['samples'].append({'stream': label, 'source': src[:1500], 'configs': [list(c) for c in cfgs][:2]})
    return results, st


RULE = ('type-directed random HiD programs (tools/gen.py; features per stream in `distribution`) and history templates, each compiled by hidc '
        'at several word sizes / inputs and run on the verified VM; compared with the reference semantics tools/hidref.py on output bytes, '
        'flags and final state; a case is non-trivial and distinct if the VM reached a verdict, the reference reached a verdict '
        '(not diverged/uninitialised/undefined/unsupported) and (program, configuration) was not seen before')


# ---------------------------------------------------------------- C03: committed halts
def halts_extra(ctx):
    def extra(src, res):
        r = res.run
        if r.status == 'ran' and r.kind == 'HALT':
            ref_ok = res.ref is None or res.ref[0] not in ('undefined', 'uninit')
            if ref_ok:
                ctx.violate('the emitted machine halts on its committed timeline (vm_sound: OHalt is a proof of Halts)',
                            cls='committed_halt', **describe(src, res))
        if r.status == 'ran' and r.kind == 'FAULT' and not res.cfg.unchecked:
            ref_ok = res.ref is None or res.ref[0] not in ('uninit',)
            if ref_ok:
                ctx.violate('machine fault in a checked build (access outside a section / pc outside code / division by zero)',
                            cls='machine_fault', fault_pc=r.pc, **describe(src, res))
    return extra


# ---------------------------------------------------------------- C16: falling off a function's end
def c16_fallthrough(ctx):
    """Committed pc trace: entering a function's first instruction other than by a taken jump.
    Watched: every func_* label; the state recorded just before must be a `j`/goto, which we
    check structurally on the emitted text instead (the instruction before each func_* label and
    before the stdlib must be an unconditional `halt` following a `j`)."""
    rng = random.Random(ctx.seed + 16)
    n = 60 if ctx.tier == 'quick' else 400
    units = program_units(rng, n, ALL + ['tt'], [2, 4], cfgs_per=1, seed_base=ctx.seed + 1600)
    bad = 0
    total = 0
    for src, cfgs in units:
        try:
            lines = hidrun.compile_lines(src, cfgs[0].w, cfgs[0].stack)
        except Exception:
            continue
        total += 1
        body = [l.strip() for l in lines if l.strip() and not l.strip().startswith(b';')]
        try:
            start = body.index(b'%section code') + 1
        except ValueError:
            continue
        code = body[start:]
        for i, l in enumerate(code):
            if l.endswith(b':') and (l.startswith(b'func_') or l == b'all_is_win:'):
                # previous real instructions must be `j X` ; `halt`
                prev = [x for x in code[:i] if not x.endswith(b':')][-2:]
                if i == 0 or not prev:
                    continue
                if not (len(prev) == 2 and prev[0].startswith(b'j ') and prev[1] == b'halt'):
                    bad += 1
                    ctx.violate('a function\'s emitted code does not end with an unconditional transfer: control can run into %s' % l.decode(),
                                cls='fallthrough', source=src, w=cfgs[0].w, before=[p.decode() for p in prev])
                    break
    ctx.oblige('every function body in %d compiled programs ends in `j X; halt` (no fall-through into the next function)' % total, bad == 0)
    ctx.cov['evaluations'] += total
